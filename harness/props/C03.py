"""C03 — physical bounds of the battery models: 0 <= rate <= pilot, power <= max power, the
stored charge never decreases and never exceeds capacity, along every history and for every
noise draw — at the battery, through EV.charge, through set_pilot of every EVSE class (with the
pilots the class accepts only within its tolerance), and as recorded by a whole simulation
(0 <= charging_rates <= pilot_signals at every station and period).  (The engine in this module —
running histories on the real objects, the wire format, the comparison — is shared with C14.)"""
from __future__ import annotations

import copy
import math

from core.common import f2b, b2f, close
from core import impl as I

ID = "C03"
LEAN_MODULES = ["AcnProofs.C03"]
TIE_MODULES = ["AcnProofs.Lemmas.CodeTieBattery"]
DRIVER = "drv_C03"
REQUIRED_THEOREMS = [
    "Acn.C03.ideal_bounds", "Acn.C03.stepwise_bounds", "Acn.C03.ideal_stepwise_reject",
    "Acn.C03.constructor_guard", "Acn.C03.continuous_bounds", "Acn.C03.continuous_bounds_noise",
    "Acn.C03.charge_rejects_and_returns", "Acn.C03.charge_bounds_all", "Acn.C03.bounds_along_history",
    "Acn.C03.states_along_history", "Acn.C03.ev_rate_le_pilot", "Acn.C03.noise_clamp_needed",
    "Acn.C03.evse_rate_le_pilot", "Acn.C03.evse_call_spec", "Acn.C03.evse_bounds_along_history",
]
BUDGET = {"quick": 3000, "thorough": 60000, "search": 30000}
TRUSTED = [
    "numpy.exp / numpy.random.normal (the draw is an input of both sides: numpy.random.normal is patched "
    "in the harness process and the model takes the raw draw as its argument nu)",
    "IEEE-754 rounding: the bounds are proved in exact arithmetic; the oracle allows 1e-9 abs+rel slack "
    "(DESIGN §4) except on the exact dyadic stream, where double arithmetic is exact and the slack is 0",
]
ASSUMPTIONS = [
    "theorems over an arbitrary linear ordered field (ideal, stepwise) / over R (continuous); the "
    "implementation computes in doubles (validated by correspondence within 1e-9, not proved)",
    "reachable states: capacity > 0, init <= capacity, max power >= 0, 0 <= ts < 1 (constructor guards); pilot >= 0 "
    "(an EVSE with minimum 0 accepts pilots in [-1e-3, 0): after such a call the history / the station is skipped by the oracle)",
    "whole simulations (the sim stream) are judged by the implementation-only oracle; their model correspondence is "
    "C01/C02's (theorem C02.sim_rate_le_pilot); the EVSE path is modelled (Evse.setPilotSt / runPilots) and compared",
    "whether an EVSE accepts or refuses a pilot is C13's property: here the decision is only compared with the model, and "
    "the oracle demands that a refused call changed nothing",
    "positive pilots below 1e-9 A are not generated: with pilot/max current below ~1e-13 the continuous two-stage law's "
    "pilot_transition_soc rounds to 1.0 in doubles and a FULL battery (SoC = 1) divides by zero (ZeroDivisionError for a "
    "Python float, NaN rate and NaN stored charge for the numpy.float64 a Simulator passes) - reported, not modelled",
]
RULE = ("per case one battery (ideal / two-stage continuous / two-stage stepwise; capacities, max powers, "
        "transition SoCs, noise levels 0..10 kW; initial SoC at 0, ts, pts±eps, the linear/crossing boundary, 1-eps, 1, "
        "random, sometimes negative), optionally wrapped in an EV, and a history of 1-50 calls: charge(pilot, V, T) with "
        "pilots around the battery's maximum current ±{0,1e-9,1e-3 rel}, 0, tiny, standard levels, the pilot that exactly "
        "fills the battery, noise draws from N(0, level), 0, and draws far larger than the period's gain; reset(None | "
        "value | value > capacity); a malformed stream (V<=0, T<=0, negative pilots, init > capacity, ts outside [0,1), "
        "capacity 0, max power 0); an exact dyadic stream (capacity 64, V=125*2^k, T=60*2^k, dyadic charges) on which the "
        "bounds are checked with zero slack; an EVSE stream (30%): the battery's EV plugged into an EVSE of every class "
        "(continuous with min 0 / min > 0 / unbounded, deadband with end 5.5/6/8, finite ClipperCreek / AeroVironment / "
        "random rate lists) and a history of 1-20 set_pilot calls (plus resets, V<=0, T<=0) whose pilots seek the edges "
        "of the class's acceptance set: positive values within tolerance of 0 (1e-9..9.99e-4, 'solver residue'), values "
        "up to 1e-3 BELOW a lower edge (deadband end, minimum rate, a listed rate), up to 1e-3 ABOVE the maximum / a "
        "listed rate, the razor edge, values just outside (refused), negative values, interior values, on batteries "
        "that can mostly still take far more than the pilot; a simulation stream (5%): 1-4 stations covering the "
        "classes (never only continuous), 1-2 sessions back to back per station, period 0.5..15, a scripted scheduler "
        "asked every period (or every 2-3 periods with multi-period schedules) that sends such edge pilots to every "
        "station, judged on the recorded pilot_signals / charging_rates matrices and the final batteries.  "
        "non-trivial = a simulation in which an EV charged under an edge pilot, or some returned charge call with pilot > 0 in which a bound is "
        "active (rate within 1e-6 of the pilot or of 0, power within 1e-6 of the maximum, charge within 1e-6 of capacity) "
        "or a two-stage battery in the crossing / rampdown regime or with the noise clamp active; distinct by case hash")

SL = 1e-9


# ------------------------------------------------------------------ shared engine (also used by C14)

def err_of(e: BaseException) -> str:
    if isinstance(e, ZeroDivisionError):
        return "ZeroDivisionError"
    return I.err_name(e)


def run_runs(spec: dict, ev: bool, runs: list, evse: dict = None) -> dict:
    """Every run starts from a freshly constructed battery; returns the observable state after
    every call of every run.  With `evse` (an EVSE kind of core.impl) the battery's EV is plugged into
    a freshly constructed EVSE of that class and every charge op is `evse.set_pilot(p, V, T)`."""
    from acnportal.acnsim.models.ev import EV
    out = {"ctor": None, "runs": []}
    ev = bool(ev or evse)
    for ops in runs:
        try:
            b = I.make_battery(spec)
        except Exception as ex:  # noqa
            return {"ctor": err_of(ex), "runs": []}
        e = EV(0, 1, 0.0, "S", "s", b) if ev else None
        s = None
        if evse:
            s = I.make_evse(evse, "S")
            s.plugin(e)
        steps = []
        with I.noise_source() as ns:
            for o in ops:
                before = I.batt_state(b)
                if ev:
                    before.update({"delivered": float(e.energy_delivered), "evrate": float(e.current_charging_rate)})
                if s is not None:
                    before["pilot"] = float(s.current_pilot)
                calls0 = ns.calls
                err = None
                rate = 0.0
                if o["op"] == "charge":
                    ns.value = float(I.num(o["nu"]))
                    try:
                        if s is not None:
                            # the rate is what the EV recorded (set_pilot returns nothing)
                            s.set_pilot(I.num(o["p"]), I.num(o["V"]), I.num(o["T"]))
                            rate = float(e.current_charging_rate)
                        else:
                            target = e if ev else b
                            rate = float(target.charge(I.num(o["p"]), I.num(o["V"]), I.num(o["T"])))
                    except Exception as ex:  # noqa
                        err = err_of(ex)
                else:
                    try:
                        b.reset(None if o.get("init") is None else I.num(o["init"]))
                    except Exception as ex:  # noqa
                        err = err_of(ex)
                st = I.batt_state(b)
                st.update({"err": err, "rate": rate, "before": before, "draws": ns.calls - calls0})
                if ev:
                    st["delivered"] = float(e.energy_delivered)
                    st["evrate"] = float(e.current_charging_rate)
                if s is not None:
                    st["pilot"] = float(s.current_pilot)
                    st["attached"] = s.ev is e
                steps.append(st)
        out["runs"].append(steps)
    return out


def op_wire(o: dict) -> dict:
    if o["op"] == "charge":
        return {"op": "charge", "p": f2b(I.num(o["p"])), "V": f2b(I.num(o["V"])), "T": f2b(I.num(o["T"])),
                "nu": f2b(I.num(o["nu"]))}
    return {"op": "reset", "init": None if o.get("init") is None else f2b(I.num(o["init"]))}


def wire(spec: dict, ev: bool, runs: list, evse: dict = None) -> dict:
    w = {"batt": I.batt_wire(spec), "ev": bool(ev or evse), "runs": [[op_wire(o) for o in ops] for ops in runs]}
    if evse:
        w["evse"] = I.kind_wire(evse)
    return w


def compare_runs(obs: dict, model: dict, runs: list) -> list:
    out = []
    if obs["ctor"] != model.get("ctor"):
        return [f"constructor: impl={obs['ctor']} model={model.get('ctor')}"]
    if obs["ctor"] is not None:
        return out
    if len(obs["runs"]) != len(model["runs"]):
        return [f"{len(obs['runs'])} runs vs {len(model['runs'])}"]
    for k, (ra, rm) in enumerate(zip(obs["runs"], model["runs"])):
        if len(ra) != len(rm):
            out.append(f"run {k}: {len(ra)} steps vs {len(rm)}")
            continue
        for i, (a, m) in enumerate(zip(ra, rm)):
            w = f"run {k} step {i} {runs[k][i]}"
            if a["err"] != m["err"]:
                out.append(f"{w}: err impl={a['err']} model={m['err']}")
                continue
            for key in ("rate", "charge", "power"):
                if not close(a[key], b2f(m[key])):
                    out.append(f"{w}: {key} impl={a[key]!r} model={b2f(m[key])!r}")
            if "delivered" in a:
                if not close(a["delivered"], b2f(m["delivered"])):
                    out.append(f"{w}: delivered impl={a['delivered']!r} model={b2f(m['delivered'])!r}")
                if not close(a["evrate"], b2f(m["evrate"])):
                    out.append(f"{w}: ev rate impl={a['evrate']!r} model={b2f(m['evrate'])!r}")
            if "pilot" in a:
                if "pilot" not in m or not close(a["pilot"], b2f(m["pilot"])):
                    out.append(f"{w}: EVSE current_pilot impl={a['pilot']!r} model={b2f(m['pilot']) if 'pilot' in m else None!r}")
    return out


def kind_of(spec: dict) -> str:
    if not spec.get("two"):
        return "ideal"
    return "step" if spec.get("calc") == "stepwise" else "cont"


def regime(spec: dict, charge: float, p: float, V: float, T: float) -> str:
    """Which branch of the code the call takes (computed from the documented quantities)."""
    k = kind_of(spec)
    cap = float(I.num(spec["cap"]))
    maxp = float(I.num(spec["maxp"]))
    if cap <= 0 or V <= 0 or T <= 0:
        return "rejected"
    s = charge / cap
    if k == "ideal" or (k == "step" and s < float(I.num(spec.get("ts", 0.8)))):
        pp = p * V / 1000
        rtf = (cap - charge) / (T / 60)
        m = min(pp, maxp, rtf)
        return k + ":" + ("pilot" if m == pp else "maxpower" if m == maxp else "full")
    ts = float(I.num(spec.get("ts", 0.8)))
    if k == "step":
        pp = p * V / 1000
        rtf = (cap - charge) / (T / 60)
        dec = (1 - s) / (1 - ts) * maxp
        m = min(pp, dec, rtf)
        return "step:hi:" + ("pilot" if m == pp else "declining" if m == dec else "full")
    if p == 0:
        return "cont:zero"
    if maxp <= 0 or p < 0:
        return "cont:other"
    pd = min(p * V / 1000 / cap / (60 / T), maxp / cap / (60 / T))
    md = maxp / cap / (60 / T)
    pts = ts + (pd - md) / md * (ts - 1)
    clamp = ":clamped" if p * V / 1000 > maxp else ""
    if s >= pts:
        return "cont:rampdown" + clamp
    return ("cont:linear" if (pts - s) / pd >= 1 else "cont:crossing") + clamp


# ------------------------------------------------------------------ generation

CAPS = [8, 24, 40, 60.5, 85, 100]
MAXP = [3.3, 6.6, 7, 11, 50]
TSS = [0, 0.5, 0.8, 0.8, 0.9, 0.999]
NOISE = [0, 0, 0.1, 0.5, 2, 10]
VS = [120, 208, 208, 240, 277.5]
TP = [0.5, 1, 5, 5, 15, 60, 7, 45, 90, 2.5, 25]  # incl. periods that do not divide 60 (and > 60)
EPS = [0.0, 1e-12, -1e-12, 1e-9, -1e-9, 1e-6, -1e-6, 1e-3, -1e-3]


def _gen_pilot(rng, spec, V, T, charge):
    maxcur = float(spec["maxp"]) * 1000 / V
    r = rng.random()
    if r < 0.30:
        return max(0.0, maxcur * (1 + rng.choice([0, 1e-9, -1e-9, 1e-3, -1e-3, 0.1, -0.1])) + rng.choice([0, 0, 1e-9, -1e-9]))
    if r < 0.55:
        return rng.choice([6, 8, 16, 24, 32, 48, 80])
    if r < 0.63:
        return 0
    if r < 0.68:
        return rng.choice([1e-6, 1e-9, 1e-3])
    if r < 0.76:
        # the pilot that exactly fills the battery in this period
        full = (float(spec["cap"]) - charge) / (T / 60) * 1000 / V
        return max(0.0, full * rng.choice([1, 1 + 1e-9, 1 - 1e-9, 0.5, 2]))
    return round(rng.uniform(0, 80), 4)


def _gen_nu(rng, spec, T):
    lvl = float(spec.get("noise", 0) or 0)
    r = rng.random()
    if lvl == 0:
        return 0.0 if r < 0.7 else rng.choice([5.0, -5.0, 1e6])
    if r < 0.5:
        return rng.gauss(0, lvl)
    if r < 0.7:
        return rng.choice([50.0, -50.0, 500.0, -500.0, 1e6, -1e6])  # >> the period's gain
    if r < 0.8:
        return 0.0
    if r < 0.9:
        return rng.choice([1e-9, -1e-9, 1e-3, -1e-3])
    return rng.uniform(-3 * lvl, 3 * lvl)


def _gen_batt(rng, kind=None, noise=None):
    kind = kind or rng.choice(["ideal", "cont", "cont", "cont", "step", "step"])
    cap = rng.choice(CAPS) if rng.random() < 0.8 else round(rng.uniform(1, 120), 3)
    maxp = rng.choice(MAXP) if rng.random() < 0.85 else round(rng.uniform(0.5, 60), 3)
    spec = {"two": kind != "ideal", "cap": cap, "maxp": maxp}
    if kind != "ideal":
        spec["ts"] = rng.choice(TSS)
        spec["noise"] = rng.choice(NOISE) if noise is None else noise
        spec["calc"] = "continuous" if kind == "cont" else "stepwise"
    return spec


def _init_for(rng, spec, first):
    """initial charge: SoC at 0, ts, pts±eps, the linear/crossing boundary, 1-eps, 1, random."""
    cap = float(spec["cap"])
    ts = float(spec.get("ts", 0.8))
    r = rng.random()
    if r < 0.10:
        s = 0.0
    elif r < 0.22:
        s = ts + rng.choice(EPS)
    elif r < 0.30:
        s = 1.0
    elif r < 0.38:
        s = 1.0 - rng.choice([1e-12, 1e-9, 1e-6, 1e-3])
    elif r < 0.60 and spec.get("two") and first is not None and float(spec["maxp"]) > 0:
        p, V, T = first
        md = float(spec["maxp"]) / cap / (60 / T)
        pd = min(p * V / 1000 / cap / (60 / T), md)
        pts = ts + (pd - md) / md * (ts - 1)
        s = (pts if rng.random() < 0.5 else pts - pd) + rng.choice(EPS)
    elif r < 0.63:
        s = -rng.uniform(0, 0.2)  # the constructor accepts a negative initial charge
    else:
        s = rng.random()
    s = min(s, 1.0)
    return min(s * cap, cap)


def _gen_case(rng):
    spec = _gen_batt(rng)
    r = rng.random()
    n = rng.randint(1, 6) if r < 0.6 else rng.randint(7, 20) if r < 0.9 else rng.randint(21, 50)
    V0 = rng.choice(VS)
    T0 = rng.choice(TP)
    p0 = float(_gen_pilot(rng, spec, V0, T0, 0.5 * float(spec["cap"])))
    spec["init"] = _init_for(rng, spec, (p0, V0, T0))
    ops = []
    charge = float(spec["init"])
    for i in range(n):
        r = rng.random()
        if r < 0.08:
            c = rng.random()
            cap = float(spec["cap"])
            init = None if c < 0.4 else cap if c < 0.5 else cap + rng.choice([1e-9, 1.0]) if c < 0.65 else round(rng.uniform(0, cap), 4)
            ops.append({"op": "reset", "init": init})
            continue
        V = V0 if rng.random() < 0.7 else rng.choice(VS)
        T = T0 if rng.random() < 0.7 else rng.choice(TP)
        p = p0 if i == 0 else _gen_pilot(rng, spec, V, T, charge)
        m = rng.random()
        if m < 0.03:
            V = rng.choice([0, -208, -1e-9])
        elif m < 0.06:
            T = rng.choice([0, -5, -1e-9])
        elif m < 0.08:
            p = -rng.choice([1e-9, 1, 16])
        ops.append({"op": "charge", "p": p, "V": V, "T": T, "nu": _gen_nu(rng, spec, T)})
        charge = min(float(spec["cap"]), charge + 0.3)
    return {"batt": spec, "ev": rng.random() < 0.3, "ops": ops}


def _gen_malformed(rng):
    c = _gen_case(rng)
    spec = c["batt"]
    r = rng.random()
    if r < 0.3:
        spec["init"] = float(spec["cap"]) + rng.choice([1e-9, 1, 100])
    elif r < 0.5 and spec.get("two"):
        spec["ts"] = rng.choice([1, 1.5, -0.1, -1e-9])
    elif r < 0.7:
        spec["cap"] = 0
        spec["init"] = rng.choice([0, -1])
    else:
        spec["maxp"] = 0
    return c


def _gen_exact(rng):
    """dyadic stream: double arithmetic is exact, bounds are checked with zero slack.  Ideal and
    stepwise calculations only (no exp), noise draws dyadic."""
    kind = rng.choice(["ideal", "step", "step"])
    cap = 64
    spec = {"two": kind != "ideal", "cap": cap, "maxp": rng.choice([4, 8, 2.5, 16, 64])}
    if kind != "ideal":
        spec.update({"ts": rng.choice([0.5, 0.75, 0, 0.875]), "noise": rng.choice([0, 0, 1, 0.5]), "calc": "stepwise"})
    spec["init"] = rng.choice([0, 16, 32, 48, 56, 60, 63, 63.5, 64, 32.25, 47.75])
    ops = []
    for _ in range(rng.randint(1, 6)):
        V = rng.choice([125, 250, 500, 1000])
        T = rng.choice([60, 30, 15, 120, 7.5])
        p = rng.choice([0, 8, 16, 32, 64, 128, 4, 2])
        nu = rng.choice([0, 0.5, -0.5, 1, -1, 2, -2, 64, -64, 0.25, -0.25]) if spec.get("noise") else 0
        ops.append({"op": "charge", "p": p, "V": V, "T": T, "nu": nu})
    return {"batt": spec, "ev": False, "ops": ops, "exact": True}


# ------------------------------------------------------------------ the EVSE path (set_pilot -> EV.charge -> battery)

ATOL = 1e-3   # acceptance tolerance of the EVSE classes (evse.py `_valid_rate`)
# offsets from a boundary of the allowable set: inside the tolerance, at its razor edge, just outside
EDGE_IN = [1e-9, 1e-6, 1e-4, 5e-4, 9.99e-4]
EDGE_OUT = [1.001e-3, 2e-3, 0.5]
# positive "numerical zeros" as left behind by an optimisation-based scheduler (all accepted as 0)
# (not below 1e-9 A: see ASSUMPTIONS — at pilot/maximum < ~1e-13 the two-stage continuous law's
# `pilot_transition_soc` rounds to 1.0 and a FULL battery divides by zero)
RESIDUE = [1e-9, 1e-8, 3e-7, 1e-6, 1e-5, 1e-4, 3e-4, 5e-4, 9.99e-4]
AV_RATES = [0] + list(range(6, 33))
CC_RATES = [0, 8, 16, 24, 32]


def _gen_kind(rng, sim=False):
    """every EVSE class: continuous (min 0 / min > 0 / unbounded), deadband, finite rates."""
    r = rng.random()
    if r < 0.25:
        mn = 0 if (sim or rng.random() < 0.7) else rng.choice([6, 8, 0.5])
        return {"t": "cont", "min": mn, "max": rng.choice([32, 32, 16, 80, 32.5] + ([] if sim else ["inf"]))}
    if r < 0.65:
        return {"t": "deadband", "db": rng.choice([6, 6, 6, 8, 5.5]), "max": rng.choice([32, 32, 16, 48])}
    c = rng.random()
    if c < 0.35:
        return {"t": "finite", "rates": list(CC_RATES)}
    if c < 0.65:
        return {"t": "finite", "rates": list(AV_RATES)}
    return {"t": "finite", "rates": rng.sample([6, 8, 10, 12.5, 16, 20, 24, 30, 32], rng.randint(1, 5))}


def _lower_edges(kind):
    """boundaries below which the EVSE refuses (apart from 0): accepted down to edge - ATOL."""
    t = kind["t"]
    if t == "cont":
        return [float(I.num(kind["min"]))]
    if t == "deadband":
        return [float(I.num(kind["db"]))]
    return [float(I.num(r)) for r in kind["rates"] if float(I.num(r)) > 0]


def _upper_edges(kind):
    t = kind["t"]
    if t == "finite":
        return [float(I.num(r)) for r in kind["rates"] if float(I.num(r)) > 0]
    mx = float(I.num(kind["max"]))
    return [] if math.isinf(mx) else [mx]


def _edge_pilot(rng, kind, p_invalid=0.08):
    """A pilot for an EVSE of this class, seeking the edges of what `_valid_rate` accepts: positive
    values within tolerance of 0, values within tolerance BELOW a lower edge (deadband end, minimum
    rate, a listed rate) and ABOVE an upper edge, the razor edge itself, and (with probability
    p_invalid) values just outside."""
    t = kind["t"]
    lo, hi = _lower_edges(kind), _upper_edges(kind)
    zero_ok = t != "cont" or float(I.num(kind["min"])) <= 0
    r = rng.random()
    if r < p_invalid:
        c = rng.random()
        if c < 0.4 and lo and max(lo) > 0:
            return rng.choice(lo) - rng.choice(EDGE_OUT + [ATOL])
        if c < 0.7 and hi:
            return rng.choice(hi) + rng.choice(EDGE_OUT + [ATOL])
        if c < 0.85:
            return -rng.choice([1e-9, 5e-4, 1.001e-3, 1.0])      # a negative pilot (within / beyond tolerance of 0)
        return rng.choice(EDGE_OUT[:2]) if t != "cont" else -0.5
    r = rng.random()
    if r < 0.22 and zero_ok:
        return rng.choice(RESIDUE)                               # accepted as "0": must not charge more than that
    if r < 0.30 and zero_ok:
        return 0.0
    if r < 0.50 and lo and max(lo) > 0:
        return rng.choice([x for x in lo if x > 0]) - rng.choice(EDGE_IN)   # accepted just below an edge
    if r < 0.62 and hi:
        return rng.choice(hi) + rng.choice(EDGE_IN + [0.0])      # accepted just above the maximum / a rate
    if r < 0.72 and (lo or hi):
        return rng.choice(lo + hi) + rng.choice([0.0, 0.0, 1e-4, 5e-4])
    # interior
    if t == "finite":
        return float(rng.choice([x for x in lo] or [0.0]))
    a = max(lo + [0.0])
    b = hi[0] if hi else 80.0
    return round(rng.uniform(a, b), rng.choice([0, 1, 4]))


def _gen_evse_case(rng):
    """one EVSE of any class with an EV plugged in; the history is a sequence of set_pilot calls."""
    kind = _gen_kind(rng)
    spec = _gen_batt(rng)
    r = rng.random()
    n = rng.randint(1, 6) if r < 0.6 else rng.randint(7, 20)
    V0 = rng.choice(VS)
    T0 = rng.choice(TP)
    p0 = float(_edge_pilot(rng, kind))
    cap = float(spec["cap"])
    # mostly a battery that can still take far more than the pilot (the bound rate <= pilot is then
    # the binding one); sometimes the boundary-seeking initial state of the battery stream
    spec["init"] = round(rng.uniform(0, 0.7) * cap, 3) if rng.random() < 0.7 else _init_for(rng, spec, (max(p0, 0.0), V0, T0))
    ops = []
    for i in range(n):
        c = rng.random()
        if c < 0.05:
            ops.append({"op": "reset", "init": None if rng.random() < 0.6 else round(rng.uniform(0, cap), 4)})
            continue
        V = V0 if rng.random() < 0.8 else rng.choice(VS)
        T = T0 if rng.random() < 0.8 else rng.choice(TP)
        p = p0 if i == 0 else (_edge_pilot(rng, kind) if rng.random() < 0.85 else _gen_pilot(rng, spec, V, T, float(spec["init"])))
        m = rng.random()
        if m < 0.02:
            V = rng.choice([0, -208])
        elif m < 0.04:
            T = rng.choice([0, -5])
        ops.append({"op": "charge", "p": float(p), "V": V, "T": T, "nu": _gen_nu(rng, spec, T)})
    return {"batt": spec, "ev": True, "evse": kind, "ops": ops}


def _gen_sim_case(rng):
    """a whole simulation (core.simcase format): 1-4 stations covering the EVSE classes (always at
    least one DeadbandEVSE or FiniteRatesEVSE), sessions back to back on every station, and a scripted
    scheduler that is asked in every period and answers with edge-seeking pilots for every station."""
    ns = rng.randint(1, 4)
    kinds = [_gen_kind(rng, sim=True) for _ in range(ns)]
    if all(k["t"] == "cont" for k in kinds):
        kinds[rng.randrange(ns)] = {"t": "deadband", "db": rng.choice([6, 8]), "max": 32}
    stations = [{"id": f"S{i}", "kind": k, "V": rng.choice(VS), "phase": 0} for i, k in enumerate(kinds)]
    sessions = []
    last = 0
    for st in stations:
        t = rng.randint(0, 2)
        for _ in range(rng.randint(1, 2)):
            dur = rng.randint(2, 9)
            spec = _gen_batt(rng)
            cap = float(spec["cap"])
            spec["init"] = round(rng.uniform(0, 0.8) * cap, 3) if rng.random() < 0.8 else rng.choice([cap, cap * (1 - 1e-6), 0.95 * cap])
            sessions.append({"session": f"x{len(sessions)}", "station": st["id"], "arrival": t, "departure": t + dur,
                             "requested": round(rng.uniform(1, 30), 3), "batt": spec, "est": None})
            t += dur + rng.choice([0, 0, 1, 2])
        last = max(last, t)
    rng.shuffle(sessions)
    multi = rng.random() < 0.25     # multi-period schedules, asked only every `max_recompute` periods
    step = rng.choice([2, 3]) if multi else 1
    script = []
    for t in range(0, last + 2):
        sub = [st for st in stations if rng.random() < 0.9] or stations[:1]
        script.append({"t": t, "sched": [[st["id"], [float(_edge_pilot(rng, st["kind"], p_invalid=0.004)) for _ in range(step)]] for st in sub]})
    return {"sim": {"stations": stations, "constraint": None, "sessions": sessions, "recomputes": [],
                    "period": rng.choice([1, 5, 5, 15, 0.5]), "max_recompute": step,
                    "noise": [round(rng.gauss(0, 1.0), 4) for _ in range(rng.randint(1, 5))] + [rng.choice([0.0, 50.0, -50.0])],
                    "sched": {"type": "scripted", "default": [], "script": script}}}


def corpus():
    f1 = {"two": True, "cap": 50, "init": 40, "maxp": 7, "noise": 2.0, "ts": 0.8, "calc": "continuous"}
    return [
        # large noise at a small pilot (F1), both signs of the draw, and a draw of 0
        {"batt": f1, "ev": False, "ops": [{"op": "charge", "p": 1.0, "V": 208, "T": 5, "nu": nu} for nu in (3.528104691935328, -3.5, 0.0, 1e6)]},
        {"batt": f1, "ev": True, "ops": [{"op": "charge", "p": 1.0, "V": 208, "T": 5, "nu": 3.528104691935328}, {"op": "charge", "p": 32, "V": 208, "T": 5, "nu": -0.1}]},
        # SoC exactly at the transition, pilot just below / at / above the maximum (7 kW at 208 V = 33.65 A)
        {"batt": {"two": True, "cap": 100, "init": 80, "maxp": 7, "noise": 0, "ts": 0.8, "calc": "continuous"}, "ev": False,
         "ops": [{"op": "charge", "p": p, "V": 208, "T": 5, "nu": 0} for p in (33.653846153846153, 33.65384615, 33.65384616, 32, 80)]},
        {"batt": {"two": True, "cap": 100, "init": 80, "maxp": 7, "noise": 0.5, "ts": 0.8, "calc": "stepwise"}, "ev": False,
         "ops": [{"op": "charge", "p": 32, "V": 208, "T": 5, "nu": nu} for nu in (0.3, -0.3, 50, -50)]},
        # a full battery, an ideal battery filled exactly, reset above capacity
        {"batt": {"two": False, "cap": 40, "init": 39, "maxp": 7}, "ev": True,
         "ops": [{"op": "charge", "p": 32, "V": 208, "T": 60, "nu": 0}, {"op": "charge", "p": 32, "V": 208, "T": 5, "nu": 0},
                 {"op": "reset", "init": 41}, {"op": "reset", "init": None}, {"op": "charge", "p": 32, "V": 0, "T": 5, "nu": 0}]},
        # zero maximum power: the continuous calculation divides by it
        {"batt": {"two": True, "cap": 40, "init": 10, "maxp": 0, "noise": 0, "ts": 0.8, "calc": "continuous"}, "ev": False,
         "ops": [{"op": "charge", "p": 16, "V": 208, "T": 5, "nu": 0}, {"op": "charge", "p": 0, "V": 208, "T": 5, "nu": 0}]},
        # through every EVSE class, pilots the class accepts only within its tolerance (and some it refuses)
        {"batt": {"two": False, "cap": 60, "init": 10, "maxp": 6.656}, "ev": True, "evse": {"t": "deadband", "db": 6, "max": 32},
         "ops": [{"op": "charge", "p": p, "V": 208, "T": 5, "nu": 0} for p in (32, 1e-4, 0, 3e-7, 5.9995, 3, 6, 9.99e-4, 32.0005, 32.002)]},
        {"batt": {"two": True, "cap": 60, "init": 10, "maxp": 6.656, "noise": 0, "ts": 0.8, "calc": "continuous"}, "ev": True,
         "evse": {"t": "finite", "rates": [8, 16, 24, 32]},
         "ops": [{"op": "charge", "p": p, "V": 208, "T": 5, "nu": 0} for p in (8, 7.9995, 8.0005, 1e-4, 0, 12, 31.9991)]},
        {"batt": {"two": True, "cap": 40, "init": 4, "maxp": 7, "noise": 0.5, "ts": 0.8, "calc": "stepwise"}, "ev": True,
         "evse": {"t": "cont", "min": 6, "max": 32},
         "ops": [{"op": "charge", "p": p, "V": 240, "T": 15, "nu": 0.2} for p in (5.9995, 6, 0, 32.0009, 16)]},
        # a simulation on one station of each class; the scheduler's pilots carry solver residue
        {"sim": {"stations": [{"id": "CONT", "kind": {"t": "cont", "min": 0, "max": 32}, "V": 208, "phase": 0},
                              {"id": "DEAD", "kind": {"t": "deadband", "db": 6, "max": 32}, "V": 208, "phase": 0},
                              {"id": "FINI", "kind": {"t": "finite", "rates": [8, 16, 24, 32]}, "V": 208, "phase": 0}],
                 "constraint": None, "recomputes": [], "period": 5, "max_recompute": 1, "noise": [0.0],
                 "sessions": [{"session": "a", "station": "CONT", "arrival": 0, "departure": 12, "requested": 40, "est": None,
                               "batt": {"two": False, "cap": 60, "init": 10, "maxp": 6.656}},
                              {"session": "b", "station": "DEAD", "arrival": 0, "departure": 12, "requested": 40, "est": None,
                               "batt": {"two": False, "cap": 60, "init": 10, "maxp": 6.656}},
                              {"session": "c", "station": "FINI", "arrival": 0, "departure": 12, "requested": 40, "est": None,
                               "batt": {"two": True, "cap": 60, "init": 10, "maxp": 6.656, "noise": 0, "ts": 0.8, "calc": "continuous"}}],
                 "sched": {"type": "scripted", "default": [], "script": [
                     {"t": t, "sched": [["CONT", [c]], ["DEAD", [d]], ["FINI", [f]]]} for t, (c, d, f) in enumerate(zip(
                         [32, 16, 7.5, 1e-4, 0, 3.2, 32, 0, 12, 5e-4, 20, 0],
                         [32, 16, 6, 1e-4, 0, 8, 32, 3e-7, 12, 5.9995, 6, 0],
                         [32, 16, 8, 1e-4, 0, 8, 24, 3e-7, 16, 7.9995, 8, 0]))]}}},
    ]


def generate(rng, n, tier):
    out = []
    for i in range(n):
        k = i % 20
        if k == 7:
            out.append(_gen_malformed(rng))
        elif k in (3, 11, 17):
            out.append(_gen_exact(rng))
        elif k in (1, 5, 9, 13, 15, 19):
            out.append(_gen_evse_case(rng))
        elif k == 10:
            out.append(_gen_sim_case(rng))
        else:
            out.append(_gen_case(rng))
    return out


# ------------------------------------------------------------------ implementation / model

def run_sim_case(sc):
    """the real Simulator on a core.simcase scenario; what C03 looks at: the recorded pilot and
    rate matrices and every EV's battery."""
    from core import simcase as S
    o = S.run_impl(sc)
    sts = [st["id"] for st in sc["stations"]]
    evs = []
    for spec, e in zip(sc["sessions"], o["evs"]):
        evs.append({"session": e["session"], "station": spec["station"], "arrival": spec["arrival"], "departure": spec["departure"],
                    "charge": e["charge"], "power": e["power"], "delivered": e["delivered"]})
    return {"sim": True, "err": o["err"], "iter": o["iter"], "stations": sts, "pilots": o["pilots"], "rates": o["rates"], "evs": evs}


def run_impl(case):
    if "sim" in case:
        return run_sim_case(case["sim"])
    o = run_runs(case["batt"], case.get("ev", False), [case["ops"]], case.get("evse"))
    return {"ctor": o["ctor"], "steps": o["runs"][0] if o["runs"] else []}


def model_request(case):
    if "sim" in case:
        return None     # whole simulations: implementation-only oracle here (the Sim model's correspondence is C01/C02's)
    return wire(case["batt"], case.get("ev", False), [case["ops"]], case.get("evse"))


def compare(case, obs, model):
    if "sim" in case:
        return []
    return compare_runs({"ctor": obs["ctor"], "runs": [obs["steps"]] if obs["ctor"] is None else []}, model, [case["ops"]])


# ------------------------------------------------------------------ property oracle

def _le(x, y, sl):
    return x <= y + sl + sl * max(abs(x), abs(y))


def expected_ctor(spec):
    cap, init = float(I.num(spec["cap"])), float(I.num(spec["init"]))
    if init > cap:
        return "ValueError"
    if spec.get("two"):
        ts = float(I.num(spec.get("ts", 0.8)))
        if ts < 0 or ts >= 1:
            return "ValueError"
    return None


def _sim_oracle(sc, obs):
    """the property's last sentence: in every simulation 0 <= recorded rate <= recorded pilot at every
    station and period (0 where the pilot is 0); every EV's battery ends within [initial charge, capacity]."""
    fails = []
    sts, pil, rates = obs["stations"], obs["pilots"], obs["rates"]
    tainted = set()      # a station that was sent a negative pilot (outside the property's quantifier)
    for i, st in enumerate(sts):
        width = len(rates[i])
        for t in range(width):
            p = pil[i][t] if t < len(pil[i]) else 0.0
            r = rates[i][t]
            if p < 0:
                tainted.add(st)
            if st in tainted:
                continue
            w = f"simulation, station {st} ({sc['stations'][i]['kind']}) period {t}: charging_rates = {r!r}, pilot_signals = {p!r}"
            if not _le(0.0, r, SL):
                fails.append({"kind": "sim_negative_rate", "detail": w})
                break
            if not _le(r, p, SL):
                fails.append({"kind": "sim_rate_exceeds_pilot", "detail": w})
                break
            if p == 0 and r != 0:
                fails.append({"kind": "sim_zero_pilot_charges", "detail": w})
                break
    for spec, e in zip(sc["sessions"], obs["evs"]):
        if spec["station"] in tainted:
            continue
        b = spec["batt"]
        cap, init = float(I.num(b["cap"])), float(I.num(b["init"]))
        if cap <= 0 or init > cap or float(I.num(b["maxp"])) < 0:
            continue
        w = f"simulation, session {spec['session']} at {spec['station']} battery {b}: final charge {e['charge']!r}, delivered {e['delivered']!r}"
        if not _le(e["charge"], cap, SL) or not _le(init, e["charge"], SL) or not _le(0.0, e["delivered"], SL):
            fails.append({"kind": "sim_charge_bounds", "detail": w})
    return fails


def oracle(case, obs):
    if "sim" in case:
        return _sim_oracle(case["sim"], obs)
    fails = []
    spec = case["batt"]
    evse = case.get("evse")
    sl = 0.0 if case.get("exact") else SL
    kind = kind_of(spec)
    cap = float(I.num(spec["cap"]))
    maxp = float(I.num(spec["maxp"]))
    noise = float(I.num(spec.get("noise", 0) or 0))
    if obs["ctor"] != expected_ctor(spec):
        return [{"kind": "constructor_guard", "detail": f"constructor: {obs['ctor']} expected {expected_ctor(spec)} for {spec}"}]
    if obs["ctor"] is not None:
        return fails
    reachable = cap > 0 and maxp >= 0
    tainted = False  # a negative pilot (outside the property's quantifier) may leave charge > capacity
    for i, (o, st) in enumerate(zip(case["ops"], obs["steps"])):
        b = st["before"]
        w = f"op {i} {o} on {kind} battery {spec} (charge before {b['charge']!r})"
        if st["err"] is not None and (st["charge"] != b["charge"] or st["power"] != b["power"]):
            fails.append({"kind": "failed_call_changed_state", "detail": f"{w}: {st['err']} but state {b} -> charge {st['charge']} power {st['power']}"})
        elif st["err"] is not None and "delivered" in b and (st["delivered"] != b["delivered"] or st["evrate"] != b["evrate"]):
            fails.append({"kind": "failed_call_changed_state", "detail": f"{w}: {st['err']} but the EV went {b} -> delivered {st['delivered']} rate {st['evrate']}"})
        if evse and not st.get("attached", True):
            fails.append({"kind": "evse_lost_ev", "detail": f"{w}: the EV is no longer attached to the EVSE"})
        if evse and o["op"] == "charge" and st["err"] == "InvalidRate":
            # refused by the EVSE (whether rightly is C13's question): nothing may have happened
            if st["pilot"] != b["pilot"]:
                fails.append({"kind": "failed_call_changed_state", "detail": f"{w}: InvalidRate but current_pilot {b['pilot']!r} -> {st['pilot']!r}"})
            continue
        if o["op"] == "reset":
            init = o.get("init")
            if init is not None and float(I.num(init)) > cap:
                if st["err"] != "ValueError":
                    fails.append({"kind": "reset_guard", "detail": f"{w}: err={st['err']}"})
            elif st["err"] is not None or st["charge"] != (float(I.num(spec["init"])) if init is None else float(I.num(init))) or st["power"] != 0:
                fails.append({"kind": "reset_wrong", "detail": f"{w}: err={st['err']} charge={st['charge']} power={st['power']}"})
            else:
                tainted = False
            continue
        p, V, T = float(I.num(o["p"])), float(I.num(o["V"])), float(I.num(o["T"]))
        if V <= 0 or T <= 0:
            if st["err"] != "ValueError":
                fails.append({"kind": "guard_not_enforced", "detail": f"{w}: V<=0 or T<=0 but err={st['err']} rate={st['rate']}"})
            continue
        if st["err"] == "ZeroDivisionError" and (cap == 0 or (kind == "cont" and p != 0 and (maxp == 0 or T < 1e-300))):
            continue  # Python float division by a zero capacity / maximum power
        if st["err"] is not None:
            fails.append({"kind": "unexpected_exception", "detail": f"{w}: {st['err']}"})
            continue
        if p < 0:
            tainted = True
        if not reachable or tainted:
            continue
        rate, ch, pw = st["rate"], st["charge"], st["power"]
        f1 = kind == "cont" and noise > 0
        if not _le(0.0, rate, sl):
            fails.append({"kind": "noise_negative_rate" if f1 else "negative_rate", "detail": f"{w}: rate {rate!r} < 0 (draw {o['nu']})"})
        if not _le(rate, p, sl):
            fails.append({"kind": "rate_exceeds_pilot", "detail": f"{w}: rate {rate!r} > pilot {p!r}"
                          + (f" (through {evse}: the EV was charged at more than the commanded pilot)" if evse else "")})
        if evse and (st["pilot"] != p or not _le(rate, st["pilot"], sl)):
            fails.append({"kind": "rate_exceeds_recorded_pilot", "detail": f"{w}: through {evse}: commanded pilot {p!r}, "
                          f"EVSE current_pilot {st['pilot']!r}, rate recorded by the EV {rate!r}"})
        if not _le(0.0, pw, sl):
            fails.append({"kind": "noise_negative_rate" if f1 else "negative_power", "detail": f"{w}: power {pw!r} < 0"})
        if not _le(pw, maxp, sl):
            fails.append({"kind": "power_exceeds_max", "detail": f"{w}: power {pw!r} > max power {maxp!r}"})
        if not _le(b["charge"], ch, sl):
            fails.append({"kind": "noise_negative_rate" if f1 else "charge_decreased", "detail": f"{w}: charge {b['charge']!r} -> {ch!r}"})
        if not _le(ch, cap, sl):
            fails.append({"kind": "charge_exceeds_capacity", "detail": f"{w}: charge {ch!r} > capacity {cap!r}"})
        # (doubles: a filled ideal/stepwise battery may sit one ulp ABOVE capacity, its rate_to_full is then
        # about -1e-15 and wins the min(); hence the slack outside the exact stream, as for the other bounds)
        if p == 0 and (abs(rate) > sl or abs(ch - b["charge"]) > sl * max(1.0, abs(ch)) or abs(pw) > sl):
            fails.append({"kind": "zero_pilot_charges", "detail": f"{w}: rate {rate!r} charge {b['charge']!r}->{ch!r} power {pw!r}"})
        # the continuous calculation returns before the draw for a zero pilot and (fix F18) for a full battery
        full = cap != 0 and b["charge"] / cap >= 1
        want_draws = 1 if (noise > 0 and kind in ("cont", "step") and not (kind == "cont" and (p == 0 or full))) else 0
        if st["draws"] != want_draws:
            fails.append({"kind": "noise_draws", "detail": f"{w}: {st['draws']} draws, expected {want_draws}"})
        if "delivered" in st:
            prev = obs["steps"][i - 1]["delivered"] if i > 0 else 0.0
            if st["evrate"] != rate or not close(st["delivered"], prev + rate * V / 1000 * (T / 60)) or not _le(prev, st["delivered"], sl):
                fails.append({"kind": "ev_ledger", "detail": f"{w}: ev rate {st['evrate']!r} vs {rate!r}; delivered {prev!r} -> {st['delivered']!r}"})
    return fails


def _active(spec, o, st):
    if o["op"] != "charge" or st["err"] is not None:
        return False
    p = float(I.num(o["p"]))
    if p <= 0:
        return False
    cap, maxp = float(I.num(spec["cap"])), float(I.num(spec["maxp"]))
    if abs(st["rate"] - p) < 1e-6 or abs(st["rate"]) < 1e-6 or abs(st["power"] - maxp) < 1e-6 or abs(st["charge"] - cap) < 1e-6:
        return True
    rg = regime(spec, st["before"]["charge"], p, float(I.num(o["V"])), float(I.num(o["T"])))
    return rg.startswith(("cont:crossing", "cont:rampdown", "step:hi"))


def _edge_class(kind, p):
    """which edge of the EVSE's acceptance set a pilot sits at (None: interior / far away)."""
    if p <= 0:
        return None
    if kind["t"] != "cont" or float(I.num(kind["min"])) <= 0:
        if p <= ATOL * (1 + 1e-9):
            return "near_zero"
    for x in _lower_edges(kind):
        if x > 0 and 0 < x - p <= ATOL * (1 + 1e-9):
            return "below_edge"
    for x in _upper_edges(kind):
        if 0 < p - x <= ATOL * (1 + 1e-9):
            return "above_edge"
    return None


def _sim_edges(sc, obs):
    """(station kind, edge class) of every period in which an EV was charged under an edge pilot."""
    out = []
    for i, st in enumerate(sc["stations"]):
        mine = [e for e in sc["sessions"] if e["station"] == st["id"]]
        for t in range(len(obs["rates"][i])):
            p = obs["pilots"][i][t] if t < len(obs["pilots"][i]) else 0.0
            ec = _edge_class(st["kind"], p)
            if ec and any(e["arrival"] <= t < e["departure"] for e in mine):
                out.append((st["kind"]["t"], ec, obs["rates"][i][t] > 0))
    return out


def nontrivial(case, obs):
    if "sim" in case:
        return any(ch for _, _, ch in _sim_edges(case["sim"], obs))
    if obs["ctor"] is not None:
        return False
    return any(_active(case["batt"], o, st) for o, st in zip(case["ops"], obs["steps"]))


def features(case, obs):
    if "sim" in case:
        sc = case["sim"]
        out = ["sim", "sim:err:" + str(obs["err"])] + sorted({"sim:evse:" + st["kind"]["t"] for st in sc["stations"]})
        for kt, ec, ch in _sim_edges(sc, obs):
            out.append(f"sim:{kt}:{ec}:" + ("charging" if ch else "rate0"))
        return out
    spec = case["batt"]
    k = kind_of(spec)
    evse = case.get("evse")
    out = ["kind:" + k, ("evse:" + evse["t"]) if evse else "ev" if case.get("ev") else "plain", "len:" + ("1" if len(case["ops"]) == 1 else "2-6" if len(case["ops"]) <= 6 else "7-20" if len(case["ops"]) <= 20 else "21-50")]
    if case.get("exact"):
        out.append("exact_dyadic")
    if obs["ctor"] is not None:
        return out + ["ctor:" + obs["ctor"]]
    noise = float(I.num(spec.get("noise", 0) or 0))
    out.append("noise:" + ("off" if noise == 0 else "on"))
    for o, st in zip(case["ops"], obs["steps"]):
        if o["op"] == "reset":
            out.append("reset:" + ("err" if st["err"] else "ok"))
            continue
        if st["err"]:
            out.append("err:" + st["err"])
            continue
        p, V, T = float(I.num(o["p"])), float(I.num(o["V"])), float(I.num(o["T"]))
        out.append("regime:" + regime(spec, st["before"]["charge"], p, V, T))
        if evse:
            ec = _edge_class(evse, p)
            if ec:
                out.append(f"evse:{evse['t']}:accepted_{ec}:" + ("charging" if st["rate"] > 0 else "rate0"))
        if noise > 0 and p > 0 and k != "ideal":
            if st["rate"] == 0:
                out.append("noise:clamped_to_zero")
            elif abs(float(I.num(o["nu"]))) > 20 * noise:
                out.append("noise:huge_draw")
        if p > 0 and abs(st["rate"] - p) <= 1e-9 * max(1, p):
            out.append("bound:rate=pilot")
        if st["charge"] >= float(I.num(spec["cap"])) * (1 - 1e-12):
            out.append("bound:full")
    return out


# ------------------------------------------------------------------ search / shrink

def search(rng, n):
    return generate(rng, n, "search")


def _shrink_sim(case, kind):
    """one station (with its sessions and its rows of the schedules) if the failure survives."""
    sc = case["sim"]
    for st in sc["stations"]:
        c = copy.deepcopy(sc)
        c["stations"] = [x for x in c["stations"] if x["id"] == st["id"]]
        c["sessions"] = [x for x in c["sessions"] if x["station"] == st["id"]]
        for e in c["sched"].get("script", []):
            if "sched" in e:
                e["sched"] = [r for r in e["sched"] if r[0] == st["id"]]
        try:
            if any(f["kind"] == kind for f in _sim_oracle(c, run_sim_case(c))):
                return {"sim": c}
        except Exception:
            pass
    return case


def shrink(case, kind):
    """shortest history: the failing call alone, started from the state it was made in."""
    if "sim" in case:
        return _shrink_sim(case, kind)
    obs = run_impl(case)
    bad = [f for f in oracle(case, obs) if f["kind"] == kind]
    if not bad or obs["ctor"] is not None:
        return case
    for i in range(len(case["ops"])):
        c1 = copy.deepcopy(case)
        c1["ops"] = case["ops"][: i + 1]
        if any(f["kind"] == kind for f in oracle(c1, run_impl(c1))):
            c2 = copy.deepcopy(c1)
            c2["batt"]["init"] = obs["steps"][i]["before"]["charge"]
            c2["ops"] = [case["ops"][i]]
            try:
                if any(f["kind"] == kind for f in oracle(c2, run_impl(c2))):
                    return c2
            except Exception:
                pass
            return c1
    return case
