"""C07 — sorting-based algorithms only emit safe schedules.

Also hosts the generator / implementation runner / model request shared with C08.
"""
from __future__ import annotations

import copy
import math
import random
import warnings
from datetime import datetime

import numpy as np

from core.common import f2b, b2f, close
from core import impl as I

ID = "C07"
LEAN_MODULES = ["AcnProofs.C07", "AcnProofs.C07Est"]
TIE_MODULES = ["AcnProofs.Lemmas.CodeTieSorted"]
DRIVER = "drv_C07"
REQUIRED_THEOREMS = [
    "Acn.C07.bisect_lower_end", "Acn.C07.walkDown_tested", "Acn.C07.greedy_invariant",
    "Acn.C07.greedy_feasible", "Acn.C07.rr_invariant", "Acn.C07.rr_feasible",
    "Acn.C07.pilot_accepted_greedy", "Acn.C07.pilot_accepted_rr", "Acn.C07.le_remaining_greedy",
    "Acn.C07.le_remaining_rr", "Acn.C07.le_estimator_bound", "Acn.C07.zero_for_inactive_greedy",
    "Acn.C07.zero_for_inactive_rr", "Acn.C07.preprocess_lbOk", "Acn.C07.schedule_feasible",
    "Acn.C07.sim_no_invalid_rate_partial", "Acn.C07.accepts_of_pilot_accepted",
    "Acn.C07.ev_charge_le_requested", "Acn.C07.sim_delivered_le_requested_partial",
    "Acn.C07.schedule_length", "Acn.C07.sim_period_composition",
    "Acn.C07.sim_consequences_of_schedSafe", "Acn.C07.sortedSched_no_invalidRate", "Acn.C07.zero_sched_safe",
    "Acn.C07.sim_consequences",
    "Acn.C07.runSt_eq_run", "Acn.C07.runSt_noest_eq_run", "Acn.C07.rampdown_prev_total",
    "Acn.C07.sim_consequences_of_schedSafe_st", "Acn.C07.rampdown_call_safe",
    "Acn.C07.sim_consequences_rampdown",
    # arbitrary upper-bound estimators (AcnProofs/C07Est.lean)
    "Acn.C07.rampdown_is_an_estimator", "Acn.C07.estimate_after_pilot_limit",
    "Acn.C07.le_estimator_bound_any_estimator", "Acn.C07.schedule_feasible_any_estimator",
    "Acn.C07.pilot_le_evse_max_any_estimator", "Acn.C07.pilot_le_estimator_bound_any_estimator",
    "Acn.C07.estimator_bounds_above_evse_max_inert", "Acn.C07.sim_consequences_any_estimator",
]
BUDGET = {"quick": 900, "thorough": 6000, "search": 1200}
TRUSTED = [
    "numpy (@, linalg.norm, arange, minimum, clip), Python sorted (stable), dict order, deque, copy",
    "Interface / Simulator / ChargingNetwork as the source of SessionInfo and InfrastructureInfo "
    "(what they hand out is an input of the model; their own properties are C05/C06/C12/C13)",
    "IEEE-754: feasibility decisions are compared exactly; generated limits keep level sums and "
    "bisection midpoints away from limit+tolerance (an exact integer-limit stream binds exactly AT limits)",
]
ASSUMPTIONS = [
    "theorems are over an arbitrary linear ordered field and an ARBITRARY feasibility predicate; doubles partial",
    "distinct stations per session list (an Interface hands out one session per EVSE)",
    "sessions enter with min_rates <= 0 (Interface.active_sessions gives 0); with caller-set positive "
    "min_rates off the EVSE's level grid the discrete fallback 0 is not covered (hypothesis LbOk)",
    "the network uses the default tolerances (the algorithm-side check cannot see others)",
    "an upper-bound estimator is ANY function of its own state, the interface's view and the sessions it is handed "
    "(any dict session_id -> bound, no condition on the bounds); it does not mutate the SessionInfo objects it is "
    "handed and returns finite-or-inf numbers (a NaN bound is outside an ordered field)",
]
RULE = ("a case is an infrastructure (2-9 stations on three line pairs, delta-wye mixed-sign rows + pod rows, "
        "continuous/ClipperCreek/AeroVironment/min>0 EVSEs, unequal voltages), an algorithm configuration "
        "(greedy|round robin|uncontrolled x 5 sorts x uninterrupted x estimator x inc in {0.1,0.5,1}) and "
        "either 1-3 direct schedule() calls on a real Interface/Simulator/ChargingNetwork state (partially served, "
        "nearly finished, session ids != station ids, shuffled) or a whole simulation with every run() captured; "
        "limits are drawn relative to the full-load aggregate so that ~60 % of calls have a binding constraint; "
        "the thorough tier first runs an EXHAUSTIVE small scope (2-3 stations x every kind combination x limit grid x "
        "every occupancy x small/large demand x both algorithms x sorts x uninterrupted, ~30 k calls); "
        "whole simulations are ALSO run through the composition model and compared (pilots, rates, energies, "
        "iteration, error; with estimator also the estimator's final dict): without estimator Sim.run with the modelled "
        "algorithm as scheduler (AcnModel/SimSorted.lean), WITH the rampdown estimator the stateful loop "
        "SimSortedRd.runSt threading the modelled SimpleRampdown from call to call (AcnModel/SimSortedRd.lean; "
        "thresholds/increment drawn from {0.5,1,2}x{0.5,1,2}x{0.5,1,3}); "
        "ARBITRARY ESTIMATORS: a further fifth of the budget (own sub-generator, the stream above is unchanged) runs the "
        "algorithms with a TABLE estimator (an UpperBoundEstimatorBase subclass returning, per period, a dict chosen by "
        "the generator): per session bounds above the EVSE maximum (max+0.5 .. 1e6, inf), equal to it, zero, negative, "
        "below the uninterrupted-charging minimum pilot, between / on the levels of a finite-rate EVSE, or no key at "
        "all; plus keys of sessions that are not active, of no session, and STATION ids; greedy and round robin, "
        "continuous and finite-rate EVSEs, uninterrupted on/off, 1-3 direct calls or whole simulations; in 40 % the "
        "limits are multiplied by 3-10 and in half of the sessions the remaining demand is far above the EVSE maximum "
        "(headroom and demand above the maximum at once); the thorough tier adds an EXHAUSTIVE small scope (2 stations x "
        "kind combinations x loose/binding limit x every PAIR of answers from {no key, -2, 0, 3, 8, 10.5, 16, 17, 40, inf} "
        "x both algorithms x uninterrupted, 3200 calls); the dict the estimator returned is an INPUT of the model "
        "call (Sorted.scheduleCallEst), what it was handed is compared with the model's estInput, and whole simulations "
        "run the table estimator inside the model's loop (SimSortedEst.sortedSchedEst); "
        "constraint-free networks (4 %) and DeadbandEVSE stations (outside the quantifier: modelled, not judged); "
        "non-trivial = some call in which a constraint binds (some session got less than its own upper bound) "
        "or an estimator bound / remaining-demand bound / minimum pilot is the active bound")

LINE_PHASE = {"AB": 30.0, "BC": -90.0, "CA": 150.0}
SORTS = ["fcfs", "lcfs", "edf", "llf", "lrpt"]
CC = [0, 8, 16, 24, 32]
AV = [0] + list(range(6, 33))


# ------------------------------------------------------------------ generation

def _gen_evse(rng, exact):
    r = rng.random()
    if r < 0.35:
        return {"t": "cont", "min": 0, "max": 32}
    if r < 0.45:
        return {"t": "cont", "min": 0, "max": rng.choice([16, 48, 80])}
    # EVSE(min_rate > 0) rejects pilot 0 (DESIGN §8): outside C07's "continuous-from-zero" quantifier
    if r < 0.49 and not exact:
        # DeadbandEVSE: advertised as continuous [6, max] with min_pilot 0; the sorted algorithms treat it as
        # continuous from 0 and may emit a pilot inside the dead band.  OUTSIDE the property's quantifier:
        # generated so that the model correspondence covers it, the oracle does not judge its pilots.
        return {"t": "deadband", "db": 6, "max": 32}
    if r < 0.76:
        return {"t": "finite", "rates": CC}
    if r < 0.95:
        return {"t": "finite", "rates": AV}
    # (fractional levels too: a minimum pilot that is not a whole number of amperes — finding F20)
    return {"t": "finite", "rates": rng.choice([[0, 6, 12, 18, 24, 30], [0, 10, 20], [0, 16],
                                                [0, 12.5, 16, 24, 32], [0, 7.5, 15, 22.5, 30], [0, 6.5, 13]])}


def _max_of(evse):
    return float(max(evse["rates"])) if evse["t"] == "finite" else float(I.num(evse["max"]))


def _has_deadband(case):
    return any(st["evse"]["t"] == "deadband" for st in case["stations"])


def _gen_stations(rng, exact, nmin=2, nmax=9):
    n = rng.randint(nmin, nmax)
    out = []
    labels = list(range(n))
    rng.shuffle(labels)          # registration order is NOT the alphabetical order of the ids
    for j in range(n):
        line = rng.choice(["AB", "BC", "CA"])
        out.append({"id": f"st-{labels[j]}", "line": line, "evse": _gen_evse(rng, exact),
                    "volt": 256.0 if exact else rng.choice([208, 208, 208, 240, 277, 120, 200.5]),
                    "phase": 0.0 if exact else LINE_PHASE[line]})
    return out


def _gen_constraints(rng, stations, load, exact):
    """load: {station: expected full-load amps}. Limits relative to the full-load aggregate."""
    if rng.random() < 0.04:
        return []          # constraint-free network (runs since finding F3 was repaired)
    by_line = {l: [s["id"] for s in stations if s["line"] == l] for l in LINE_PHASE}
    ids = [s["id"] for s in stations]
    phase = {s["id"]: math.radians(s["phase"]) for s in stations}
    rows = []
    # secondary line currents of a delta-connected load: I_a = I_AB - I_CA, ...
    for plus, minus in (("AB", "CA"), ("BC", "AB"), ("CA", "BC")):
        if rng.random() < 0.7 and (by_line[plus] or by_line[minus]):
            coef = {s: 1.0 for s in by_line[plus]}
            coef.update({s: -1.0 for s in by_line[minus]})
            rows.append(coef)
    # primary side of the delta-wye transformer (scaled, three line pairs, mixed signs)
    if rng.random() < 0.5:
        k = rng.choice([0.25, 0.5, 1.0]) if exact else rng.choice([0.25, 1 / 4.0, 0.5, 1 / 3.0])
        a, b, c = rng.sample(["AB", "BC", "CA"], 3)
        coef = {s: k for s in by_line[a]}
        coef.update({s: k for s in by_line[b]})
        coef.update({s: -2 * k for s in by_line[c]})
        if coef:
            rows.append(coef)
    # pod rows
    for _ in range(rng.randint(0, 2)):
        sub = rng.sample(ids, rng.randint(1, len(ids)))
        rows.append({s: 1.0 for s in sub})
    if not rows or rng.random() < 0.15:
        rows.append({s: 1.0 for s in ids})
    cons = []
    for k, coef in enumerate(rows):
        z = sum(coef[s] * load.get(s, 0.0) * complex(math.cos(phase[s]), math.sin(phase[s])) for s in coef)
        full = abs(z)
        r = rng.random()
        if full < 1e-6:
            lim = rng.uniform(5, 60)
        elif r < 0.55:
            lim = full * rng.uniform(0.25, 0.95)
        elif r < 0.75:
            lim = full * rng.uniform(0.95, 1.1)
        else:
            lim = full * rng.uniform(1.1, 2.5)
        lim = max(lim, 0.5)
        if exact:
            lim = float(max(1, round(lim)))
            if rng.random() < 0.3:
                lim += rng.choice([0.5, 0.25, 0.0])
        cons.append({"name": f"c{k}", "coef": coef, "limit": lim})
    # limits of VERY different magnitude in one network: a nominal feeder / service rating of hundreds of kA next to the small
    # limits that bind (relative tolerance × limit is then far larger for the big row than the absolute tolerance of the small
    # ones: tolerances are per constraint).  Private sub-generator: the shared main stream is not shifted.
    sub = random.Random(repr(("huge", len(stations), [round(c["limit"], 6) for c in cons])))
    if cons and not exact and sub.random() < 0.2:
        cons.append({"name": f"c{len(cons)}", "coef": {s: 1.0 for s in ids}, "limit": float(sub.choice([2e5, 1e6, 2.5e7]))})
    return cons


def _gen_ev_direct(rng, st, k, t, period, exact, evil_ids):
    arrival = rng.choice([t, t, max(0, t - 1), rng.randint(max(0, t - 20), t)])
    departure = t + rng.choice([1, 1, 2, rng.randint(1, 40), rng.randint(1, 40)])
    r = rng.random()
    est = departure if r < 0.5 else max(arrival + 1, departure + rng.randint(-8, 8))
    requested = round(rng.uniform(2, 40), 3)
    mx = _max_of(st["evse"])
    amp_to_kwh = st["volt"] / 1000.0 * period / 60.0
    r = rng.random()
    if exact:
        remaining = requested if r < 0.7 else rng.choice([4, 8, 10, 16, 20.5]) * amp_to_kwh
    elif r < 0.3:       # nearly finished: remaining demand below one period at full rate
        remaining = rng.uniform(0.02, 1.2) * mx * amp_to_kwh
    elif r < 0.36:      # around the removal threshold min_pilot * V * period
        remaining = rng.choice([6, 8, 0.01, 1]) * amp_to_kwh * rng.choice([0.5, 0.999, 1.001, 1.5])
    elif r < 0.40:
        remaining = rng.choice([0.0009, 0.0011, 0.002])
    else:
        remaining = requested * rng.uniform(0.05, 1.0)
    remaining = min(remaining, requested)
    delivered = requested - remaining
    pilot = rng.choice([0, 8, 16, mx, round(rng.uniform(0, mx), 2)])
    rr = rng.random()
    rate = pilot if rr < 0.4 else (max(0.0, pilot - rng.choice([0.5, 0.99, 1.0, 1.01, 2, 7.3])) if rr < 0.8
                                   else round(rng.uniform(0, pilot), 3))
    sid = f"sess-{k}"
    if evil_ids and rng.random() < 0.5:
        sid = rng.choice(evil_ids)       # a session named like ANOTHER station
    ev = {"session": sid, "station": st["id"], "arrival": arrival, "departure": departure, "est": est,
          "requested": requested, "delivered": delivered, "prev_pilot": pilot, "rate": rate, "max_override": None}
    if rng.random() < 0.15:
        ev["max_override"] = rng.choice([4.0, 10, 20.5, 7])
    return ev


def _session_load(st, ev, period):
    mx = _max_of(st["evse"])
    rap = (ev["requested"] - ev["delivered"]) * 1000 / st["volt"] * 60 / period
    ub = min(mx, max(rap, 0.0))
    if ev.get("max_override") is not None:
        ub = min(ub, ev["max_override"])
    return ub


def _gen_algo(rng, exact):
    r = rng.random()
    if r < 0.04:
        return {"algo": "uncontrolled", "sort": "fcfs", "uninterrupted": False, "estimate": False, "inc": 0.1}
    return {"algo": "greedy" if r < 0.52 else "rr", "sort": rng.choice(SORTS),
            "uninterrupted": rng.random() < 0.45, "estimate": rng.random() < 0.45,
            "inc": rng.choice([0.5, 1]) if exact else rng.choice([0.1, 0.5, 1])}


def _gen_direct(rng, exact=False):
    stations = _gen_stations(rng, exact)
    period = rng.choice([5, 5, 1, 15]) if not exact else rng.choice([4, 8])
    cfg = _gen_algo(rng, exact)
    t = rng.choice([0, 1, 2, 3, rng.randint(2, 30), rng.randint(2, 30)])
    ids = [s["id"] for s in stations]
    evil = rng.random() < 0.12
    evs = []
    used = set()
    for j, st in enumerate(stations):
        if rng.random() < 0.78:
            others = [i for i in ids if i != st["id"] and i not in used] if evil else []
            ev = _gen_ev_direct(rng, st, j, t, period, exact, others)
            if ev["session"] in used:
                ev["session"] = f"sess-{j}"
            used.add(ev["session"])
            evs.append(ev)
    # ties in the sort keys: copy arrival / est from another session now and then
    for ev in evs:
        if evs and rng.random() < 0.25:
            o = rng.choice(evs)
            ev["arrival"] = o["arrival"]
            if o["est"] > ev["arrival"]:
                ev["est"] = o["est"]
    load = {}
    for ev in evs:
        st = next(s for s in stations if s["id"] == ev["station"])
        load[ev["station"]] = _session_load(st, ev, period)
    cons = _gen_constraints(rng, stations, load, exact)
    calls = []
    ncalls = 1 if not cfg["estimate"] else rng.choice([1, 2, 3])
    cur = evs
    for c in range(ncalls):
        order = list(range(len(cur)))
        rng.shuffle(order)
        call = {"time": t + c, "evs": copy.deepcopy(cur), "order": order}
        if c > 0 and cons and rng.random() < 0.4:
            call["update"] = _gen_updates(rng, cons, t + c)       # between two schedule() calls
        calls.append(call)
        nxt = []
        for ev in cur:
            if ev["departure"] <= t + c + 1 or rng.random() < 0.1:
                continue
            ev = dict(ev)
            st = next(s for s in stations if s["id"] == ev["station"])
            amp_to_kwh = st["volt"] / 1000.0 * period / 60.0
            rem = ev["requested"] - ev["delivered"]
            pilot = rng.choice([8, 16, _max_of(st["evse"]), round(rng.uniform(0, 32), 2)])
            rate = rng.choice([pilot, pilot, max(0, pilot - 1.5), pilot * 0.3])
            got = min(rem * 0.9, rate * amp_to_kwh)
            ev["delivered"] = ev["delivered"] + got
            ev["prev_pilot"] = pilot
            ev["rate"] = rate
            nxt.append(ev)
        cur = nxt
    case = {"mode": "direct", "period": period, "stations": stations, "constraints": cons, "calls": calls,
            "ramp": {"up": rng.choice([1, 1, 0.5, 2]), "down": rng.choice([1, 1, 0.5, 2]), "inc": rng.choice([1, 1, 0.5, 3])}}
    case.update(cfg)
    return case


def _gen_sim(rng):
    stations = _gen_stations(rng, False, 2, 6)
    period = rng.choice([5, 5, 1, 15])
    cfg = _gen_algo(rng, False)
    horizon = rng.randint(6, 16)
    evs = []
    k = 0
    for st in stations:
        t = rng.randint(0, 4)
        while t < horizon and rng.random() < 0.85:
            dur = rng.randint(1, 9)
            dep = t + dur
            mx = _max_of(st["evse"])
            amp_to_kwh = st["volt"] / 1000.0 * period / 60.0
            requested = round(max(0.05, rng.uniform(0.2, 1.3) * mx * amp_to_kwh * dur), 4)
            two = rng.random() < 0.5
            cap = round(requested * rng.uniform(1.0, 2.0) + 1, 3)
            batt = {"two": two, "cap": cap, "init": round(cap - requested * rng.uniform(1.0, 1.3), 3) if two else 0,
                    "maxp": rng.choice([3.3, 6.6, 7, 50])}
            batt["init"] = max(0.0, batt["init"])
            if two:
                batt.update({"noise": 0, "ts": rng.choice([0.8, 0.6, 0.9]), "calc": rng.choice(["continuous", "stepwise"])})
            est = dep if rng.random() < 0.6 else max(t + 1, dep + rng.randint(-3, 3))
            evs.append({"session": f"sess-{k}", "station": st["id"], "arrival": t, "departure": dep, "est": est,
                        "requested": requested, "batt": batt})
            k += 1
            t = dep + rng.choice([0, 0, 1, 2])
    # full load estimate: every station at its maximum
    load = {st["id"]: _max_of(st["evse"]) * rng.choice([1, 1, 0.6]) for st in stations if any(e["station"] == st["id"] for e in evs)}
    cons = _gen_constraints(rng, stations, load, False)
    case = {"mode": "sim", "period": period, "stations": stations, "constraints": cons, "evs": evs,
            "ramp": {"up": 1, "down": 1, "inc": 1}}
    case.update(cfg)
    if cfg["estimate"]:
        # estimator thresholds / increment: a deterministic function of what the rng already produced
        # (a private sub-generator, so the main stream — shared with C08 — is not shifted)
        sub = random.Random(repr((horizon, period, [(e["arrival"], e["departure"], e["requested"]) for e in evs])))
        case["ramp"] = {"up": sub.choice([1, 1, 0.5, 2]), "down": sub.choice([1, 1, 0.5, 2]),
                        "inc": sub.choice([1, 1, 0.5, 3])}
    # the algorithm object's max_recompute set to k > 1 BEFORE the Simulator is built (legal, documented): the scheduler is
    # then consulted at events and every k periods only, its one-period answer is in force for one period (private
    # sub-generator: the shared main stream is not shifted)
    sub2 = random.Random(repr(("max_recompute", horizon, period, len(evs), [e["requested"] for e in evs])))
    if sub2.random() < 0.3:
        case["max_recompute"] = sub2.choice([2, 3, 3, 5, 8])
    r = rng.random()
    if r < 0.35 and cons and cfg["algo"] != "uncontrolled":
        # the network is changed UNDER THE SAME CONSTRAINT NAME mid-simulation (post_charging_update hook)
        case["updates"] = _gen_updates(rng, cons, rng.randint(1, max(1, horizon - 2)))
    elif r < 0.6 and cfg["algo"] != "uncontrolled":
        # crash in period k, to_json -> from_json, resume under the same algorithm
        case["roundtrip_at"] = rng.randint(1, max(1, horizon - 2))
    return case


def _gen_updates(rng, cons, t):
    ups = []
    for c in rng.sample(cons, rng.randint(1, min(2, len(cons)))):
        coef = dict(c["coef"])
        if rng.random() < 0.4 and len(coef) > 1:
            k = rng.choice(sorted(coef))
            coef[k] = coef[k] * rng.choice([2.0, -1.0, 0.5])
        ups.append({"t": t, "name": c["name"], "coef": coef,
                    "limit": c["limit"] * rng.choice([0.3, 0.5, 0.8, 0.8, 1.5])})
    return ups


def corpus():
    # F6 regression: one session whose session_id differs from its station id, SimpleRampdown, a
    # two-stage battery that ramps down: the pilots must follow the estimator's bound.
    f6 = {"mode": "sim", "period": 5, "algo": "greedy", "sort": "fcfs", "uninterrupted": False, "estimate": True,
          "inc": 0.1, "ramp": {"up": 1, "down": 1, "inc": 1},
          "stations": [{"id": "A", "line": "AB", "evse": {"t": "cont", "min": 0, "max": 32}, "volt": 208, "phase": 0}],
          "constraints": [{"name": "c0", "coef": {"A": 1.0}, "limit": 100}],
          "evs": [{"session": "sess-A", "station": "A", "arrival": 0, "departure": 30, "est": 30, "requested": 12,
                   "batt": {"two": True, "cap": 40, "init": 30, "maxp": 6.656, "noise": 0, "ts": 0.8, "calc": "continuous"}}]}
    # two sessions named like each other's station
    swap = {"mode": "direct", "period": 5, "algo": "greedy", "sort": "fcfs", "uninterrupted": False, "estimate": True,
            "inc": 0.1, "ramp": {"up": 1, "down": 1, "inc": 1},
            "stations": [{"id": "st-0", "line": "AB", "evse": {"t": "cont", "min": 0, "max": 32}, "volt": 208, "phase": 30},
                         {"id": "st-1", "line": "CA", "evse": {"t": "cont", "min": 0, "max": 32}, "volt": 208, "phase": 150}],
            "constraints": [{"name": "c0", "coef": {"st-0": 1.0, "st-1": -1.0}, "limit": 200}],
            "calls": [{"time": 5, "order": [1, 0], "evs": [
                {"session": "st-1", "station": "st-0", "arrival": 1, "departure": 20, "est": 20, "requested": 20, "delivered": 2,
                 "prev_pilot": 32, "rate": 9.5, "max_override": None},
                {"session": "st-0", "station": "st-1", "arrival": 2, "departure": 25, "est": 22, "requested": 20, "delivered": 3,
                 "prev_pilot": 32, "rate": 31.5, "max_override": None}]}]}
    # mixed-sign row where lowering one station makes the aggregate grow
    mixed = {"mode": "direct", "period": 5, "algo": "rr", "sort": "lrpt", "uninterrupted": True, "estimate": False,
             "inc": 1, "ramp": {"up": 1, "down": 1, "inc": 1},
             "stations": [{"id": "st-0", "line": "AB", "evse": {"t": "finite", "rates": CC}, "volt": 208, "phase": 30},
                          {"id": "st-1", "line": "CA", "evse": {"t": "finite", "rates": AV}, "volt": 208, "phase": 150},
                          {"id": "st-2", "line": "BC", "evse": {"t": "cont", "min": 0, "max": 32}, "volt": 240, "phase": -90}],
             "constraints": [{"name": "c0", "coef": {"st-0": 1.0, "st-1": -1.0}, "limit": 33.3},
                             {"name": "c1", "coef": {"st-0": 0.25, "st-1": 0.25, "st-2": -0.5}, "limit": 9.1}],
             "calls": [{"time": 3, "order": [2, 0, 1], "evs": [
                 {"session": "sess-0", "station": "st-0", "arrival": 1, "departure": 9, "est": 9, "requested": 10, "delivered": 1,
                  "prev_pilot": 0, "rate": 0, "max_override": None},
                 {"session": "sess-1", "station": "st-1", "arrival": 1, "departure": 7, "est": 12, "requested": 10, "delivered": 9.7,
                  "prev_pilot": 0, "rate": 0, "max_override": None},
                 {"session": "sess-2", "station": "st-2", "arrival": 3, "departure": 5, "est": 5, "requested": 30, "delivered": 0,
                  "prev_pilot": 0, "rate": 0, "max_override": None}]}]}
    # f6 also lives in harness/corpus/C07/f6_session_id_ne_station_id.json (regression entry)
    return [f6, swap, mixed] + _custom_corpus()


def _custom_corpus():
    """arbitrary estimators on a network with headroom (limit 1000 A) and remaining demand far above every EVSE
    maximum: a continuous EVSE, a ClipperCreek-like and an AeroVironment-like finite-rate EVSE; sessions named like
    ANOTHER station; three calls so that every column of the table is used"""
    stations = [{"id": "st-0", "line": "AB", "evse": {"t": "cont", "min": 0, "max": 32}, "volt": 208, "phase": 30},
                {"id": "st-1", "line": "BC", "evse": {"t": "finite", "rates": CC}, "volt": 208, "phase": -90},
                {"id": "st-2", "line": "CA", "evse": {"t": "finite", "rates": AV}, "volt": 240, "phase": 150},
                {"id": "st-3", "line": "AB", "evse": {"t": "cont", "min": 0, "max": 48}, "volt": 208, "phase": 30}]
    cons = [{"name": "c0", "coef": {"st-0": 1.0, "st-1": 1.0, "st-2": 1.0, "st-3": 1.0}, "limit": 1000.0},
            {"name": "c1", "coef": {"st-0": 1.0, "st-2": -1.0}, "limit": 500.0}]

    def evs(t):
        return [{"session": "st-1", "station": "st-0", "arrival": 1, "departure": 40, "est": 40, "requested": 40.0,
                 "delivered": 1.0, "prev_pilot": 32, "rate": 30.0, "max_override": None},
                {"session": "st-0", "station": "st-1", "arrival": 2, "departure": 35, "est": 30, "requested": 40.0,
                 "delivered": 2.0, "prev_pilot": 16, "rate": 16.0, "max_override": None},
                {"session": "sess-2", "station": "st-2", "arrival": 3, "departure": 50, "est": 50, "requested": 64.0,
                 "delivered": 0.5, "prev_pilot": 0, "rate": 0.0, "max_override": None}]

    table = {"st-1": [100, 5, None],          # the session ON st-0: above the maximum / low / no key
             "st-0": [None, 10, 1e6],         # the session ON st-1: no key / between levels / above
             "sess-2": ["inf", 3, 0],         # on st-2 (levels 0, 6..32): inf / below the minimum pilot / zero
             "st-3": [0], "st-2": [0],        # STATION ids that are not session ids here (st-3 is empty)
             "idle-9": [1], "": [7]}
    out = []
    for algo in ("greedy", "rr"):
        for un in (False, True):
            out.append({"mode": "direct", "period": 5, "algo": algo, "sort": "fcfs", "uninterrupted": un,
                        "estimate": True, "inc": 0.5, "ramp": {"up": 1, "down": 1, "inc": 1},
                        "stations": stations, "constraints": cons, "est_spec": {"table": table},
                        "calls": [{"time": 6 + c, "evs": evs(6 + c), "order": [2, 0, 1]} for c in range(3)]})
    # a whole simulation: bounds above the maximum with ideal batteries that take whatever is offered
    sim = {"mode": "sim", "period": 5, "algo": "greedy", "sort": "edf", "uninterrupted": False, "estimate": True,
           "inc": 1, "ramp": {"up": 1, "down": 1, "inc": 1}, "stations": stations[:2],
           "constraints": [{"name": "c0", "coef": {"st-0": 1.0, "st-1": 1.0}, "limit": 400.0}],
           "est_spec": {"table": {"a": [80, 12.5, None, 0], "b": [None, 40, 20], "st-0": [0], "zz": [3]}},
           "evs": [{"session": "a", "station": "st-0", "arrival": 0, "departure": 9, "est": 9, "requested": 30.0,
                    "batt": {"two": False, "cap": 60, "init": 0, "maxp": 50}},
                   {"session": "b", "station": "st-1", "arrival": 1, "departure": 8, "est": 10, "requested": 30.0,
                    "batt": {"two": False, "cap": 60, "init": 0, "maxp": 50}}]}
    out.append(sim)
    out.append(dict(sim, algo="rr", uninterrupted=True))
    return out


def enumerate_small():
    """Exhaustive small scope (thorough tier): 2-3 stations of every kind combination, a mixed-sign row and
    a pod row with every limit pair of a small grid, every non-empty occupancy, small/large remaining demand
    per session, both algorithms, sort orders, uninterrupted on/off; one direct call each."""
    import itertools
    kinds = [{"t": "cont", "min": 0, "max": 16}, {"t": "finite", "rates": [0, 8, 16]}]
    lines = ["AB", "CA", "BC"]
    out = []
    t, period, volt = 5, 5, 208
    for n in (2, 3):
        lim_grid = [6, 12.5, 20, 40] if n == 2 else [6, 20]
        sorts = SORTS if n == 2 else ["fcfs", "lrpt"]
        for ks in itertools.product(range(2), repeat=n):
            stations = [{"id": f"st-{j}", "line": lines[j], "evse": kinds[ks[j]], "volt": volt,
                         "phase": LINE_PHASE[lines[j]]} for j in range(n)]
            mixed = {"st-0": 1.0, "st-1": -1.0}
            if n == 3:
                mixed["st-2"] = 0.5
            pod = {f"st-{j}": 1.0 for j in range(n)}
            for l1, l2 in itertools.product(lim_grid, repeat=2):
                cons = [{"name": "c0", "coef": mixed, "limit": l1}, {"name": "c1", "coef": pod, "limit": l2}]
                for occ in itertools.product((0, 1), repeat=n):
                    present = [j for j in range(n) if occ[j]]
                    if not present:
                        continue
                    for dem in itertools.product((0, 1), repeat=len(present)):
                        evs = []
                        for q, j in enumerate(present):
                            remaining = 8.0 if dem[q] else 0.12
                            evs.append({"session": f"sess-{j}", "station": f"st-{j}", "arrival": (2 * j + 1) % 4,
                                        "departure": t + 2 + j, "est": t + 1 + (2 * j + q) % 3, "requested": 10.0,
                                        "delivered": 10.0 - remaining, "prev_pilot": 0, "rate": 0, "max_override": None})
                        order = list(range(len(evs)))[::-1]
                        for algo, sort, un in itertools.product(("greedy", "rr"), sorts, (False, True)):
                            out.append({"mode": "direct", "period": period, "stations": stations, "constraints": cons,
                                        "calls": [{"time": t, "evs": evs, "order": order}],
                                        "ramp": {"up": 1, "down": 1, "inc": 1}, "algo": algo, "sort": sort,
                                        "uninterrupted": un, "estimate": False, "inc": 1, "enumerated": True})
    return out


# ---- arbitrary upper-bound estimators (UpperBoundEstimatorBase subclasses returning any dict) ----------------
# A case with "est_spec" runs the algorithm with a TABLE estimator instead of SimpleRampdown: in period t it
# returns {sid: seq[t % len(seq)] for sid, seq in table if that entry is not None}.  Only C07.generate emits
# such cases (C08 shares _gen_direct/_gen_sim, which never set "est_spec").

def _min_pilot_of(evse):
    if evse["t"] == "finite":
        pos = [float(r) for r in evse["rates"] if float(r) > 0]
        return min(pos) if pos else 0.0
    return 0.0


def _gen_bound(rng, st):
    """one estimator answer for a session on station st; None = key absent in that period"""
    evse = st["evse"]
    mx = _max_of(evse)
    mn = _min_pilot_of(evse)
    r = rng.random()
    if r < 0.20:      # ABOVE the EVSE's maximum pilot
        return rng.choice([mx + 0.5, mx + 8, mx + 68, 100, 1e6, "inf", mx * 1.25, int(mx) + 1])
    if r < 0.26:      # exactly the maximum
        return rng.choice([mx, int(mx)]) if mx == int(mx) else mx
    if r < 0.40:      # missing
        return None
    if r < 0.50:      # zero (int and float), negative
        return rng.choice([0, 0.0, 0, -1, -7.5, -0.0])
    if r < 0.62 and mn > 0:      # below the uninterrupted-charging minimum pilot
        return rng.choice([mn * 0.5, mn - 1, mn - 0.001, 1, 3, mn * rng.uniform(0.05, 0.99)])
    if r < 0.80 and evse["t"] == "finite":      # between two levels / exactly a level
        lv = sorted(float(x) for x in evse["rates"])
        k = rng.randrange(len(lv))
        return rng.choice([lv[k], lv[k] + 0.5, lv[k] - 0.25, lv[k] + rng.uniform(0.01, 0.99),
                           (lv[k] + lv[min(k + 1, len(lv) - 1)]) / 2])
    return rng.choice([round(rng.uniform(0, mx), 2), round(rng.uniform(0, mx), 1), rng.randint(1, int(mx)),
                       mx - 0.5, 0.05, 16, 7.3])


def _gen_est_spec(rng, stations, sessions):
    """sessions: [(session id, station id)].  Keys: the sessions (some left out altogether), sessions that are
    not active, ids that are no sessions at all, STATION ids (an estimator keyed by the wrong thing must be ignored)."""
    by_id = {s["id"]: s for s in stations}
    table = {}
    for sid, stid in sessions:
        if rng.random() < 0.12:
            continue                       # no key for this session in any period
        n = rng.choice([1, 1, 2, 3])
        table[sid] = [_gen_bound(rng, by_id[stid]) for _ in range(n)]
    used = {sid for sid, _ in sessions}
    if rng.random() < 0.5:
        table[rng.choice(["ghost-1", "", "sess-999"])] = [rng.choice([0, 1, 5, 100])]
    if rng.random() < 0.5:
        for st in rng.sample(stations, rng.randint(1, min(2, len(stations)))):
            if st["id"] not in used:       # a key that is a STATION id (and not also a session id)
                table[st["id"]] = [rng.choice([0, 0, 1, 3, 6.5])]
    return {"table": table}


def _loosen(rng, case):
    """network headroom well above every EVSE maximum"""
    k = rng.choice([3, 4, 10])
    for c in case["constraints"]:
        c["limit"] = c["limit"] * k
    for call in case.get("calls", []):
        for u in call.get("update", []):
            u["limit"] = u["limit"] * k
    for u in case.get("updates", []):
        u["limit"] = u["limit"] * k


def _gen_custom_direct(rng, exact=False):
    case = None
    for _ in range(8):
        case = _gen_direct(rng, exact)
        if case["estimate"] and case["algo"] != "uncontrolled":
            break
    if case["algo"] == "uncontrolled":
        case["algo"] = rng.choice(["greedy", "rr"])
    case["estimate"] = True
    sessions = []
    for call in case["calls"]:
        for ev in call["evs"]:
            if (ev["session"], ev["station"]) not in sessions:
                sessions.append((ev["session"], ev["station"]))
            if rng.random() < 0.5:
                # remaining demand far above the EVSE's maximum for one period
                ev["requested"] = float(rng.choice([20, 40, 64]))
                ev["delivered"] = float(rng.choice([0, 1, 2.5]))
    # sessions on stations that are empty in this case: keys of sessions that are not active
    for st in case["stations"]:
        if all(stid != st["id"] for _sid, stid in sessions) and rng.random() < 0.5:
            sessions.append((f"idle-{st['id']}", st["id"]))
    case["est_spec"] = _gen_est_spec(rng, case["stations"], sessions)
    if rng.random() < 0.4:
        _loosen(rng, case)
    return case


def _gen_custom_sim(rng):
    case = _gen_sim(rng)
    if case["algo"] == "uncontrolled":
        case["algo"] = rng.choice(["greedy", "rr"])
        case.pop("updates", None)
    if case.get("updates") and rng.random() < 0.6:
        case.pop("updates")            # most of these simulations also run through the composition model
    case["estimate"] = True
    sessions = [(e["session"], e["station"]) for e in case["evs"]]
    case["est_spec"] = _gen_est_spec(rng, case["stations"], sessions)
    if rng.random() < 0.4:
        _loosen(rng, case)
    return case


def enumerate_small_est():
    """Exhaustive small scope for ARBITRARY estimators (thorough tier): two stations of every kind combination
    (continuous [0,16] / finite {0,8,16}), a pod row that is loose (100 A) or binds (20 A), EVERY pair of answers from
    a grid that holds each class (no key, negative, zero, below the minimum pilot, between levels, a level, the EVSE
    maximum, above it, inf), both algorithms, uninterrupted on/off; remaining demand far above the EVSE maximum."""
    import itertools
    kinds = [{"t": "cont", "min": 0, "max": 16}, {"t": "finite", "rates": [0, 8, 16]}]
    grid = [None, -2, 0, 3, 8, 10.5, 16, 17, 40, "inf"]
    out = []
    t, period, volt = 4, 5, 208
    for ks in itertools.product(range(2), repeat=2):
        stations = [{"id": f"st-{j}", "line": ["AB", "CA"][j], "evse": kinds[ks[j]], "volt": volt,
                     "phase": LINE_PHASE[["AB", "CA"][j]]} for j in range(2)]
        for lim in (100.0, 20.0):
            cons = [{"name": "c0", "coef": {"st-0": 1.0, "st-1": 1.0}, "limit": lim}]
            evs = [{"session": f"sess-{j}", "station": f"st-{j}", "arrival": j, "departure": t + 5, "est": t + 5 - j,
                    "requested": 30.0, "delivered": 1.0, "prev_pilot": 0, "rate": 0, "max_override": None}
                   for j in range(2)]
            for b0, b1 in itertools.product(grid, repeat=2):
                table = {"sess-0": [b0], "sess-1": [b1], "st-1": [0], "ghost": [1]}
                for algo, un in itertools.product(("greedy", "rr"), (False, True)):
                    out.append({"mode": "direct", "period": period, "stations": stations, "constraints": cons,
                                "calls": [{"time": t, "evs": evs, "order": [1, 0]}],
                                "ramp": {"up": 1, "down": 1, "inc": 1}, "algo": algo, "sort": "fcfs",
                                "uninterrupted": un, "estimate": True, "inc": 1, "enumerated": True,
                                "est_spec": {"table": table}})
    return out


def _gen_custom(rng, n):
    out = []
    for i in range(n):
        r = i % 10
        if r == 9:
            out.append(_gen_custom_sim(rng))
        else:
            out.append(_gen_custom_direct(rng, exact=(r in (3, 7))))
    return out


def generate(rng, n, tier):
    out = []
    if tier == "thorough":
        out.extend(enumerate_small())
        out.extend(enumerate_small_est())
    for i in range(n):
        r = i % 10
        if r == 9:
            out.append(_gen_sim(rng))
        elif r in (4, 8):
            out.append(_gen_direct(rng, exact=True))
        else:
            out.append(_gen_direct(rng))
    # arbitrary estimators: a private generator seeded AFTER the stream above (which is therefore unchanged)
    out.extend(_gen_custom(random.Random(rng.getrandbits(64)), max(30, n // 5)))
    return out


# ------------------------------------------------------------------ implementation

def _imports():
    from acnportal.acnsim.network import ChargingNetwork, Current
    from acnportal.acnsim import Simulator, EventQueue, Interface
    from acnportal.acnsim.events import PluginEvent
    from acnportal.algorithms import sorted_algorithms as SA
    from acnportal.algorithms import UncontrolledCharging
    from acnportal.algorithms.upper_bound_estimator import SimpleRampdown
    return ChargingNetwork, Current, Simulator, EventQueue, Interface, PluginEvent, SA, UncontrolledCharging, SimpleRampdown


def apply_updates(net, ups):
    Current = _imports()[1]
    for u in ups:
        net.update_constraint(u["name"], Current(dict(u["coef"])), u["limit"])


def _network_class(case):
    ChargingNetwork = _imports()[0]
    ups = case.get("updates")
    if not ups:
        return ChargingNetwork

    class UpdNetwork(ChargingNetwork):
        """applies the scheduled `update_constraint` calls from the public post_charging_update hook"""
        _period = 0

        def post_charging_update(self):
            apply_updates(self, [u for u in ups if u["t"] == self._period])
            self._period += 1

    return UpdNetwork


def build_network(case):
    ChargingNetwork, Current = _imports()[:2]
    net = _network_class(case)()
    for st in case["stations"]:
        net.register_evse(I.make_evse(st["evse"], st["id"]), st["volt"], st["phase"])
    for c in case["constraints"]:
        net.add_constraint(Current(dict(c["coef"])), c["limit"], name=c["name"])
    return net


def network_from_matrix(case, inf):
    """the network a call saw, rebuilt from its constraint matrix (after update_constraint calls)"""
    ChargingNetwork, Current = _imports()[:2]
    net = ChargingNetwork()
    for st in case["stations"]:
        net.register_evse(I.make_evse(st["evse"], st["id"]), st["volt"], st["phase"])
    for r, (row, lim) in enumerate(zip(inf["M"], inf["lims"])):
        net.add_constraint(Current({i: v for i, v in zip(inf["ids"], row) if v != 0}), lim, name=f"r{r}")
    return net


def _sess_obs(s):
    return {"station": s.station_id, "session": s.session_id, "requested": float(s.requested_energy),
            "delivered": float(s.energy_delivered), "arrival": int(s.arrival), "est": int(s.estimated_departure),
            "departure": int(s.departure), "remaining_time": int(s.remaining_time),
            "min": I.enc(float(s.min_rates[0])), "max": I.enc(float(s.max_rates[0]))}


def _err_class(e):
    if isinstance(e, ValueError):
        m = str(e)
        if "lower bound" in m:
            return "ValueError:lower_bounds_infeasible"
        if "initial schedule" in m:
            return "ValueError:initial_infeasible"
        return "ValueError"
    return I.err_name(e)


def table_answer(spec, t):
    """the dict a table estimator returns in period t (see _gen_est_spec)"""
    out = {}
    for sid, seq in spec["table"].items():
        if not seq:
            continue
        v = seq[t % len(seq)]
        if v is not None:
            out[sid] = I.num(v)
    return out


def make_table_estimator(spec, rec):
    """an arbitrary UpperBoundEstimatorBase subclass: user code, as the package documents it"""
    from acnportal.algorithms import UpperBoundEstimatorBase

    class TableEstimator(UpperBoundEstimatorBase):
        def get_maximum_rates(self, sessions):
            t = int(self.interface.current_time)
            out = table_answer(spec, t)
            rec.est_log = {"dict": {k: I.enc(float(v)) for k, v in out.items()},
                           "seen": [[s.session_id, s.station_id, I.enc(float(s.min_rates[0])), I.enc(float(s.max_rates[0]))]
                                    for s in sessions]}
            return out

    return TableEstimator()


class _Recorder:
    """Wraps algorithm.schedule: captures inputs (before preprocessing mutates them), outputs and the
    implementation-side oracle facts of every invocation."""

    def __init__(self, case, net):
        self.case = case
        self.net = net
        self.calls = []
        self.order_log = None
        self.est_log = None
        self.crash_at = case.get("roundtrip_at")
        self.dynamic = bool(case.get("updates")) or any("update" in c for c in case.get("calls", []))

    def make(self):
        (_, _, _, _, _, _, SA, Unc, Ramp) = _imports()
        case = self.case
        rec = self
        if case["algo"] == "uncontrolled":
            base = Unc
            args = ()
            kwargs = {}
        else:
            fn = {"fcfs": SA.first_come_first_served, "lcfs": SA.last_come_first_served,
                  "edf": SA.earliest_deadline_first, "llf": SA.least_laxity_first,
                  "lrpt": SA.largest_remaining_processing_time}[case["sort"]]

            def sort_fn(evs, iface):
                out = fn(evs, iface)
                rec.order_log = [s.session_id for s in out]
                return out

            est = Ramp(case["ramp"]["up"], case["ramp"]["down"], case["ramp"]["inc"]) if case["estimate"] else None
            if case["estimate"] and case.get("est_spec") is not None:
                est = make_table_estimator(case["est_spec"], rec)
            kwargs = {"estimate_max_rate": case["estimate"], "max_rate_estimator": est,
                      "uninterrupted_charging": case["uninterrupted"]}
            if case["algo"] == "rr":
                base = SA.RoundRobin
                kwargs["continuous_inc"] = case["inc"]
            else:
                base = SA.SortedSchedulingAlgo
            args = (sort_fn,)

        class Rec(base):
            def schedule(self, active_sessions):
                return rec.record(self, super().schedule, active_sessions)

        return Rec(*args, **kwargs)

    def record(self, algo, real_schedule, sessions):
        iface = algo.interface
        net = self.net
        if self.crash_at is not None and int(iface.current_time) == self.crash_at:
            self.crash_at = None
            raise _Crash()
        call = {"time": int(iface.current_time), "sessions": [_sess_obs(s) for s in sessions]}
        if self.dynamic:
            info = iface.infrastructure_info()
            call["net"] = {"M": [[float(x) for x in row] for row in info.constraint_matrix],
                           "lims": [float(x) for x in info.constraint_limits]}
        est = getattr(algo, "max_rate_estimator", None)
        custom = est is not None and not hasattr(est, "upper_bounds")
        if custom:
            est = None          # a table estimator: no rampdown dict, no use of last period's pilots / rates
        self.est_log = None
        prev = []
        if est is not None:
            pp = iface.last_applied_pilot_signals
            pr = iface.last_actual_charging_rate
            prev = [[k, float(pp[k]), float(pr[k])] for k in pp]
            call["bounds_before"] = {k: float(v) for k, v in est.upper_bounds.items()}
        call["prev"] = prev
        self.order_log = None
        err = None
        out = None
        try:
            out = real_schedule(sessions)
        except Exception as e:  # noqa
            err = _err_class(e)
            call["err_text"] = str(e)[:200]
        call["err"] = err
        call["order"] = self.order_log
        call["post"] = {s.session_id: [I.enc(float(s.min_rates[0])), I.enc(float(s.max_rates[0]))] for s in sessions}
        if est is not None:
            call["bounds"] = {k: float(v) for k, v in est.upper_bounds.items()}
        if custom:
            # what get_maximum_rates was handed and what it answered in THIS call (None: it was not called)
            call["est_dict"] = None if self.est_log is None else self.est_log["dict"]
            call["est_seen"] = None if self.est_log is None else self.est_log["seen"]
        if out is not None:
            ids = net.station_ids
            call["schedule"] = {k: [float(x) for x in v] for k, v in out.items()}
            if all(len(v) == 1 for v in out.values()):
                mat = np.array([[out[s][0]] if s in out else [0.0] for s in ids], dtype=float)
                call["net_feasible"] = bool(net.is_feasible(mat))
                call["iface_feasible"] = bool(iface.is_feasible(out))
                call["valid"] = {s: bool(net._EVSEs[s]._valid_rate(out[s][0])) for s in out if s in net._EVSEs}
        self.calls.append(call)
        if err is not None:
            raise _Captured(err)
        return out


class _Captured(Exception):
    pass


class _Crash(Exception):
    """stands for any crash of the scheduler; the simulator is then serialised and resumed"""


def infra_obs(iface):
    info = iface.infrastructure_info()
    ph = np.deg2rad(info.phases)
    return {"ids": list(info.station_ids),
            "M": [[float(x) for x in row] for row in info.constraint_matrix],
            "lims": [float(x) for x in info.constraint_limits],
            "phases": [float(x) for x in info.phases],
            "cos": [float(x) for x in np.cos(ph)], "sin": [float(x) for x in np.sin(ph)],
            "volt": [float(x) for x in info.voltages],
            "maxp": [I.enc(float(x)) for x in info.max_pilot], "minp": [float(x) for x in info.min_pilot],
            "cont": [bool(x) for x in info.is_continuous],
            "allow": [[I.enc(float(a)) for a in al] for al in info.allowable_pilots]}


def _run_direct(case):
    (_, _, Simulator, EventQueue, Interface, _, _, _, _) = _imports()
    from acnportal.acnsim.models import EV, Battery
    net = build_network(case)
    rec = _Recorder(case, net)
    algo = rec.make()
    sim = Simulator(net, algo, EventQueue(), datetime(2020, 1, 1), period=case["period"], verbose=False)
    iface = algo.interface
    obs = {"infra": infra_obs(iface), "calls": rec.calls, "mode": "direct"}
    ids = net.station_ids
    for call in case["calls"]:
        t = call["time"]
        if call.get("update"):
            apply_updates(net, call["update"])
        for evse in net._EVSEs.values():
            if evse.ev is not None:
                evse.unplug()
        sim._iteration = t
        sim.pilot_signals = np.zeros((len(ids), t + 2))
        sim.charging_rates = np.zeros((len(ids), t + 2))
        for e in call["evs"]:
            ev = EV(e["arrival"], e["departure"], e["requested"], e["station"], e["session"],
                    Battery(100, 0, 100), estimated_departure=e["est"])
            ev._energy_delivered = e["delivered"]
            ev._current_charging_rate = e["rate"]
            net.plugin(ev)
            if t - 1 >= 0:
                sim.pilot_signals[ids.index(e["station"]), t - 1] = e["prev_pilot"]
        sessions = iface.active_sessions()
        by_id = {s.session_id: s for s in sessions}
        ordered = []
        for k in call["order"]:
            sid = call["evs"][k]["session"]
            if sid in by_id:
                s = by_id[sid]
                mo = call["evs"][k].get("max_override")
                if mo is not None:
                    s.max_rates = np.array([float(mo)] * s.remaining_time)
                ordered.append(s)
        try:
            algo.schedule(ordered)
        except _Captured:
            pass
    return obs


def _run_sim(case):
    (_, _, Simulator, EventQueue, Interface, PluginEvent, _, _, _) = _imports()
    net = build_network(case)
    rec = _Recorder(case, net)
    algo = rec.make()
    if case.get("max_recompute"):
        algo.max_recompute = int(case["max_recompute"])
    events = EventQueue()
    evs = []
    for e in case["evs"]:
        ev = I.make_ev(e)
        evs.append(ev)
        events.add_event(PluginEvent(e["arrival"], ev))
    sim = Simulator(net, algo, events, datetime(2020, 1, 1), period=case["period"], verbose=False)
    obs = {"infra": infra_obs(algo.interface), "calls": rec.calls, "mode": "sim"}
    err = None
    pending = {}
    with warnings.catch_warnings(record=True) as wlist:
        warnings.simplefilter("always")
        try:
            try:
                sim.run()
            except _Crash:
                js = sim.to_json()
                sim = Simulator.from_json(js)
                rec.net = sim.network
                sim.update_scheduler(algo)
                obs["roundtrip"] = True
                pending = {ev.ev.session_id: ev.ev for _, ev in sim.event_queue.queue
                           if getattr(ev, "ev", None) is not None}
                sim.run()
        except _Captured as e:
            err = "scheduler:" + str(e)
        except Exception as e:  # noqa
            err = I.err_name(e) + ":" + str(e)[:200]
    if obs.get("roundtrip"):
        # the EV objects of the restored simulator (also when the resumed run raised)
        by_id = dict(pending)
        by_id.update(sim.ev_history)
        evs = [by_id.get(e["session"], old) for e, old in zip(case["evs"], evs)]
    obs["sim_err"] = err
    obs["warnings"] = sorted({str(w.message)[:120] for w in wlist if "Invalid schedule" in str(w.message)})
    obs["energies"] = [[ev.session_id, float(ev.requested_energy), float(ev.energy_delivered)] for ev in evs]
    obs["iterations"] = int(sim.iteration)
    w = min(int(sim.iteration), sim.pilot_signals.shape[1])
    obs["pilots"] = [[float(x) for x in row[:w]] for row in sim.pilot_signals]
    obs["rates"] = [[float(x) for x in row[:min(w, sim.charging_rates.shape[1])]] for row in sim.charging_rates]
    return obs


def run_impl(case):
    if case["mode"] == "sim":
        return _run_sim(case)
    return _run_direct(case)


# ------------------------------------------------------------------ model

def _infra_wire(inf):
    return {"ids": inf["ids"], "M": [[f2b(x) for x in r] for r in inf["M"]], "lims": [f2b(x) for x in inf["lims"]],
            "cos": [f2b(x) for x in inf["cos"]], "sin": [f2b(x) for x in inf["sin"]],
            "volt": [f2b(x) for x in inf["volt"]], "maxp": [f2b(I.num(x)) for x in inf["maxp"]],
            "minp": [f2b(x) for x in inf["minp"]], "cont": inf["cont"],
            "allow": [[f2b(I.num(a)) for a in al] for al in inf["allow"]]}


def model_request(case, obs):
    calls = []
    for c in obs["calls"]:
        extra = {}
        if "net" in c:
            extra["net"] = {"M": [[f2b(x) for x in r] for r in c["net"]["M"]], "lims": [f2b(x) for x in c["net"]["lims"]]}
        if case.get("est_spec") is not None and case["estimate"]:
            ed = c.get("est_dict")
            extra["est"] = None if ed is None else [[k, f2b(I.num(v))] for k, v in ed.items()]
        calls.append({**extra, "time": c["time"], "prev": [[k, f2b(p), f2b(r)] for k, p, r in c["prev"]],
                      "sessions": [{"station": s["station"], "session": s["session"], "arrival": s["arrival"],
                                    "est": s["est"], "remaining_time": s["remaining_time"],
                                    "requested": f2b(s["requested"]), "delivered": f2b(s["delivered"]),
                                    "min": f2b(I.num(s["min"])), "max": f2b(I.num(s["max"]))} for s in c["sessions"]]})
    req = {"algo": case["algo"], "sort": case["sort"], "uninterrupted": case["uninterrupted"],
           "estimate": case["estimate"], "inc": f2b(case["inc"]), "period": f2b(case["period"]),
           "ramp": {k: f2b(v) for k, v in case["ramp"].items()}, "infra": _infra_wire(obs["infra"]), "calls": calls}
    if case["mode"] == "sim" and not case.get("updates"):
        # the COMPOSITION: shared simulator model with the modelled algorithm as its scheduler parameter
        # (without estimator: Sim.run, a pure scheduler; with estimator: SimSortedRd.runSt, the modelled
        # SimpleRampdown object threaded from call to call — answered by drv_C07 only)
        req["simrun"] = {"stations": [{"id": st["id"], "kind": I.kind_wire(st["evse"]), "V": f2b(st["volt"])}
                                      for st in case["stations"]],
                         "evs": [I.ev_wire(e) for e in case["evs"]], "recomputes": [], "max_recompute": int(case.get("max_recompute") or 1),
                         "period": f2b(case["period"]), "noise": []}
    if case.get("est_spec") is not None and case["estimate"]:
        # an ARBITRARY estimator: the dict it returned is an input of every call (drv_C07: Sorted.scheduleCallEst);
        # whole simulations run the table estimator inside the model's loop (SimSortedEst.sortedSchedEst)
        req["custom_est"] = True
        req["est_table"] = [[sid, [None if v is None else f2b(I.num(v)) for v in seq]]
                            for sid, seq in case["est_spec"]["table"].items()]
    return req


def _sim_err_class(e):
    if e is None:
        return None
    if e.startswith("InvalidRate"):
        return "InvalidRate"
    if e.startswith("scheduler:ValueError"):
        return "ValueError"
    if e.startswith("scheduler:KeyError"):
        return "KeyError"
    return e.split(":")[0]


def compare_simrun(case, obs, sr):
    """whole simulation: real Simulator + real algorithm vs Sim model + modelled algorithm (adapter)"""
    out = []
    ie = _sim_err_class(obs["sim_err"])
    if ie != sr["err"]:
        return [f"simrun: err impl={obs['sim_err']} model={sr['err']}"]
    if sr.get("fuel_exhausted"):
        out.append("simrun: model ran out of fuel")
    if obs["iterations"] != sr["iter"]:
        out.append(f"simrun: iteration impl={obs['iterations']} model={sr['iter']}")
        return out
    n = obs["iterations"]
    for name in ("pilots", "rates"):
        for r, (a, m) in enumerate(zip(obs[name], sr[name])):
            mm = [b2f(x) for x in m[:n]]
            aa = list(a[:n]) + [0.0] * (n - len(a[:n]))
            mm = mm + [0.0] * (n - len(mm))
            for t, (x, y) in enumerate(zip(aa, mm)):
                if not close(x, y):
                    out.append(f"simrun: {name}[{r}][{t}] impl={x!r} model={y!r}")
                    break
    for (sid, _req, got), me in zip(obs["energies"], sr["evs"]):
        if sid != me["session"] or not close(got, b2f(me["delivered"])):
            out.append(f"simrun: delivered {sid} impl={got!r} model={me['session']}:{b2f(me['delivered'])!r}")
    if sr.get("rd_bounds") is not None and ie is None:
        # the estimator object at the end of the run: SimpleRampdown.upper_bounds vs the threaded model state
        real = next((c["bounds"] for c in reversed(obs["calls"]) if "bounds" in c), {})
        mb = {k: b2f(v) for k, v in sr["rd_bounds"]}
        if sorted(real) != sorted(mb):
            out.append(f"simrun: estimator keys impl={sorted(real)} model={sorted(mb)}")
        else:
            for k in sorted(real):
                if not close(real[k], mb[k]):
                    out.append(f"simrun: estimator bound {k} impl={real[k]!r} model={mb[k]!r}")
    return out[:6]


def compare(case, obs, model):
    out = []
    if model.get("simrun") is not None:
        out.extend(compare_simrun(case, obs, model["simrun"]))
    mc = model["calls"]
    if len(mc) != len(obs["calls"]):
        return [f"{len(obs['calls'])} calls vs {len(mc)} model answers"]
    ids = obs["infra"]["ids"]
    for k, (a, m) in enumerate(zip(obs["calls"], mc)):
        if a["err"] != m["err"]:
            out.append(f"call {k}: err impl={a['err']} model={m['err']}")
            continue
        if case["algo"] == "uncontrolled":
            if a["err"] is None:
                md = {s: b2f(v[0]) for s, v in m["dict"]}
                ad = {s: v[0] for s, v in a["schedule"].items()}
                if set(md) != set(ad) or any(not close(ad[s], md[s]) for s in ad):
                    out.append(f"call {k}: uncontrolled impl={ad} model={md}")
            continue
        # preprocessing: bounds of the surviving sessions (the implementation mutates them in place)
        for sid, _st, mn, mx in m["pre"]:
            pa = a["post"].get(sid)
            if pa is None or not close(I.num(pa[0]), b2f(mn)) or not close(I.num(pa[1]), b2f(mx)):
                out.append(f"call {k}: session {sid} bounds impl={pa} model={[b2f(mn), b2f(mx)]}")
        if a["order"] is not None and a["order"] != m["order"]:
            out.append(f"call {k}: sorted order impl={a['order']} model={m['order']}")
        if "bounds" in a:
            mb = {s: b2f(v) for s, v in m["bounds"]}
            if set(mb) != set(a["bounds"]) or any(not close(a["bounds"][s], mb[s]) for s in mb):
                out.append(f"call {k}: estimator dict impl={a['bounds']} model={mb}")
        if a["err"] is None and case["algo"] == "rr" and m.get("queue_left") != []:
            # the implementation returned, i.e. its `while len(queue) > 0` loop ended with an empty deque
            out.append(f"call {k}: model deque not empty at the end of its fuel: {m.get('queue_left')}")
        if a["err"] is None:
            ms = [b2f(x) for x in m["schedule"]]
            if set(a["schedule"]) != set(ids):
                out.append(f"call {k}: schedule keys {sorted(a['schedule'])} != stations")
                continue
            for s, x in zip(ids, ms):
                if not close(a["schedule"][s][0], x):
                    out.append(f"call {k}: station {s} impl={a['schedule'][s][0]!r} model={x!r}")
    return out


# ------------------------------------------------------------------ property oracle (implementation only)

SL = 1e-9


def _le(a, b):
    return a <= b + SL + SL * max(abs(a), abs(b))


def ramp_expected(prev_bound, maxp, pr, cfg):
    """SimpleRampdown's rule, written from its docstring; pr = (pilot, rate) or None."""
    ub = maxp if prev_bound is None else prev_bound
    if pr is not None:
        pilot, rate = pr
        if pilot - rate > cfg["down"]:
            ub = rate + cfg["inc"]
        elif ub - rate < cfg["up"]:
            ub = ub + cfg["inc"]
        ub = min(max(ub, 0.0), maxp)
    return ub


def oracle(case, obs):
    fails = []
    inf = obs["infra"]
    ids = inf["ids"]
    idx = {s: i for i, s in enumerate(ids)}
    period = case["period"]
    for k, c in enumerate(obs["calls"]):
        if c["err"] is not None:
            if c["err"] == "ValueError:lower_bounds_infeasible":
                continue    # the documented refusal: no schedule is emitted
            fails.append({"kind": "unexpected_exception", "detail": f"call {k}: {c['err']} {c.get('err_text')}"})
            continue
        sched = c["schedule"]
        by_station = {}
        for s in c["sessions"]:
            by_station[s["station"]] = s
        if case["algo"] == "uncontrolled":
            want = {s["station"]: I.num(inf["maxp"][idx[s["station"]]]) for s in c["sessions"]}
            got = {s: v[0] for s, v in sched.items()}
            if set(want) != set(got) or any(want[s] != got[s] for s in want):
                fails.append({"kind": "uncontrolled_not_max_pilot", "detail": f"call {k}: got={got} want={want}"})
            continue
        if any(len(v) != 1 for v in sched.values()) or set(sched) != set(ids):
            fails.append({"kind": "schedule_shape", "detail": f"call {k}: {sched}"})
            continue
        if not c["net_feasible"] or not c["iface_feasible"]:
            fails.append({"kind": "infeasible_schedule_emitted",
                          "detail": f"call {k}: network.is_feasible={c['net_feasible']} interface={c['iface_feasible']} schedule={sched}"})
        dead = {st["id"] for st in case["stations"] if st["evse"]["t"] == "deadband"}
        for st, ok in c["valid"].items():
            if not ok and st not in dead:
                fails.append({"kind": "pilot_rejected_by_evse", "detail": f"call {k}: station {st} pilot {sched[st][0]}"})
        for st in ids:
            p = sched[st][0]
            s = by_station.get(st)
            i = idx[st]
            if s is None:
                if p != 0:
                    fails.append({"kind": "nonzero_for_inactive_station", "detail": f"call {k}: station {st} pilot {p}"})
                continue
            if p < 0:
                fails.append({"kind": "negative_pilot", "detail": f"call {k}: station {st} pilot {p}"})
            rap = (s["requested"] - s["delivered"]) * 1000 / inf["volt"][i] * 60 / period
            if not _le(p, rap):
                fails.append({"kind": "exceeds_remaining_demand",
                              "detail": f"call {k}: session {s['session']} pilot {p} > remaining {rap} amp-periods"})
            minp = inf["minp"][i] if case["uninterrupted"] else 0.0
            mx = min(I.num(inf["maxp"][i]), I.num(s["max"]))
            if not _le(p, max(mx, minp)):
                fails.append({"kind": "exceeds_max_rate", "detail": f"call {k}: session {s['session']} pilot {p} > max {mx}"})
            if case["estimate"] and case.get("est_spec") is not None:
                # ARBITRARY estimator.  Its answer in this call (the spec of the table estimator, not the model):
                ans = table_answer(case["est_spec"], c["time"])
                b = ans.get(s["session"])            # by SESSION id; None = no bound for this session
                thr = inf["minp"][i] * inf["volt"][i] / (60 / period) / 1000
                if b is not None and not _le(p, max(float(b), minp)):
                    fails.append({"kind": "estimator_bound_ignored",
                                  "detail": f"call {k}: session {s['session']} on {st}: pilot {p} > estimator bound {b} "
                                            f"(minimum pilot {minp})"})
                if not _le(p, I.num(inf["maxp"][i])):
                    fails.append({"kind": "exceeds_evse_max_with_estimator",
                                  "detail": f"call {k}: session {s['session']} on {st}: pilot {p} > EVSE maximum "
                                            f"{inf['maxp'][i]} (estimator bound {b})"})
                post = c["post"].get(s["session"])
                if s["requested"] - s["delivered"] > thr and not case["uninterrupted"] and post is not None:
                    # what apply_upper_bound_estimate documents: max_rates = min(max_rates, bound or inf), lifted to
                    # min_rates when below (observable: schedule() updates the SessionInfo objects in place)
                    want = max(min(mx, math.inf if b is None else float(b)), I.num(s["min"]))
                    if not close(I.num(post[1]), want):
                        fails.append({"kind": "estimator_answer_misapplied",
                                      "detail": f"call {k}: session {s['session']} on {st}: max rate after preprocessing "
                                                f"{post[1]}, expected {want} (EVSE/session max {mx}, estimator bound {b})"})
            elif case["estimate"]:
                pr = next(((pp, rr) for sid, pp, rr in c["prev"] if sid == s["session"]), None)
                thr = inf["minp"][i] * inf["volt"][i] / (60 / period) / 1000
                if s["requested"] - s["delivered"] > thr:      # the estimator only sees unfinished sessions
                    want = ramp_expected(c["bounds_before"].get(s["session"]), I.num(inf["maxp"][i]), pr, case["ramp"])
                    got = c["bounds"].get(s["session"])
                    if got is None or not close(got, want):
                        fails.append({"kind": "estimator_rule_wrong",
                                      "detail": f"call {k}: session {s['session']} bound {got} expected {want} (prev={pr})"})
                    if not _le(p, max(want, minp)):
                        fails.append({"kind": "estimator_bound_ignored",
                                      "detail": f"call {k}: session {s['session']} on {st}: pilot {p} > bound {want}"})
    if obs["mode"] == "sim" and case["algo"] != "uncontrolled":
        if obs["sim_err"] is not None and "lower_bounds_infeasible" not in obs["sim_err"]:
            kind = "invalid_rate_error" if "InvalidRate" in obs["sim_err"] else "simulation_exception"
            if not (kind == "invalid_rate_error" and _has_deadband(case)):      # Deadband: outside the quantifier
                fails.append({"kind": kind, "detail": obs["sim_err"]})
        if obs["warnings"]:
            fails.append({"kind": "infeasible_schedule_warning", "detail": obs["warnings"][0]})
        for sid, req, got in obs["energies"]:
            if not _le(got, req):
                fails.append({"kind": "delivered_more_than_requested", "detail": f"{sid}: delivered {got} > requested {req}"})
    return fails


# ------------------------------------------------------------------ evidence helpers

def _binding(case, obs, c):
    """some session got less than its own upper bound (a constraint was the limit)"""
    inf = obs["infra"]
    idx = {s: i for i, s in enumerate(inf["ids"])}
    if c["err"] is not None or case["algo"] == "uncontrolled":
        return False
    for s in c["sessions"]:
        i = idx[s["station"]]
        rap = (s["requested"] - s["delivered"]) * 1000 / inf["volt"][i] * 60 / case["period"]
        post = c["post"].get(s["session"])
        mx = min(I.num(inf["maxp"][i]), I.num(post[1]) if post else math.inf, rap)
        p = c["schedule"][s["station"]][0]
        thr = inf["minp"][i] * inf["volt"][i] / (60 / case["period"]) / 1000
        if s["requested"] - s["delivered"] > thr and p < mx - 0.011:
            lv = None if inf["cont"][i] else [I.num(a) for a in inf["allow"][i]]
            if lv is not None:
                nxt = [a for a in lv if a > p + 1e-9]
                if not nxt or nxt[0] > mx + 1e-9:
                    continue
            return True
    return False


def _est_bound(case, c, sid, default=-1.0):
    """the estimator's bound for session sid in call c (rampdown dict or table answer); default when there is none"""
    if case.get("est_spec") is not None:
        b = table_answer(case["est_spec"], c["time"]).get(sid)
        return default if b is None else float(b)
    return c.get("bounds", {}).get(sid, default)


def _est_features(case, obs, c, idx):
    """which kinds of answers the arbitrary estimator gave in this call, and whether they mattered"""
    inf = obs["infra"]
    out = []
    ans = table_answer(case["est_spec"], c["time"])
    active = {s["session"] for s in c["sessions"]}
    stations = set(inf["ids"])
    for k in ans:
        if k not in active:
            out.append("est_key:" + ("station_id" if k in stations else "not_an_active_session"))
    for s in c["sessions"]:
        i = idx[s["station"]]
        maxp = I.num(inf["maxp"][i])
        minp = inf["minp"][i]
        b = ans.get(s["session"])
        if b is None:
            out.append("est_bound:missing")
            continue
        b = float(b)
        lv = None if inf["cont"][i] else [I.num(a) for a in inf["allow"][i]]
        if math.isinf(b):
            out.append("est_bound:inf")
        elif b > maxp:
            out.append("est_bound:above_evse_max")
        elif b == maxp:
            out.append("est_bound:equals_evse_max")
        elif b < 0:
            out.append("est_bound:negative")
        elif b == 0:
            out.append("est_bound:zero")
        elif case["uninterrupted"] and b < minp:
            out.append("est_bound:below_min_pilot_uninterrupted")
        elif lv is not None and not any(b == a for a in lv):
            out.append("est_bound:between_levels")
        else:
            out.append("est_bound:interior")
        if c["err"] is None and "schedule" in c:
            p = c["schedule"][s["station"]][0]
            rap = (s["requested"] - s["delivered"]) * 1000 / inf["volt"][i] * 60 / case["period"]
            if b > maxp and rap > maxp and close(p, maxp):
                out.append("est_above_max:pilot_held_at_evse_max_with_demand_above")
            if case["uninterrupted"] and p > b + 1e-9 and close(p, minp):
                out.append("est_below_min:pilot_held_at_min_pilot")
    return out


def nontrivial(case, obs):
    return any(_binding(case, obs, c) for c in obs["calls"])


def features(case, obs):
    out = ["mode:" + case["mode"] + (":enumerated" if case.get("enumerated") else ""), "algo:" + case["algo"], "sort:" + case["sort"],
           f"unint:{case['uninterrupted']}",
           f"est:{case['estimate']}" + (":arbitrary_estimator" if case["estimate"] and case.get("est_spec") is not None else ""),
           f"inc:{case['inc']}",
           f"stations:{len(case['stations'])}", f"calls:{min(len(obs['calls']), 20)}"]
    if case["mode"] == "sim":
        out.append(f"max_recompute:{case.get('max_recompute') or 1}")
    inf = obs["infra"]
    idx = {s: i for i, s in enumerate(inf["ids"])}
    out.append("constraints:%s" % ("none" if not inf["M"] else "some"))
    dead = {st["id"] for st in case["stations"] if st["evse"]["t"] == "deadband"}
    for c in obs["calls"]:
        for st in dead:
            if c["err"] is None and st in c.get("valid", {}):
                out.append("deadband_pilot:" + ("accepted" if c["valid"][st] else "IN_DEAD_BAND_rejected"))
    if obs["mode"] == "sim" and dead and obs.get("sim_err") and "InvalidRate" in obs["sim_err"]:
        out.append("deadband_sim:InvalidRateError")
    out.append("mixed_sign_rows:%d" % sum(1 for r in inf["M"] if any(x < 0 for x in r) and any(x > 0 for x in r)))
    for c in obs["calls"]:
        out.append("err:" + str(c["err"]))
        if c["err"] is None and case["algo"] != "uncontrolled":
            out.append("binding:" + str(_binding(case, obs, c)))
            n_removed = 0
            for s in c["sessions"]:
                i = idx[s["station"]]
                thr = inf["minp"][i] * inf["volt"][i] / (60 / case["period"]) / 1000
                if not (s["requested"] - s["delivered"] > thr):
                    n_removed += 1
                    continue
                p = c["schedule"][s["station"]][0]
                rap = (s["requested"] - s["delivered"]) * 1000 / inf["volt"][i] * 60 / case["period"]
                kind = "cont" if inf["cont"][i] else "finite"
                if p == 0:
                    out.append(f"grant:{kind}:zero")
                elif close(p, rap):
                    out.append(f"grant:{kind}:remaining_demand")
                elif close(p, I.num(inf["maxp"][i])):
                    out.append(f"grant:{kind}:max_pilot")
                elif case["estimate"] and close(p, _est_bound(case, c, s["session"])):
                    out.append(f"grant:{kind}:estimator_bound")
                elif case["uninterrupted"] and close(p, inf["minp"][i]):
                    out.append(f"grant:{kind}:min_pilot")
                else:
                    out.append(f"grant:{kind}:interior")
                post = c["post"].get(s["session"])
                if post and I.num(post[0]) > 0:
                    out.append("min_rate_applied")
                elif case["uninterrupted"]:
                    out.append("min_rate_refused")
            if n_removed:
                out.append("finished_removed")
            if c["prev"]:
                out.append("estimator_has_history")
            if case["estimate"] and case.get("est_spec") is not None:
                out.extend(_est_features(case, obs, c, idx))
                if c.get("est_seen") is not None:
                    # evidence only (not compared: the order of two commuting preprocessing steps is not the property):
                    # were the sessions handed to get_maximum_rates already limited to the EVSE maximum?
                    lim = all(I.num(mx) <= I.num(inf["maxp"][idx[stn]]) for _sid, stn, _mn, mx in c["est_seen"])
                    out.append("estimator_handed_evse_limited_sessions:" + str(lim))
    if obs["mode"] == "sim":
        out.append("sim_err:" + str(obs["sim_err"])[:30])
        out.append("simrun_through_adapter:" + str(not case.get("updates")) + ((":arbitrary_table_estimator" if case.get("est_spec") is not None else ":stateful_estimator") if case["estimate"] else ""))
        if case["estimate"] and case.get("est_spec") is None:
            out.append("ramp:%s/%s/%s" % (case["ramp"]["up"], case["ramp"]["down"], case["ramp"]["inc"]))
            lowered = any(c["err"] is None and any(v < I.num(obs["infra"]["maxp"][obs["infra"]["ids"].index(s["station"])]) - 1e-9
                                                   for s in c["sessions"] for k, v in c.get("bounds", {}).items() if k == s["session"])
                          for c in obs["calls"])
            out.append("sim_estimator_lowered_a_bound:" + str(lowered))
        if case.get("updates"):
            out.append("constraint_updated_mid_simulation")
        if obs.get("roundtrip"):
            out.append("json_roundtrip_resumed")
    if any("update" in c for c in case.get("calls", [])):
        out.append("constraint_updated_between_calls")
    ids_ = [st["id"] for st in case["stations"]]
    out.append("registration_order:" + ("alphabetical" if ids_ == sorted(ids_) else "non_alphabetical"))
    if True:
        pass
    return out
