"""C15, stream "tz": ACN-Data documents whose datetimes carry ANY legal tzinfo implementation, several
conversion batches in one process.  Helper of props/C15.py (not a property module of its own).

A datetime of a case is a JSON-able spec
    {"tz": [kind, arg], "w": [Y, M, D, h, m, s], "fold": 0|1, "us": microseconds, "u": epoch seconds}
kind: "zi" zoneinfo.ZoneInfo(arg) (the cached, SHARED object)      "zn" ZoneInfo.no_cache(arg) (a private object)
      "hw" a hand-written fold-aware tzinfo (shared per zone)       "du" dateutil.tz.gettz(arg)
      "pz" pytz (per-offset tzinfo instances, no fold)              "fx" datetime.timezone(arg seconds)
`u` is the instant the generator meant; the ORACLE recomputes it from (w, fold, zone) with the rule table below
(PEP 495 semantics written out by hand: civil-date arithmetic and "n-th Sunday" rules, no tz library), in exact
integer arithmetic, and run_impl cross-checks every datetime object it builds against it (`dt.timestamp()`), so a
disagreement between the table and the installed zone data is an infrastructure error, never a verdict.
"""
from __future__ import annotations

import copy
import datetime as _dt
import math
from fractions import Fraction

# ------------------------------------------------------------------ civil arithmetic (proleptic Gregorian), by hand


def _dfc(y, m, d):
    """days from 1970-01-01 (integers only)"""
    y -= m <= 2
    era = (y if y >= 0 else y - 399) // 400
    yoe = y - era * 400
    doy = (153 * (m + (-3 if m > 2 else 9)) + 2) // 5 + d - 1
    doe = yoe * 365 + yoe // 4 - yoe // 100 + doy
    return era * 146097 + doe - 719468


def wall_secs(w):
    y, mo, d, h, mi, s = w
    return _dfc(y, mo, d) * 86400 + h * 3600 + mi * 60 + s


def civil(secs):
    days, rem = divmod(secs, 86400)
    z = days + 719468
    era = (z if z >= 0 else z - 146096) // 146097
    doe = z - era * 146097
    yoe = (doe - doe // 1460 + doe // 36524 - doe // 146096) // 365
    y = yoe + era * 400
    doy = doe - (365 * yoe + yoe // 4 - yoe // 100)
    mp = (5 * doy + 2) // 153
    d = doy - (153 * mp + 2) // 5 + 1
    m = mp + (3 if mp < 10 else -9)
    y += m <= 2
    return [y, m, d, rem // 3600, rem % 3600 // 60, rem % 60]


def _sunday(y, m, n):
    """day of month of the n-th Sunday (n = -1: the last)"""
    if n > 0:
        wd = (_dfc(y, m, 1) + 4) % 7            # 0 = Sunday (1970-01-01 was a Thursday)
        return 1 + (7 - wd) % 7 + 7 * (n - 1)
    ny, nm = (y + 1, 1) if m == 12 else (y, m + 1)
    last = _dfc(ny, nm, 1) - _dfc(y, m, 1)
    wd = (_dfc(y, m, last) + 4) % 7
    return last - wd


# zone rules valid 2008-2025: std, dst offsets (s); start / end of DST as (month, n-th Sunday, seconds after local
# midnight, "std" | "dst" | "utc" = the clock the time of day is expressed in)
H = 3600
RULES = {
    "America/Los_Angeles": (-8 * H, -7 * H, (3, 2, 2 * H, "std"), (11, 1, 2 * H, "dst")),
    "America/New_York": (-5 * H, -4 * H, (3, 2, 2 * H, "std"), (11, 1, 2 * H, "dst")),
    "Europe/Berlin": (1 * H, 2 * H, (3, -1, 1 * H, "utc"), (10, -1, 1 * H, "utc")),
    "Australia/Lord_Howe": (10 * H + 1800, 11 * H, (10, 1, 2 * H, "std"), (4, 1, 2 * H, "dst")),
    "Pacific/Chatham": (12 * H + 2700, 13 * H + 2700, (9, -1, 2 * H + 2700, "std"), (4, 1, 3 * H + 2700, "dst")),
    "Asia/Kolkata": (5 * H + 1800, None, None, None),
    "UTC": (0, None, None, None),
}
DST_ZONES = [z for z, r in RULES.items() if r[1] is not None]
YEARS = range(2016, 2024)
_TR = {}


def transitions(zone):
    """ascending [(utc instant, offset from then on)]"""
    if zone in _TR:
        return _TR[zone]
    std, dst, st, en = RULES[zone]
    out = []
    if dst is not None:
        for y in YEARS:
            for (m, n, tod, clock), after in ((st, dst), (en, std)):
                local = _dfc(y, m, _sunday(y, m, n)) * 86400 + tod
                out.append((local - {"std": std, "dst": dst, "utc": 0}[clock], after))
        out.sort()
    _TR[zone] = out
    return out


def offset_at(zone, u):
    std, dst = RULES[zone][:2]
    tr = transitions(zone)
    if not tr:
        return std
    off = std if tr[0][1] == dst else dst
    for t, o in tr:
        if t <= u:
            off = o
        else:
            break
    return off


def instant_of(zone, wall, fold, kind=None):
    """PEP 495: the instant a wall-clock reading denotes.  Ambiguous readings: fold=0 the earlier, fold=1 the later
    instant; readings in a gap: fold=0 the offset in force before the transition (std), fold=1 the one after (dst).
    (dateutil — kind "du" — answers a reading in a gap with the offset after the transition for either fold: another
    legal offset function, observed in this sandbox and cross-checked at run time like the rest of the table.)"""
    std, dst = RULES[zone][:2]
    if dst is None:
        return wall - std
    cands = sorted({wall - o for o in (std, dst) if offset_at(zone, wall - o) == o})
    if len(cands) == 2:
        return cands[fold]
    if len(cands) == 1:
        return cands[0]
    return wall - (dst if (fold or kind == "du") else std)


def wall_of(zone, u):
    """(wall seconds, fold) of an instant"""
    wall = u + offset_at(zone, u)
    std, dst = RULES[zone][:2]
    if dst is None:
        return wall, 0
    cands = sorted({wall - o for o in (std, dst) if offset_at(zone, wall - o) == o})
    return wall, (cands.index(u) if len(cands) == 2 else 0)


def fall_backs(zone, years=(2018, 2019, 2020)):
    """[(instant of the transition, seconds repeated)] — the wall clock repeats [T+o_after, T+o_before)"""
    std, dst = RULES[zone][:2]
    return [(t, dst - std) for t, o in transitions(zone) if o == std and civil(t)[0] in years]


def spring_forwards(zone, years=(2018, 2019, 2020)):
    std, dst = RULES[zone][:2]
    return [(t, dst - std) for t, o in transitions(zone) if o == dst and civil(t)[0] in years]


# ------------------------------------------------------------------ tzinfo objects


class HandTz(_dt.tzinfo):
    """a fold-aware tzinfo written against PEP 495 only (no zone database)"""

    def __init__(self, name):
        self.name = name

    def _off(self, dt):
        wall = wall_secs((dt.year, dt.month, dt.day, dt.hour, dt.minute, dt.second))
        return wall - instant_of(self.name, wall, dt.fold)

    def utcoffset(self, dt):
        return _dt.timedelta(seconds=self._off(dt))

    def dst(self, dt):
        return _dt.timedelta(seconds=self._off(dt) - RULES[self.name][0])

    def tzname(self, dt):
        return "%s%+d" % (self.name, self._off(dt))

    def fromutc(self, dt):
        u = wall_secs((dt.year, dt.month, dt.day, dt.hour, dt.minute, dt.second))
        wall, fold = wall_of(self.name, u)
        return _dt.datetime(*civil(wall), dt.microsecond, tzinfo=self, fold=fold)

    def __repr__(self):
        return "HandTz(%r)" % self.name


_HW = {}
_ZN = {}


def have_dateutil():
    try:
        import dateutil.tz  # noqa
        return True
    except Exception:
        return False


def tzobj(tz):
    kind, arg = tz
    if kind in ("zi", "zn"):
        try:
            import zoneinfo
            if kind == "zi":
                return zoneinfo.ZoneInfo(arg)
            if arg not in _ZN:
                _ZN[arg] = zoneinfo.ZoneInfo.no_cache(arg)
            return _ZN[arg]
        except Exception:      # no zone database in this interpreter: the hand-written PEP 495 class stands in
            kind = "hw"
    if kind == "hw":
        if arg not in _HW:
            _HW[arg] = HandTz(arg)
        return _HW[arg]
    if kind == "du":
        import dateutil.tz
        return dateutil.tz.gettz(arg)
    if kind == "pz":
        import pytz
        return pytz.timezone(arg)
    if kind == "fx":
        return _dt.timezone(_dt.timedelta(seconds=arg))
    raise ValueError(kind)


def build_dt(spec):
    kind = spec["tz"][0]
    tz = tzobj(spec["tz"])
    us = spec.get("us", 0)
    if kind == "pz":
        import pytz
        return pytz.utc.localize(_dt.datetime(*civil(spec["u"]), us)).astimezone(tz)
    return _dt.datetime(*spec["w"], us, tzinfo=tz, fold=spec["fold"])


def spec_offset(spec):
    """utcoffset (s) of the reading, from the rule table"""
    kind, arg = spec["tz"]
    if kind == "fx":
        return arg
    if kind == "pz":
        return offset_at(arg, spec["u"])
    wall = wall_secs(spec["w"])
    return wall - instant_of(arg, wall, spec["fold"], kind)


def spec_wall(spec):
    """wall-clock seconds of the reading (pytz datetimes are built from the instant)"""
    kind, arg = spec["tz"]
    if kind == "pz":
        return spec["u"] + offset_at(arg, spec["u"])
    return wall_secs(spec["w"])


def spec_instant(spec):
    """exact instant (Fraction when the spec carries microseconds) — the oracle's own computation"""
    u = spec_wall(spec) - spec_offset(spec)
    us = spec.get("us", 0)
    return u if not us else Fraction(u) + Fraction(us, 10 ** 6)


def from_instant(tz, u, us=0):
    kind, arg = tz
    if kind == "fx":
        wall, fold = u + arg, 0
    else:
        wall, fold = wall_of(arg, u)
    out = {"tz": list(tz), "w": civil(wall), "fold": fold, "u": int(u)}
    if us:
        out["us"] = us
    return out


def from_wall(tz, wall, fold):
    kind, arg = tz
    assert kind not in ("fx", "pz")
    return {"tz": list(tz), "w": civil(wall), "fold": fold, "u": int(instant_of(arg, wall, fold, kind))}


# ------------------------------------------------------------------ generation

FOLD_KINDS = ["zi", "zi", "hw", "du", "zn"]
ALL_KINDS = ["zi", "hw", "du", "zn", "pz", "fx"]
FIXED = [0, -8 * H, -7 * H, 5 * H + 1800, 12 * H + 2700, 14 * H, -12 * H, 3 * H + 1234, -(4 * H + 59)]
T_PERIODS = [5, 5, 15, 1, 7, 0.5, 2.5, 60, 10, 3, 0.25]
T_VOLTS = [208, 240, 120, 277.5, 400]


def _kinds():
    return [k for k in FOLD_KINDS if k != "du" or have_dateutil()]


def _any_tz(rng, u=None):
    k = rng.choice([k for k in ALL_KINDS if k != "du" or have_dateutil()])
    if k == "fx":
        return ["fx", rng.choice(FIXED)]
    return [k, rng.choice(list(RULES))]


def _doc(c, d, kwh, k, rng):
    return {"c": c, "d": d, "kwh": float(kwh), "sid": "tz_%d_%d" % (k, c["u"]), "space": rng.choice(["CA-319", "AG-3F22", "SP-%d" % k])}


def _stay(batch, doc):
    psec = Fraction(60) * Fraction(batch["period"])
    st = math.floor(spec_instant(doc["d"]) / psec) - math.floor(spec_instant(doc["c"]) / psec)
    if batch["max_len"] is not None:
        st = min(st, batch["max_len"])
    return st


def _set_energies(batch, rng, C15):
    """requests the fit can serve where the battery is fitted, anything elsewhere"""
    fit = C15._uses_fit(batch["bp"])
    for doc in batch["docs"]:
        st = max(_stay(batch, doc), 0)
        lin = C15._maxp_fit(batch["V"]) * st * (batch["period"] / 60)
        if fit and lin > 0:
            doc["kwh"] = float(round(min(lin, 78.0) * rng.choice([0.5, 0.3, 0.1, rng.random() * 0.6, 0.02]), 4)) or 0.001
        else:
            doc["kwh"] = float(rng.choice([round(rng.uniform(0.05, 40), 3), 3.2, 12.5, 0.4]))


def _base_batch(rng, C15, period=None):
    period = period if period is not None else rng.choice(T_PERIODS)
    V = rng.choice(T_VOLTS)
    bp = rng.choice([None, None, {"type": "two", "capfn": "fit"}, {"type": "two", "capfn": "fit"}, {"type": "two", "capfn": "fit"},
                     {"type": "ideal"}, {"type": "two"}, {"type": "ideal", "capfn": "fit"},
                     {"type": "two", "capfn": [1.5, 5, 0.25, 0]}])
    maxp = C15._maxp_fit(V) if (C15._uses_fit(bp) or rng.random() < 0.5) else rng.choice([6.6, 7.2, 3.3, 11, 50])
    return {"start": None, "period": period, "V": V, "maxp": maxp,
            "max_len": None if rng.random() < 0.7 else rng.choice([1, 2, 5, 12, 48, 100]),
            "ff": rng.random() < 0.4, "bp": bp, "docs": []}


def _scenario(rng, C15, name=None, zone=None, kind=None, period=None, pick=None):
    """one base batch; `pick` (an int) replaces the random choice of the transition (grid)"""
    name = name or rng.choice(["fold_same_doc", "fold_same_doc", "fold_diff_docs", "start_in_fold", "gap", "crossing", "crossing",
                               "mixed", "mixed", "fixed"])
    zone = zone or rng.choice(DST_ZONES)
    kind = kind or rng.choice(_kinds())
    b = _base_batch(rng, C15, period)
    psec = int(60 * b["period"])
    tz = [kind, zone]
    fbs, sfs = fall_backs(zone), spring_forwards(zone)
    T, D = fbs[pick % len(fbs)] if pick is not None else rng.choice(fbs)
    S, G = sfs[pick % len(sfs)] if pick is not None else rng.choice(sfs)
    o_after = offset_at(zone, T)
    docs = []

    def other_tz():
        return _any_tz(rng) if rng.random() < 0.5 else tz

    if name in ("fold_same_doc", "fold_diff_docs", "start_in_fold"):
        # the wall clock reads [T + o_after, T + o_after + D) twice
        s = rng.choice([0, D // 2, D - 1, rng.randrange(D), rng.randrange(D) // psec * psec if psec <= D else 0])
        wall = T + o_after + s
        r0, r1 = from_wall(tz, wall, 0), from_wall(tz, wall, 1)
        assert r1["u"] - r0["u"] == D and r0["w"] == r1["w"], (r0, r1)
        if name == "fold_same_doc":
            docs.append(_doc(r0, r1, 1, 0, rng))
            if rng.random() < 0.6:    # a second session whose disconnection is a reading seen before
                docs.append(_doc(copy.deepcopy(r1), from_instant(other_tz(), r1["u"] + rng.randint(60, 5 * H)), 1, 1, rng))
            start_u = r0["u"] - rng.choice([0, 1, psec, H, 7 * H, rng.randint(0, 86400)])
            b["start"] = from_instant(rng.choice([tz, tz, _any_tz(rng)]), start_u)
        elif name == "fold_diff_docs":
            for k, r in enumerate(rng.sample([r0, r1], 2)):
                docs.append(_doc(r, from_instant(other_tz(), T + D + rng.randint(0, 6 * H)), 1, k, rng))
            if rng.random() < 0.5:
                docs.append(_doc(from_instant(tz, r0["u"] - rng.randint(1, H)), copy.deepcopy(r0), 1, 2, rng))
            b["start"] = from_instant(rng.choice([tz, _any_tz(rng)]), r0["u"] - rng.choice([0, H, 86400 // 2, rng.randint(0, 86400)]))
        else:
            # the simulation starts in the repeated hour; documents read the same wall time with either fold
            f = rng.choice([0, 1])
            b["start"] = [r0, r1][f]
            docs.append(_doc(copy.deepcopy(r1), from_instant(other_tz(), T + D + rng.randint(1, 4 * H)), 1, 0, rng))
            docs.append(_doc(copy.deepcopy(r1), from_instant(tz, r1["u"] + rng.randint(0, 2 * D)), 1, 1, rng))
            if rng.random() < 0.6:   # the same reading with fold=0 (for a start with fold=1: connected before the start)
                docs.append(_doc(copy.deepcopy(r0), rng.choice([copy.deepcopy(r1), from_instant(tz, T + D + rng.randint(0, H))]), 1, 2, rng))
    elif name == "gap":
        # the wall clock skips [S + o_before, S + o_before + G)
        o_before = offset_at(zone, S - 1)
        wall = S + o_before + rng.choice([0, G // 2, G - 1, rng.randrange(G)])
        g0, g1 = from_wall(tz, wall, 0), from_wall(tz, wall, 1)
        assert g0["u"] - g1["u"] == (0 if kind == "du" else G), (g0, g1)
        docs.append(_doc(g1, g0, 1, 0, rng))                      # fold=1 is the EARLIER instant in a gap
        docs.append(_doc(from_instant(tz, S - rng.randint(1, 2 * H)), copy.deepcopy(rng.choice([g0, g1])), 1, 1, rng))
        docs.append(_doc(copy.deepcopy(rng.choice([g0, g1])), from_instant(other_tz(), S + G + rng.randint(0, 5 * H)), 1, 2, rng))
        b["start"] = rng.choice([from_instant(tz, S - rng.choice([0, 1, H, 86400 // 3])), copy.deepcopy(g1)])
    elif name == "crossing":
        X = rng.choice([T, S])
        for k in range(rng.randint(1, 4)):
            c = X - rng.choice([1, psec, rng.randint(1, 3 * H), rng.randint(1, 20 * H)])
            d = X + rng.choice([0, 1, psec - 1, rng.randint(0, 3 * H), rng.randint(0, 20 * H)])
            docs.append(_doc(from_instant(tz, c), from_instant(rng.choice([tz, tz, _any_tz(rng)]), d), 1, k, rng))
        b["start"] = from_instant(rng.choice([tz, tz, _any_tz(rng)]), X - rng.choice([86400, 30 * H, rng.randint(20 * H, 40 * H)]))
    elif name == "mixed":
        X = rng.choice([T, S, 1582934400, 1546300800, 1536303600])
        start_u = X - rng.randint(0, 2 * 86400)
        b["start"] = from_instant(_any_tz(rng), start_u, us=rng.choice([0, 0, 0, 500000]))
        for k in range(rng.randint(2, 5)):
            c = start_u + rng.randint(0, 3 * 86400)
            if rng.random() < 0.4:
                c = c - c % psec + rng.choice([0, 1, psec - 1])
            d = c + rng.choice([rng.randint(0, psec), rng.randint(60, 30 * H), rng.randint(1, 40) * psec])
            docs.append(_doc(from_instant(_any_tz(rng), c), from_instant(_any_tz(rng), d, us=rng.choice([0, 0, 0, 500000])), 1, k, rng))
    else:  # fixed offsets only, far apart
        start_u = rng.choice([T, S, 1546300800]) - rng.randint(0, 86400)
        b["start"] = from_instant(["fx", rng.choice(FIXED)], start_u)
        for k in range(rng.randint(2, 4)):
            c = start_u + rng.randint(0, 2 * 86400)
            d = c + rng.randint(0, 20 * H)
            docs.append(_doc(from_instant(["fx", rng.choice(FIXED)], c), from_instant(["fx", rng.choice(FIXED)], d), 1, k, rng))
    b["docs"] = docs
    b["scenario"] = name
    _set_energies(b, rng, C15)
    return b


def _variant(b0, rng, C15):
    """another call in the same process that shares datetimes or (energy, stay) pairs with `b0`"""
    b = copy.deepcopy(b0)
    fit = C15._uses_fit(b["bp"])
    how = rng.choice(["period", "period", "voltage", "voltage", "same_stay_other_period", "maxp", "repeat", "bp"])
    b["variant"] = how
    if how == "period":                     # the same datetimes under another period
        b["period"] = rng.choice([p for p in T_PERIODS if p != b0["period"]])
        if fit:
            for doc in b["docs"]:           # keep the requests deliverable
                lin = C15._maxp_fit(b["V"]) * max(_stay(b, doc), 0) * (b["period"] / 60)
                if not doc["kwh"] <= lin * 0.9:
                    doc["kwh"] = float(round(lin * 0.5, 4)) or 0.001
    elif how == "voltage":                  # the same (energy, stay) under another voltage
        b["V"] = rng.choice([v for v in T_VOLTS if v != b0["V"]])
        if fit or b0["maxp"] == C15._maxp_fit(b0["V"]):
            b["maxp"] = C15._maxp_fit(b["V"])
    elif how == "same_stay_other_period":   # the same (energy, stay in periods) under another period
        cands = [p for p in T_PERIODS if p != b0["period"]]
        if fit:    # keep the requests deliverable under the new period where possible
            ok = [p for p in cands if all(doc["kwh"] <= 0.9 * C15._maxp_fit(b["V"]) * max(_stay(b0, doc), 0) * (p / 60) for doc in b["docs"])]
            cands = ok or cands
        P2 = rng.choice(cands)
        ps2 = int(60 * P2)
        for doc in b["docs"]:
            st = _stay(b0, doc) if b0["max_len"] is None else None
            if st is None or st < 0:
                continue
            cu = doc["c"]["u"]
            du = (cu // ps2 + st) * ps2 + rng.randrange(ps2)
            doc["d"] = from_instant(doc["d"]["tz"], du)
        b["period"] = P2
        b["ff"] = False
    elif how == "maxp":
        b["maxp"] = rng.choice([m for m in [6.6, 7.2, 3.3, 11, 50, C15._maxp_fit(b["V"])] if m != b0["maxp"]])
        b["ff"] = True
    elif how == "bp":
        b["bp"] = rng.choice([None, {"type": "two", "capfn": "fit"}, {"type": "two"}])
        if C15._uses_fit(b["bp"]):
            b["maxp"] = C15._maxp_fit(b["V"])
            _set_energies(b, rng, C15)
    for k, doc in enumerate(b["docs"]):
        doc["sid"] = doc["sid"] + "_" + how[:2]
    return b


def gen_case(rng, C15, **kw):
    b0 = _scenario(rng, C15, **kw)
    batches = [b0]
    for _ in range(rng.choice([1, 1, 2, 3])):
        batches.append(_variant(rng.choice(batches[:2]), rng, C15))
    if rng.random() < 0.3:
        batches.append(_scenario(rng, C15))           # an unrelated call in between / afterwards
    if rng.random() < 0.3:
        rep = copy.deepcopy(b0)
        rep["variant"] = "repeat"
        batches.append(rep)                            # the first call once more, after the others
    return {"k": "tz", "batches": batches}


def grid(rng, C15):
    """thorough tier: every DST zone × fold-aware tzinfo class × scenario × a few periods"""
    out = []
    for zone in DST_ZONES:
        for kind in sorted(set(_kinds())):
            for name in ("fold_same_doc", "fold_diff_docs", "start_in_fold", "gap", "crossing"):
                for i, period in enumerate((5, 15, 7, 0.5)):
                    out.append(gen_case(rng, C15, name=name, zone=zone, kind=kind, period=period, pick=i))
    return out


def corpus():
    la = "America/Los_Angeles"
    r0 = {"tz": ["zi", la], "w": [2019, 11, 3, 1, 30, 0], "fold": 0, "u": 1572769800}
    r1 = {"tz": ["zi", la], "w": [2019, 11, 3, 1, 30, 0], "fold": 1, "u": 1572773400}
    st = {"tz": ["zi", la], "w": [2019, 11, 3, 0, 0, 0], "fold": 0, "u": 1572764400}
    later = {"tz": ["fx", 0], "w": [2019, 11, 3, 12, 0, 0], "fold": 0, "u": 1572782400}
    b = {"start": st, "period": 5, "V": 208, "maxp": 6.656, "max_len": None, "ff": False, "bp": None,
         "docs": [{"c": r0, "d": r1, "kwh": 3.2, "sid": "fold", "space": "CA-1"},
                  {"c": r1, "d": later, "kwh": 3.2, "sid": "after", "space": "CA-2"}]}
    b15 = dict(copy.deepcopy(b), period=15)
    fit = {"start": st, "period": 5, "V": 208, "maxp": 6.656, "max_len": None, "ff": False, "bp": {"type": "two", "capfn": "fit"},
           "docs": [{"c": r0, "d": r1, "kwh": 2.5, "sid": "f1", "space": "CA-1"}]}
    fit240 = dict(copy.deepcopy(fit), V=240, maxp=7.68)
    fit15 = copy.deepcopy(fit)
    fit15["period"] = 15
    fit15["docs"][0]["d"] = {"tz": ["hw", la], "w": [2019, 11, 3, 3, 30, 0], "fold": 0, "u": 1572780600}   # 12 periods of 15 min
    instart = {"start": r1, "period": 5, "V": 208, "maxp": 6.656, "max_len": 12, "ff": True, "bp": None,
               "docs": [{"c": r0, "d": later, "kwh": 30.0, "sid": "before", "space": "CA-1"},
                        {"c": r1, "d": later, "kwh": 30.0, "sid": "at", "space": "CA-2"}]}
    g0 = {"tz": ["hw", la], "w": [2019, 3, 10, 2, 30, 0], "fold": 0, "u": 1552213800}
    g1 = {"tz": ["hw", la], "w": [2019, 3, 10, 2, 30, 0], "fold": 1, "u": 1552210200}
    gap = {"start": {"tz": ["pz", la], "w": [2019, 3, 10, 0, 0, 0], "fold": 0, "u": 1552204800}, "period": 7, "V": 240, "maxp": 7.2,
           "max_len": None, "ff": False, "bp": {"type": "ideal"},
           "docs": [{"c": g1, "d": g0, "kwh": 1.0, "sid": "gap", "space": "S1"}]}
    return [{"k": "tz", "batches": [b, b15, copy.deepcopy(b)]},
            {"k": "tz", "batches": [fit, fit240, fit15, copy.deepcopy(fit)]},
            {"k": "tz", "batches": [instart, gap]}]


# ------------------------------------------------------------------ implementation


def _all_specs(case):
    for b in case["batches"]:
        yield b["start"]
        for d in b["docs"]:
            yield d["c"]
            yield d["d"]


def run_impl(case, C15):
    from acnportal.acnsim.events import acndata_events
    out = []
    for b in case["batches"]:
        built = {}

        def mk(spec):
            dt = build_dt(spec)
            u = spec_instant(spec)
            # the tz library and the rule table must agree, and on the instant the generator meant
            if Fraction(dt.timestamp()) != u or int(u // 1) != spec["u"] or dt.utcoffset().total_seconds() != spec_offset(spec):
                raise RuntimeError("tz table / zone data disagree on %r: %r vs %r" % (spec, dt.timestamp(), u))
            return dt

        raw = []
        for k, d in enumerate(b["docs"]):
            raw.append({"_id": "id%d" % k, "sessionID": d["sid"], "spaceID": d["space"], "stationID": "2-39-" + d["space"],
                        "connectionTime": mk(d["c"]), "disconnectTime": mk(d["d"]), "doneChargingTime": None,
                        "kWhDelivered": d["kwh"], "timezone": "America/Los_Angeles", "userID": None, "userInputs": None,
                        "clusterID": "0039", "siteID": "0002"})
        calls = []

        class FakeClient:
            def __init__(self, token, url=None):
                self.token = token

            def get_sessions_by_time(self, site, start=None, end=None, min_energy=None, timeseries=False, count=False):
                calls.append(site)
                return iter(raw)

        start = mk(b["start"])
        end = start + _dt.timedelta(days=10)
        kwargs = {}
        if b["max_len"] is not None:
            kwargs["max_len"] = b["max_len"]
        if b["bp"] is not None:
            kwargs["battery_params"] = C15._impl_bp(b["bp"])
        if b["ff"]:
            kwargs["force_feasible"] = True
        orig = acndata_events.DataClient
        acndata_events.DataClient = FakeClient
        try:
            try:
                q = acndata_events.generate_events("tok", "caltech", start, end, b["period"], b["V"], b["maxp"], **kwargs)
            except Exception as e:  # noqa
                out.append({"err": C15.I.err_name(e), "msg": str(e)[:120]})
                continue
        finally:
            acndata_events.DataClient = orig
        evs, nq = C15._obs_evs(q, b)
        # the caller's documents must come back untouched (same datetime objects, same readings)
        same = all(r["connectionTime"].timestamp() == float(spec_instant(d["c"])) and r["disconnectTime"].timestamp() == float(spec_instant(d["d"]))
                   for r, d in zip(raw, b["docs"]))
        out.append({"err": None, "evs": evs, "n_events": nq, "client_calls": len(calls), "docs_untouched": same})
    return {"batches": out}


# ------------------------------------------------------------------ model / compare / oracle


def _reading_wire(spec, f2b):
    us = spec.get("us", 0)
    return {"w": f2b(float(spec_wall(spec)) + us / 10 ** 6), "o": f2b(float(spec_offset(spec)))}


def model_request(case, C15):
    f2b = C15.f2b
    bs = []
    for b in case["batches"]:
        bs.append({"start": _reading_wire(b["start"], f2b), "period": f2b(b["period"]), "V": f2b(b["V"]), "maxp": f2b(b["maxp"]),
                   "max_len": b["max_len"], "ff": bool(b["ff"]), "bp": C15._bp_wire(b["bp"]), "pilot": f2b(C15._pilot(b)),
                   "nmax": C15.NMAX,
                   "docs": [{"c": _reading_wire(d["c"], f2b), "d": _reading_wire(d["d"], f2b), "kwh": f2b(d["kwh"]), "sid": d["sid"],
                             "space": d["space"]} for d in b["docs"]]})
    return {"op": "tz", "batches": bs}


def as_docs_case(b):
    """the batch as the oracle of the docs stream wants it: instants computed HERE from the readings"""
    return {"k": "docs", "start": spec_instant(b["start"]), "start_tz": None, "period": b["period"], "V": b["V"], "maxp": b["maxp"],
            "max_len": b["max_len"], "ff": b["ff"], "bp": b["bp"],
            "docs": [{"c": spec_instant(d["c"]), "d": spec_instant(d["d"]), "kwh": d["kwh"], "sid": d["sid"], "space": d["space"],
                      "tz": d["c"]["tz"][0]} for d in b["docs"]]}


def compare(case, obs, model, C15):
    out = []
    mb = model.get("batches")
    if mb is None or len(mb) != len(obs["batches"]):
        return ["model answered %s for %d batches" % (model, len(obs["batches"]))]
    for i, (b, o, m) in enumerate(zip(case["batches"], obs["batches"], mb)):
        out.extend("batch %d: %s" % (i, x) for x in C15.compare(as_docs_case(b), o, m))
    return out


def oracle(case, obs, C15):
    fails = []
    for i, (b, o) in enumerate(zip(case["batches"], obs["batches"])):
        for f in C15._oracle_docs(as_docs_case(b), o):
            detail = "batch %d (%s): %s" % (i, b.get("variant") or b.get("scenario") or "-", f["detail"])
            fails.append({"kind": f["kind"], "detail": detail})
            if i > 0:
                # a failure of a later call of the sequence gets a class of its own, so that a replay which contains the
                # whole sequence is written (a failure caused by state left behind by EARLIER calls does not reproduce
                # from the smallest failing case of another stream)
                fails.append({"kind": "later_call_" + f["kind"], "detail": detail})
        if o.get("err") is None and not o.get("docs_untouched", True):
            fails.append({"kind": "caller_documents_modified", "detail": "batch %d" % i})
    # the same call made twice in one process gives the same sessions
    seen = {}
    for i, (b, o) in enumerate(zip(case["batches"], obs["batches"])):
        key = repr({k: v for k, v in b.items() if k not in ("variant", "scenario")})
        if key in seen and o != obs["batches"][seen[key]]:
            fails.append({"kind": "repeated_call_differs", "detail": "batches %d and %d are the same call" % (seen[key], i)})
        seen.setdefault(key, i)
    return fails


def features(case, obs, C15):
    out = ["stream:tz", "tz:batches:%d" % len(case["batches"])]
    for b, o in zip(case["batches"], obs["batches"]):
        out.append("tz:scenario:" + (b.get("variant") and "variant:" + b["variant"] or b.get("scenario") or "corpus"))
        out.append("tz:bp:" + ("None" if b["bp"] is None else b["bp"]["type"] + ("+fit" if C15._uses_fit(b["bp"]) else "")))
        if o.get("err") is not None:
            out.append("tz:err:" + o["err"])
            continue
        out.append("tz:start:" + b["start"]["tz"][0] + (":fold" if b["start"]["fold"] else ""))
        seen = {}
        for d in b["docs"]:
            for key in ("c", "d"):
                s = d[key]
                out.append("tz:kind:" + s["tz"][0])
                if s["fold"]:
                    out.append("tz:fold1:" + s["tz"][0])
                w = (tuple(s["tz"]), tuple(s["w"]), s.get("us", 0))
                if w in seen and seen[w] != s["fold"]:
                    out.append("tz:both_folds_of_one_reading_in_batch")
                seen.setdefault(w, s["fold"])
            if d["c"]["w"] == d["d"]["w"] and d["c"]["tz"] == d["d"]["tz"] and d["c"]["fold"] != d["d"]["fold"]:
                out.append("tz:doc_connect_disconnect_same_wall")
            if spec_wall(d["d"]) < spec_wall(d["c"]) and spec_instant(d["d"]) >= spec_instant(d["c"]):
                out.append("tz:wall_clock_runs_backwards")
            if spec_offset(d["c"]) != spec_offset(d["d"]):
                out.append("tz:doc_offsets_differ")
            if spec_offset(d["c"]) != spec_offset(b["start"]):
                out.append("tz:offset_differs_from_start")
        for e in o["evs"]:
            st = e["departure"] - e["arrival"]
            out.append("tz:stay:" + ("neg" if st < 0 else "0" if st == 0 else "1" if st == 1 else "many"))
            if e["arrival"] < 0:
                out.append("tz:arrival_negative")
    return out
