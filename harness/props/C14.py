"""C14 — the battery models follow their documented charging laws (ideal: min of three; two-stage:
the solution of ds/dt = min(pilot rate, max rate up to the transition SoC, then declining linearly to
0 at SoC 1); splitting a period; monotone in the period and the pilot; zero pilot; reset)."""
from __future__ import annotations

import math

from core.common import close
from core import impl as I
from props import C03 as B  # shared engine: histories on the real objects, wire format, comparison

ID = "C14"
LEAN_MODULES = ["AcnProofs.C14"]
TIE_MODULES = ["AcnProofs.Lemmas.CodeTieBattery"]
DRIVER = "drv_C14"
REQUIRED_THEOREMS = [
    "Acn.C14.ideal_law", "Acn.C14.ideal_mono", "Acn.C14.zero_pilot", "Acn.C14.docRate_eq",
    "Acn.C14.twoStage_closed_form_regimes", "Acn.C14.twoStage_solves_law", "Acn.C14.twoStage_solves_law_unique",
    "Acn.C14.split_period_soc", "Acn.C14.split_period", "Acn.C14.mono_T", "Acn.C14.mono_pilot",
    "Acn.C14.reset_restores",
]
BUDGET = {"quick": 1500, "thorough": 20000, "search": 12000}
TRUSTED = [
    "numpy.exp (Float.exp on the model side); results compared with 1e-9 abs+rel slack (DESIGN §4)",
    "the oracle's own integrator of the documented ODE (classical RK4 with event location at the kink of the "
    "right-hand side; never uses the exponential closed form), accepted within 1e-9 + 1e-6 of the period's maximal gain",
]
ASSUMPTIONS = [
    "theorems over an ordered field (ideal law, zero pilot) / over R (two-stage closed form, Real.exp); the "
    "implementation computes in doubles (validated by correspondence within 1e-9, not proved)",
    "noise off for the deterministic laws; capacity > 0, init <= capacity, max power > 0, 0 <= ts < 1, pilot >= 0",
]
RULE = ("per case one battery and one relation: law (1-8 calls, each result compared with an independent numerical "
        "integration of the documented ODE / with min-of-three for the ideal and the stepwise model), split (charge T "
        "versus charge a then T-a from the same state; a = T/2 mostly, also tiny, near T and random fractions), monoT "
        "(T1 <= T2), monoP (p1 <= p2 around the maximum current and the regime boundaries), zero_reset (zero pilots and "
        "resets inside histories, with noise).  SoC at 0, ts, pts±eps, the linear/crossing boundary, 1; thorough tier adds a "
        "deterministic grid (21 SoCs x 12 pilots x 4 transition SoCs x 3 periods) for split and monotonicity.  non-trivial = "
        "a two-stage continuous call in the crossing or rampdown regime, or a pair whose two runs take different regimes, or "
        "an ideal call where max power / rate-to-full binds; distinct by case hash")

SL = 1e-9


# ------------------------------------------------------------------ the documented law, integrated numerically

def doc_rate(p0, m, ts, y):
    """SoC per minute: the pilot's rate, capped by the max rate up to ts, then by a max declining to 0 at 1."""
    return min(p0, m if y <= ts else m * (1 - y) / (1 - ts))


def integrate_law(s0, p0, m, ts, T):
    """RK4 on ds/dt = doc_rate(s) over T minutes.  The right-hand side is constant (= c) below the SoC y_k
    where the declining maximum reaches c, so the integrator steps exactly up to that kink (event location)
    and uses RK4 on the remaining, smooth part.  Returns (soc, steps) or (None, 0) when too stiff."""
    c = min(p0, m)
    if c <= 0:
        return s0, 0
    kap = m / (1 - ts)
    yk = 1 - c / kap  # doc_rate has its kink here: m (1 - yk) / (1 - ts) = c
    y = s0
    t = 0.0
    if y < yk:
        dt = min(T, (yk - y) / c)
        y += c * dt
        t = dt
        if t >= T:
            return y, 1
    rem = T - t
    z = kap * rem
    if z > 60:
        return None, 0
    n = max(50, int(z * 40))
    h = rem / n
    f = lambda v: min(c, kap * (1 - v))  # noqa: E731  (= doc_rate above the kink)
    for _ in range(n):
        k1 = f(y)
        k2 = f(y + 0.5 * h * k1)
        k3 = f(y + 0.5 * h * k2)
        k4 = f(y + h * k3)
        y += h * (k1 + 2 * k2 + 2 * k3 + k4) / 6
    return y, n


# ------------------------------------------------------------------ generation

def _charge(p, V, T, nu=0.0):
    return {"op": "charge", "p": p, "V": V, "T": T, "nu": nu}


def _two(rng, noise=0, calc="continuous"):
    spec = B._gen_batt(rng, "cont" if calc == "continuous" else "step", noise=noise)
    return spec


def _setup(rng, spec):
    V = rng.choice(B.VS)
    T = rng.choice(B.TP)
    p = float(B._gen_pilot(rng, spec, V, T, 0.5 * float(spec["cap"])))
    if p == 0 and rng.random() < 0.8:
        p = 16.0
    spec["init"] = max(0.0, B._init_for(rng, spec, (p, V, T)))
    return p, V, T


def _gen_case(rng):
    r = rng.random()
    if r < 0.30:
        kind = rng.choice(["cont", "cont", "cont", "ideal", "step"])
        spec = B._gen_batt(rng, kind, noise=0)
        p, V, T = _setup(rng, spec)
        ops = [_charge(p, V, T)]
        for _ in range(rng.randint(0, 7)):
            V2 = V if rng.random() < 0.7 else rng.choice(B.VS)
            T2 = T if rng.random() < 0.7 else rng.choice(B.TP)
            ops.append(_charge(float(B._gen_pilot(rng, spec, V2, T2, 0.7 * float(spec["cap"]))), V2, T2))
        return {"batt": spec, "rel": "law", "runs": [ops]}
    if r < 0.55:
        spec = _two(rng)
        p, V, T = _setup(rng, spec)
        c = rng.random()
        a = T / 2 if c < 0.5 else T * rng.choice([0.02, 0.1, 0.25, 0.75, 0.9, 0.98]) if c < 0.75 else T * rng.uniform(0.02, 0.98)
        if min(a, T - a) < 0.1:
            # rate = dsoc * capacity / (period/60) * 1000 / V amplifies the last-bit differences of exp by 1/period;
            # below 0.1 min they exceed the 1e-9 slack (DESIGN §4) without being a defect
            a = T / 2
        return {"batt": spec, "rel": "split", "runs": [[_charge(p, V, T)], [_charge(p, V, a), _charge(p, V, T - a)]]}
    if r < 0.70:
        spec = _two(rng)
        p, V, T = _setup(rng, spec)
        T2 = T * rng.choice([1, 1 + 1e-9, 1 + 1e-6, 1.01, 1.5, 2, 12, rng.uniform(1, 3)])
        return {"batt": spec, "rel": "monoT", "runs": [[_charge(p, V, T)], [_charge(p, V, T2)]]}
    if r < 0.88:
        spec = _two(rng)
        p, V, T = _setup(rng, spec)
        p2 = p * rng.choice([1, 1 + 1e-9, 1 + 1e-6, 1.001, 1.1, 2, 10]) + rng.choice([0, 0, 1e-9, 1, 8])
        if rng.random() < 0.1:
            p = 0.0
        return {"batt": spec, "rel": "monoP", "runs": [[_charge(p, V, T)], [_charge(p2, V, T)]]}
    # zero pilots and resets inside histories, any battery, with noise
    spec = B._gen_batt(rng)
    p, V, T = _setup(rng, spec)
    ops = []
    for _ in range(rng.randint(2, 10)):
        c = rng.random()
        if c < 0.35:
            ops.append(_charge(0 if rng.random() < 0.8 else -0.0, rng.choice(B.VS), rng.choice(B.TP), B._gen_nu(rng, spec, T)))
        elif c < 0.6:
            cap = float(spec["cap"])
            ops.append({"op": "reset", "init": None if rng.random() < 0.6 else round(rng.uniform(0, cap), 3) if rng.random() < 0.8 else cap + 1})
        else:
            ops.append(_charge(float(B._gen_pilot(rng, spec, V, T, 0.5 * float(spec["cap"]))), V, T, B._gen_nu(rng, spec, T)))
    ops.append({"op": "reset", "init": None})
    return {"batt": spec, "rel": "zero_reset", "runs": [ops]}


def _grid():
    """deterministic small-scope enumeration (thorough tier): split + monotonicity on a grid"""
    out = []
    for ts in (0.0, 0.5, 0.8, 0.95):
        for T in (1, 5, 60):
            for i in range(21):
                soc = i / 20
                for p in (1e-3, 2, 6, 8, 16, 24, 32, 33.6, 33.7, 48, 80, 400):
                    spec = {"two": True, "cap": 40, "maxp": 7, "ts": ts, "noise": 0, "calc": "continuous", "init": 40 * soc}
                    out.append({"batt": spec, "rel": "split", "runs": [[_charge(p, 208, T)], [_charge(p, 208, T / 2), _charge(p, 208, T - T / 2)]]})
                    out.append({"batt": spec, "rel": "monoP", "runs": [[_charge(p, 208, T)], [_charge(p * 1.05 + 0.5, 208, T)]]})
                    out.append({"batt": spec, "rel": "monoT", "runs": [[_charge(p, 208, T)], [_charge(p, 208, T * 1.3)]]})
    return out


def corpus():
    d = {"two": True, "cap": 100, "maxp": 7, "ts": 0.8, "noise": 0, "calc": "continuous"}
    return [
        # the five pinned numeric outputs of tests/test_battery.py live in these regimes: linear, crossing, rampdown
        {"batt": dict(d, init=0), "rel": "law", "runs": [[_charge(32, 208, 5), _charge(16, 208, 5)]]},
        {"batt": dict(d, init=79.9), "rel": "split", "runs": [[_charge(32, 208, 5)], [_charge(32, 208, 2.5), _charge(32, 208, 2.5)]]},
        {"batt": dict(d, init=85), "rel": "split", "runs": [[_charge(32, 208, 5)], [_charge(32, 208, 1), _charge(32, 208, 4)]]},
        {"batt": dict(d, init=79.9), "rel": "monoP", "runs": [[_charge(33.6, 208, 5)], [_charge(33.7, 208, 5)]]},
        {"batt": dict(d, init=79.9), "rel": "monoT", "runs": [[_charge(32, 208, 5)], [_charge(32, 208, 60)]]},
        {"batt": dict(d, init=50, noise=2.0), "rel": "zero_reset", "runs": [[_charge(0, 208, 5, 3.0), _charge(16, 208, 5, 0.1), {"op": "reset", "init": None}, {"op": "reset", "init": 101}]]},
        {"batt": {"two": False, "cap": 40, "maxp": 7, "init": 39.9}, "rel": "law", "runs": [[_charge(16, 208, 5), _charge(32, 208, 5), _charge(80, 208, 5)]]},
    ]


def generate(rng, n, tier):
    out = [_gen_case(rng) for _ in range(n)]
    if tier == "thorough":
        out.extend(_grid())
    return out


def search(rng, n):
    return [_gen_case(rng) for _ in range(n)] + _grid()


# ------------------------------------------------------------------ implementation / model

def run_impl(case):
    return B.run_runs(case["batt"], False, case["runs"])


def model_request(case):
    return B.wire(case["batt"], False, case["runs"])


def compare(case, obs, model):
    return B.compare_runs(obs, model, case["runs"])


# ------------------------------------------------------------------ property oracle

def _le(x, y):
    return x <= y + SL + SL * max(abs(x), abs(y))


def _law_checks(spec, ops, steps, fails, stats=None):
    kind = B.kind_of(spec)
    cap, maxp = float(I.num(spec["cap"])), float(I.num(spec["maxp"]))
    noise = float(I.num(spec.get("noise", 0) or 0))
    ts = float(I.num(spec.get("ts", 0.8)))
    for i, (o, st) in enumerate(zip(ops, steps)):
        b = st["before"]
        w = f"op {i} {o} on {kind} battery {spec} (charge before {b['charge']!r})"
        if o["op"] == "reset":
            init = o.get("init")
            if init is not None and float(I.num(init)) > cap:
                if st["err"] != "ValueError" or st["charge"] != b["charge"]:
                    fails.append({"kind": "reset_guard", "detail": f"{w}: err={st['err']} charge={st['charge']}"})
            elif st["err"] is not None or st["charge"] != (float(I.num(spec["init"])) if init is None else float(I.num(init))) or st["power"] != 0:
                fails.append({"kind": "reset_does_not_restore", "detail": f"{w}: err={st['err']} charge={st['charge']!r} power={st['power']!r} (init {spec['init']!r})"})
            continue
        p, V, T = float(I.num(o["p"])), float(I.num(o["V"])), float(I.num(o["T"]))
        if st["err"] is not None or V <= 0 or T <= 0 or p < 0 or cap <= 0:
            continue
        if p == 0:
            # DESIGN §4: numbers with the 1e-9 slack — a battery filled to capacity can hold capacity + 1 ulp, and
            # min(0, max, (capacity − charge)·…) is then −1e-14 A, not 0 (rounding, not a delivery)
            if abs(st["rate"]) > 1e-9 or not close(st["charge"], b["charge"]) or abs(st["power"]) > 1e-9:
                fails.append({"kind": "zero_pilot_delivers", "detail": f"{w}: rate {st['rate']!r}, charge {b['charge']!r} -> {st['charge']!r}, power {st['power']!r}"})
            continue
        if noise > 0:
            continue
        # rate, power and stored energy are one quantity in three units
        if not close(st["power"], st["rate"] * V / 1000) or not close(st["charge"], b["charge"] + st["power"] * (T / 60)):
            fails.append({"kind": "units_inconsistent", "detail": f"{w}: rate {st['rate']!r} power {st['power']!r} charge {b['charge']!r} -> {st['charge']!r}"})
        pp = p * V / 1000
        rtf = (cap - b["charge"]) / (T / 60)
        if kind == "ideal":
            want = min(pp, maxp, rtf)
            if not close(st["power"], want):
                fails.append({"kind": "ideal_law", "detail": f"{w}: power {st['power']!r}, min(pilot {pp!r}, max {maxp!r}, to-full {rtf!r}) = {want!r}"})
        elif kind == "step":
            s = b["charge"] / cap
            mx = maxp if s < ts else (1 - s) / (1 - ts) * maxp
            want = min(pp, mx, rtf)
            if not close(st["power"], want):
                fails.append({"kind": "stepwise_law", "detail": f"{w}: power {st['power']!r}, expected {want!r}"})
        elif maxp > 0:
            s0 = b["charge"] / cap
            p0 = pp / cap / 60
            m = maxp / cap / 60
            want, n = integrate_law(s0, p0, m, ts, T)
            if stats is not None:
                stats.append("rk4:stiff_abstain" if want is None else "rk4:checked")
            if want is not None:
                tol = SL + 1e-6 * min(p0, m) * T
                if abs(st["charge"] / cap - want) > tol:
                    fails.append({"kind": "two_stage_law", "detail": f"{w}: SoC {s0!r} -> {st['charge'] / cap!r}, integrating the documented law gives {want!r} ({n} RK4 steps, tol {tol:.2e})"})


_STATS = {}  # id(obs) -> what the integrator did (read by features(); obs objects outlive both calls)


def oracle(case, obs):
    fails = []
    stats = _STATS.setdefault(id(obs), [])
    del stats[:]
    spec = case["batt"]
    if obs["ctor"] != B.expected_ctor(spec):
        return [{"kind": "constructor_guard", "detail": f"constructor: {obs['ctor']} expected {B.expected_ctor(spec)}"}]
    if obs["ctor"] is not None:
        return fails
    for ops, steps in zip(case["runs"], obs["runs"]):
        _law_checks(spec, ops, steps, fails, stats)
    rel = case["rel"]
    if rel in ("split", "monoT", "monoP") and all(st["err"] is None for r in obs["runs"] for st in r):
        a = obs["runs"][0][-1]["charge"]
        b = obs["runs"][1][-1]["charge"]
        w = f"battery {spec}: {case['runs'][0]} -> charge {a!r}; {case['runs'][1]} -> charge {b!r}"
        if rel == "split":
            if not close(a, b):
                fails.append({"kind": "split_period_differs", "detail": w})
            # delivered ampere-minutes add up as well
            T = float(case["runs"][0][0]["T"])
            am1 = obs["runs"][0][0]["rate"] * T
            am2 = sum(st["rate"] * float(o["T"]) for o, st in zip(case["runs"][1], obs["runs"][1]))
            if not close(am1, am2):
                fails.append({"kind": "split_period_differs", "detail": w + f"; ampere-minutes {am1!r} vs {am2!r}"})
        elif not _le(a, b):
            fails.append({"kind": "not_monotone_in_T" if rel == "monoT" else "not_monotone_in_pilot", "detail": w})
    return fails


def _regimes(case, obs):
    out = []
    for ops, steps in zip(case["runs"], obs["runs"]):
        for o, st in zip(ops, steps):
            if o["op"] == "charge" and st["err"] is None:
                out.append(B.regime(case["batt"], st["before"]["charge"], float(I.num(o["p"])), float(I.num(o["V"])), float(I.num(o["T"]))))
    return out


def nontrivial(case, obs):
    if obs["ctor"] is not None:
        return False
    rg = _regimes(case, obs)
    if any(r.startswith(("cont:crossing", "cont:rampdown", "ideal:maxpower", "ideal:full", "step:hi")) for r in rg):
        return True
    return case["rel"] in ("split", "monoT", "monoP") and len(set(rg)) > 1


def features(case, obs):
    out = ["rel:" + case["rel"], "kind:" + B.kind_of(case["batt"])]
    if obs["ctor"] is not None:
        return out + ["ctor:" + obs["ctor"]]
    rg = _regimes(case, obs)
    out += ["regime:" + r for r in rg]
    if case["rel"] in ("split", "monoT", "monoP"):
        out.append(case["rel"] + ":" + "->".join(r.replace("cont:", "") for r in rg))
    out += _STATS.get(id(obs), [])
    for r in obs["runs"]:
        for st in r:
            if st["err"]:
                out.append("err:" + st["err"])
    return out
