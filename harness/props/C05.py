"""C05 — the scheduler is invoked exactly when required and sees the true, isolated state.

Every case is run TWICE on the real Simulator with the same scripted schedule σ (or the same real
algorithm): once with a RECORDING scheduler wrapper, once with a RECORDING + VANDALISING one.  At
every call the wrapper records everything the scheduler can see through the Interface (and the
ground truth read directly from the simulator / network objects at that moment); the vandal then
rewrites every field of every SessionInfo it was handed, scribbles in place over every array of
InfrastructureInfo, mutates every list / dict returned by the interface getters and the deprecated
`active_evs` EV copies (charge(), reset(), attribute overwrites), and returns σ.

correspondence: the vandalised run == `Sim.run` given σ (trajectory) and the recorded views ==
`Sim.runViews`, the InfrastructureInfo of every invocation == `Sim.infraInfoAt` (drv_C05); oracle: invocation periods == the set computed from the event timestamps and
max_recompute, at most once per period, after the period's events, every recorded view == ground
truth, vandalised run == clean run.

Beyond one run() over plug-in / unplug / recompute events the scenarios have three more dimensions:
 * `others`: events of a type `_process_event` has no branch for (the base acnsim.Event, user subclasses with
   default or finite precedence), in the constructor queue or pushed with add_event afterwards — in the
   period of a plug-in / unplug / RecomputeEvent, alone, after everything else.  They keep the loop going and
   appear in event_history, and are no reason for an invocation (model: `Sim.runI`, AcnModel/Ignored.lean).
 * the Interface is ALSO asked from outside schedule() (`pre_query`: before run(); always between two run()s
   and after the last one of a staged case) and asked AGAIN at the end of every invocation, after the vandal
   has been at work: every answer, at any time, is the ground truth of that moment.
 * `splits`: run() in stages — the events from a threshold on are withheld, added with add_events to the
   FINISHED simulation, and run() is called again (T = 0: constructed with an empty queue).  Well-formed when
   every withheld event lies at or after the period where the previous run() stops (`staging_ok`): then the
   staged history must be, period by period, the history of the same events handed over at once.

 * `net_edits`: what the scheduler's view is a view OF is edited BETWEEN invocations, on the live objects of the
   same Simulator — `ChargingNetwork.update_constraint` keeping the name (a new limit / new coefficients on the
   last, on another, on every constraint), remove + re-add under the old name, rename, add, remove, nothing (control);
   the tariff in `Simulator.signals` replaced; the `estimated_departure` of a connected EV revised — from the
   network's public `post_charging_update` hook of a period (in force from the next period on), before the first
   run() (after the Interface was asked), or between two run()s of a staged case.  The ground truth of every
   answer of the Interface is the case's OWN edit history, as far as the harness had applied it at that moment,
   replayed on a description kept by the oracle and on a FRESH ChargingNetwork — never what the Interface under
   test says: nothing the Interface hands out may be older than the last edit (model: `Sim.infraInfoAt`,
   AcnModel/NetEdits.lean; prices and estimated departures: oracle only).

Three further dimensions (session 4):
 * `interrupt` = {"at": [k…], "how": "rerun" | "json"}: the scheduler RAISES when it is entered in period k (event periods,
   timer periods, period 0 before anything was ever scheduled, quiet periods = never fires, the last period); the harness
   then calls run() AGAIN on the same object, or writes the simulator with to_json(), loads it with Simulator.from_json(),
   hands the loaded simulator the SAME algorithm object (update_scheduler) and run()s it.  The invocation periods of the
   COMPLETED simulation must be exactly the required ones with the raising period invoked again on resume (once), the
   recompute request of an event period (`_resolve`, `_last_schedule_update`) must survive the abort and the save / load,
   and every view after the resume must be the true one (ground truth of the LOADED simulator, the final trajectory, and
   the views of an UNINTERRUPTED twin run of the same case).  Model: `Sim.runResume` (AcnModel/SimResume.lean).
 * `step_prefix` = {"scheds": [<sched>…], "json": bool}: the simulation is driven by Simulator.step(sched) for a prefix
   (one call per entry), then (optionally after a JSON round trip) continued with run().  The step() contract — the
   schedule answers the pending recompute request, the call advances to the next period in which a recompute is due (the
   next event period; exactly one period for max_recompute <= 1), returns event_queue.empty() — and the invocation periods
   of the following run() are judged by the oracle; model: `Sim.stepsThenRun`.
 * `vandal` = "methods": the vandal uses ONLY state-changing METHODS of the deprecated `active_evs` copies and of their
   batteries (ev.charge what-if, ev.reset, battery.charge, battery.reset) — no attribute assignment: the copies must not
   share the battery with the real EV.

Two further classes of legal use (session 10):
 * `noops`: EVENTS THAT CHANGE NOTHING.  An UnplugEvent queued by the user through the public API (constructor queue or
   add_event) for a session BEFORE its departure (early departure: the UnplugEvent the simulator queues itself at `ev.departure`
   then finds the station empty, or another EV), for a session that has left, for an EV that never arrived; `network` =
   "stochastic": the contrib StochasticNetwork, where the departure of an EV that is still WAITING changes no station.  Each is
   an event of its period: the scheduler must be invoked there although the network did not change (oracle: the timestamp-only
   reference; most of these periods have no other event and max_recompute is None or 7).  Model: `Sim.Cfg` cannot express a
   user-queued UnplugEvent; one that detaches nobody (ghost / after) is handed over as a RecomputeEvent of the same timestamp,
   early departures and the StochasticNetwork are judged by the oracle alone.
 * `clone` / `interrupt.how == "copy"`: COPIED SIMULATORS.  `copy.deepcopy(sim)` of a not-yet-run simulator, of one driven by
   step() for a prefix, of one whose run() was aborted by the scheduler; run() on the COPY.  At every invocation the copy's
   scheduler must see the COPY's period, datetime, sessions, rates (same-moment ground truth read from the copy); the copy's
   trajectory and views == those of the identically built simulator that was never copied; the ORIGINAL, completed after the
   copy has finished, goes through the same history with the same views (neither disturbs the other).

`Interface.get_constraints()` returns the network's live arrays BY DESIGN (DESIGN §8) — not attacked, but READ at
every invocation and judged like the InfrastructureInfo.
`Interface.infrastructure_info()` used to raise on a constraint-free network (defect F3, property C06,
repaired in /repo): it now hands out a 0 x N view, which is judged like any other view.
"""
from __future__ import annotations

import copy
import itertools
import math
import warnings
from datetime import timedelta

import numpy as np

from acnportal.acnsim.network.current import Current
from acnportal.acnsim.network.charging_network import ChargingNetwork
from acnportal.acnsim.simulator import Simulator
from acnportal.acnsim.events import Event, EventQueue, PluginEvent, RecomputeEvent, UnplugEvent

from core import simcase as S
from core import impl as I
from core.common import b2f, f2b, close

ID = "C05"
LEAN_MODULES = ["AcnProofs.C05", "AcnProofs.C05Resume"]
TIE_MODULES = ["AcnProofs.Lemmas.CodeTieSim"]
DRIVER = "drv_C05"
REQUIRED_THEOREMS = [
    "Acn.C05.head_init", "Acn.C05.lastUpd_after_events", "Acn.C05.lastUpd_at_head", "Acn.C05.run_is_trace",
    "Acn.C05.invoked_iff", "Acn.C05.invoked_only_in_trace", "Acn.C05.invoked_at_most_once",
    "Acn.C05.invoked_after_events", "Acn.C05.invoked_iff_valid", "Acn.C05.run_invoked_iff",
    "Acn.C05.views_faithful", "Acn.C05.sched_sees_handed_view", "Acn.C05.view_true", "Acn.C05.view_true_valid",
    "Acn.C05.isolation_model", "Acn.C05.isolation_run", "Acn.C05.infra_static", "Acn.C05.sim_invoked_core",
    "Acn.C05.run_invoked_iff_fuelFor", "Acn.C05.active_order", "Acn.C05.infra_true", "Acn.C05.infra_ids_named",
    "Acn.C05.invoked_at_most_once_any_guard", "Acn.C05.runI_nil", "Acn.C05.ignored_run_is_trace",
    "Acn.C05.invoked_at_most_once_ignored", "Acn.C05.runI_invoked_iff", "Acn.C05.runI_invoked_iff_fuelForI",
    "Acn.C05.simI_invoked_core", "Acn.C05.views_faithful_ignored", "Acn.C05.isolation_run_ignored",
    "Acn.C05.infra_at_true", "Acn.C05.infra_at_static", "Acn.C05.infra_at_before", "Acn.C05.infra_at_congr",
    "Acn.C05.infra_at_between", "Acn.C05.infra_at_relimit_last",
    # interrupted / saved / resumed runs, step() prefixes (AcnProofs/C05.lean, AcnProofs/C05Resume.lean)
    "Acn.C05.resume_invoked_record", "Acn.C05.resume_invoked_iff", "Acn.C05.step_pass_contract", "Acn.C05.step_loop_test",
    "Acn.C05.step_exactly_one_period", "Acn.C05.step_then_run_invoked",
    "Acn.C05.resume_sim_is_core", "Acn.C05.resume_invoked_sim", "Acn.C05.json_resume_invoked", "Acn.C05.resume_views_true",
]
BUDGET = {"quick": 350, "thorough": 4000, "search": 1200}
TRUSTED = ["copy.deepcopy / numpy array copy semantics (the isolation half is validated by the vandalising "
           "scheduler, not proved: a pure model cannot exhibit aliasing)",
           "CPython heapq contract (a <-minimal entry is popped); dict insertion order",
           "the recording wrapper reads ground truth from private attributes of Simulator / ChargingNetwork / EVSE / EV",
           "json / pydoc.locate as used by to_json / from_json (the harness classes JGuardNet / MarkerEvent are located by module path)"]
ASSUMPTIONS = ["trigger theorems: none on the configuration (any sessions, timestamps, schedulers, failing or not); the "
               "closed form `event at t` needs Valid (distinct ids, registered stations, 0<=arrival<departure, "
               "non-overlapping per station, recompute timestamps >= 0)",
               "isolation is claimed for what the scheduler is HANDED: active_sessions(), infrastructure_info(), "
               "active_evs copies, the dicts/lists/arrays of the other getters — not for get_constraints() (live by design)",
               "last_applied_pilot_signals is empty while iteration-1 <= 0 (follows the code; DESIGN §8)",
               "events of a type the simulator has no handler for are IGNORED (follows the code: no invocation, no state change, "
               "recorded in event_history, the run lasts up to their timestamp); the Lean model carries them as a list of timestamps "
               "that only enters the loop condition (Sim.runI), not as a fourth event kind: their position inside event_history and "
               "the matrix widths DURING a run (get_last_timestamp over the real queue) are not modelled — the final shapes are",
               "staged runs are compared with the model of the same events handed over at once (well-formed staging only); a run with "
               "ignored-type events or stages that aborts is judged by the oracle alone",
               "edits between invocations (net_edits): the edit history is an INPUT of the model, each entry with the first period in "
               "which it is in force (0 = before run(), p+1 = post_charging_update hook of period p, h = between two run()s the first "
               "of which stopped at h); the model covers the constraint part of InfrastructureInfo in every period (Sim.infraInfoAt) — "
               "a replaced tariff (get_prices / get_demand_charge) and a revised estimated_departure are judged by the oracle alone; "
               "the trajectory does not depend on the constraints (an infeasible schedule is only warned about), so it is compared as "
               "before; the oracle's ground truth is the case's own history as far as the HARNESS had applied it (its own log), replayed "
               "in plain Python and on a fresh ChargingNetwork; stations are not registered / unregistered mid-run (the Simulator's "
               "matrices have one row per station of the construction); Simulator.update_scheduler is exercised with the SAME "
               "algorithm object only (after from_json)",
               "interrupted / resumed runs: the interruption is a scheduler exception raised inside schedule() (after the recording "
               "hook has read the view), each listed period once; resumed by run() on the same object or by to_json -> from_json -> "
               "update_scheduler(same algorithm object) -> run(), with `signals` handed over by the harness (not JSON-serialisable, "
               "documented); the model (`Sim.runResume`) treats the JSON round trip as the identity on the state (C09: decode_encode, "
               "crash_json_resume_eq; theorem json_resume_invoked) and covers the plain queue and one stage — interrupted runs with "
               "ignored-type events or stages are judged by the oracle (reference on the timestamps + uninterrupted twin run) alone",
               "NOT judged (observation reported to the maintainer): run() aborted by the scheduler in a period in which the LAST queued "
               "event — of a type the simulator ignores, alone in its period — had just been popped and the invocation was due to "
               "max_recompute only: the queue is empty and `_resolve` is false, so the second run() returns at once and that period is "
               "never simulated (the F7 repair keeps the loop alive through `_resolve`, which such an event does not set)",
               "step() prefixes: the contract is the REPAIRED step() (F17): one pass always, then on to the next period in which a "
               "recompute is due; step() applies the events of period t AFTER the trip of period t-1, so an event with timestamp 0 is "
               "processed late, at iteration 1 (SimStep.lean; not part of any property): prefixes over such scenarios, and prefixes "
               "combined with ignored-type events or stages, are outside the oracle's closed form (model + same-moment ground truth "
               "only); the theorems `step_then_run_invoked` carry the corresponding hypothesis `NoOverdue`",
               "events that change nothing (noops): the oracle's reference counts EVERY processed UnplugEvent as an event of its period, "
               "whether or not somebody was detached (timestamp-only rule); occupancy / trajectory are judged on the layout that actually "
               "takes place (a session ends at the first user-queued UnplugEvent inside its stay); Sim.Cfg has no field for a user-queued "
               "UnplugEvent: one that detaches nobody (never arrived / already gone) is handed to the model as a RecomputeEvent of the same "
               "timestamp (same effect on `_resolve` and the network; the precedence inside the period and `_last_schedule_update`, which "
               "the invocation of the same period overwrites, differ — hence not with interruptions, step() prefixes or aborted runs), early "
               "departures and the contrib StochasticNetwork (random station, waiting queue; random.choice seeded per case) are judged by "
               "the oracle alone (invocation rule, same-moment ground truth, vandalised == clean), not combined with staged runs",
               "copied simulators: copy.deepcopy only (copy.copy of the scheduler is out of scope); the recording / failing hooks of the "
               "harness are plain functions (copied atomically) that read the simulator the harness is CURRENTLY driving; the original of "
               "the FIRST copy is completed after the copy has finished (noise stream and occupancy log rewound to the moment of the copy), "
               "not for staged runs; the model speaks about the uncopied run (a copy is the identity on the state)",
               "vandal = \"methods\": only state-changing METHODS of the active_evs copies and of their batteries are called (no "
               "attribute assignment); the default vandal does both"]
RULE = ("simcase scenario (1-6 stations, 0-25 sessions, back-to-back reuse, simultaneous events) x max_recompute in "
        "{None,1,2,3,7,(0)} x 0-4 extra RecomputeEvents (also on event periods and after the last departure) x 0-3 extra "
        "constraints (subsets of stations, signed / fractional coefficients, default / duplicate names); scripted "
        "multi-period schedulers (model + oracle) or real algorithms (oracle only); 12% malformed (overlap, dep<=arr, "
        "negative timestamps = late events, bad schedules, scheduler crash); every case runs clean AND vandalised; "
        "x ignored-type events in ~1/3 of the cases (1-4 of base acnsim.Event / user subclass / user subclass with finite precedence "
        "-1, 5, 15, 25; 55% in the period of a plug-in / unplug / RecomputeEvent, 15% after the last known event = run-extending, rest "
        "anywhere; 70% in the constructor queue, 30% pushed with add_event) x Interface asked before run() in ~1/4 x staged runs in ~1/4 "
        "(threshold admitted by the layout with the later part moved to start exactly where the first run() stops in half of them, or "
        "a second wave of 1-3 sessions appended 0-3 periods after the end, or T = 0 = constructed with an empty queue; 1 in 25 with a "
        "threshold INSIDE the history = late additions, malformed); the Interface is asked again at the end of every invocation and "
        "between / after the run()s of a staged case; "
        "x EDITS BETWEEN INVOCATIONS in 9 of 25 cases (1-4 entries; 12% before the first run() — in 70% of those after the Interface "
        "was asked —, with staging 28% between two run()s, else from the post_charging_update hook: 2/3 in the period just before "
        "an event period, rest anywhere up to the last timestamp; kinds: update_constraint keeping the name with a new limit on the "
        "LAST constraint (x4), on any, new coefficients (same or new limit) on the last / on any, every constraint once in order, "
        "remove + re-add under the old name (any / last), rename, add (fresh / default / taken name), remove 1-2, nothing, the "
        "tariff replaced (new signals dict or in place), estimated_departure of 1-2 EVs revised; the constraint list is tracked so "
        "that every op names an existing constraint; real algorithms included) + 7 corpus cases (single site limit re-rated twice "
        "from the hook x max_recompute None/1/3; three constraints through every kind in turn; a finished simulation re-rated, "
        "extended and resumed); get_constraints() is read at every invocation; "
        "exact-boundary stream (8% + 12 corpus cases): sessions whose remaining demand is float-EXACTLY 1e-3 kWh, one ulp "
        "above and one ulp below (from the plug-in on, or after 1-3 charging periods on a (V, period, pilot) grid point whose "
        "arithmetic the generator verifies to be exact), then held there while connected; "
        "thorough adds EVERY valid layout with <=3 sessions on <=2 stations within horizon 5 x max_recompute in "
        "{None,1,2,3} x a cycling recompute-event set (5728 cases; clean twin for every 8th; every 3rd with a cycling set of "
        "ignored-type events, every 5th with the Interface asked before run(), every 4th with 1-4 edits between invocations: a limit-only "
        "update of the last constraint + a cycling second kind); "
        "x INTERRUPTED / RESUMED in 8 of 25 cases (1-3 raising periods: 35% an event period, 25% a timer-only period, 10% period 0, "
        "15% the last invocation period, rest anywhere = may never fire; resumed in place or through to_json / from_json / "
        "update_scheduler, half each; combined with ignored-type events, stages, edits, real algorithms; an uninterrupted twin run "
        "of every interrupted case) + 57 corpus cases (the Lean example x max_recompute None/1/2/3 x raising in an event / timer / "
        "quiet / last period, in period 0 before anything was scheduled, in two or three periods x in place / JSON); "
        "x step() PREFIX in 4 of 25 cases (1-5 calls with generated schedules, half with a JSON round trip before run(); all "
        "timestamps moved to >= 1 in 85%; one residue combined with an interruption of the run() that follows) + 24 corpus cases; "
        "x vandal restricted to state-changing METHODS of the active_evs copies and their batteries in 1 of 3 cases; "
        "thorough: every 7th exhaustive layout interrupted (cycling periods, alternately in place / JSON), every 11th with a step() "
        "prefix of 1-3 calls; "
        "x EVENTS THAT CHANGE NOTHING in 6 of 25 cases (1-3 user-queued UnplugEvents: 50% an early departure — 70% in a period without any "
        "other event, 40% with ANOTHER session taking the station before the nominal departure, so that the automatic UnplugEvent finds "
        "it —, 20% a second unplug after the session has left, 30% for an EV that never arrived; constructor queue 60% / add_event; "
        "max_recompute None or 7 in 3 of 4) + every 50th case on the contrib StochasticNetwork (1-2 stations, 3-6 overlapping sessions: "
        "waiting EVs leave without ever being connected or are swapped in) + 24 corpus cases; "
        "x COPIED SIMULATORS in 8 of 25 cases (deepcopy before the first run() / after the step() prefix: 4 of 25; after every abort, "
        "interrupt.how = copy: the interrupted cases of 4 residues; the original completed afterwards; an uncopied twin) + 20 corpus cases; "
        "non-trivial = >=3 invocations, at least one triggered by max_recompute alone or at least one period without "
        "invocation, and >=1 view with an active session; distinct by hash of the case")

MR_CHOICES = [None, 1, 2, 3, 7]


# ------------------------------------------------------------------ recording / vandalising wrapper


def _f(x):
    return I.enc(float(x))


def _lst(a):
    return [_f(x) for x in np.asarray(a).ravel().tolist()]


def _sess_rec(s):
    return {"session": s.session_id, "station": s.station_id, "requested": _f(s.requested_energy),
            "delivered": _f(s.energy_delivered), "arrival": int(s.arrival), "departure": int(s.departure),
            "est": int(s.estimated_departure), "current_time": int(s.current_time),
            "remaining_demand": _f(s.remaining_demand), "remaining_time": int(s.remaining_time),
            "arrival_offset": int(s.arrival_offset), "min_rates": _lst(s.min_rates), "max_rates": _lst(s.max_rates)}


def _infra_rec(info):
    cm = info.constraint_matrix
    return {"constraint_matrix": [[_f(x) for x in row] for row in np.asarray(cm).tolist()],
            "constraint_limits": _lst(info.constraint_limits), "phases": _lst(info.phases),
            "voltages": _lst(info.voltages), "constraint_ids": [str(x) for x in info.constraint_ids],
            "station_ids": [str(x) for x in info.station_ids], "max_pilot": _lst(info.max_pilot),
            "min_pilot": _lst(info.min_pilot), "allowable": [_lst(a) for a in info.allowable_pilots],
            "is_continuous": [bool(x) for x in np.asarray(info.is_continuous).tolist()]}


def _truth(sim, ctx, light=False):
    """Ground truth read directly from the simulator / network objects (never through the Interface)."""
    net = sim.network
    t = int(sim._iteration)
    act = []
    evses = list(net._EVSEs.values())
    for idx, evse in enumerate(evses):
        ev = evse._ev
        if ev is not None and (ev._requested_energy - ev._energy_delivered) > 1e-3:
            dep, arr = int(ev._departure), int(ev._arrival)
            rt = max(min(dep - arr, dep - t), 0)
            act.append({"session": ev._session_id, "station": ev._station_id, "requested": _f(ev._requested_energy),
                        "delivered": _f(ev._energy_delivered), "arrival": arr, "departure": dep,
                        "est": int(ev._estimated_departure), "current_time": t,
                        "remaining_demand": _f(ev._requested_energy - ev._energy_delivered),
                        "remaining_time": rt, "arrival_offset": max(arr - t, 0),
                        "min_rates": [_f(0)] * rt, "max_rates": [_f(float("inf"))] * rt,
                        "_idx": idx, "_rate": _f(ev._current_charging_rate)})
    i = t - 1
    lp = {a["session"]: _f(sim.pilot_signals[a["_idx"], i]) for a in act if a["arrival"] <= i} if i > 0 else {}
    rates = {a["session"]: a["_rate"] for a in act}
    q = [int(ts) for ts, _ in sim.event_queue.queue]
    hist = [int(e.timestamp) for e in sim.event_history]
    out = {"t": t, "datetime": (sim.start + timedelta(minutes=sim.period) * t).isoformat(),
           "sessions": [{k: v for k, v in a.items() if not k.startswith("_")} for a in act],
           "last_pilots": lp, "last_rates": rates, "peak": _f(sim.peak),
           "queue_min": min(q) if q else None, "hist_max": max(hist) if hist else None, "hist_len": len(hist),
           "connected": [(e._ev._session_id if e._ev is not None else None) for e in evses],
           "connected_remaining": [(_f(e._ev._requested_energy - e._ev._energy_delivered) if e._ev is not None else None)
                                   for e in evses],
           "connected_batt": [([_f(e._ev._battery._current_charge), _f(e._ev._battery._current_charging_power),
                                _f(e._ev._battery._capacity), _f(e._ev._energy_delivered)] if e._ev is not None else None)
                              for e in evses],
           "resolve": bool(sim._resolve),
           "last_upd": None if sim._last_schedule_update is None else int(sim._last_schedule_update)}
    if True:
        # a constraint-free network is described by a 0 x N view (defect F3, repaired in /repo)
        cm = net.constraint_matrix
        out["infra"] = {"constraint_matrix": [] if cm is None else [[_f(x) for x in row] for row in np.asarray(cm).tolist()],
                        "constraint_limits": _lst(net.magnitudes), "phases": _lst(net._phase_angles),
                        "voltages": _lst(net._voltages), "constraint_ids": [str(x) for x in net.constraint_index],
                        "station_ids": list(net._EVSEs.keys()),
                        "max_pilot": [_f(e.max_rate) for e in evses], "min_pilot": [_f(e.min_rate) for e in evses],
                        "allowable": [_lst(e.allowable_pilot_signals) for e in evses],
                        "is_continuous": [bool(e.is_continuous) for e in evses]}
    else:
        out["infra"] = None
    tar = None if light else (sim.signals or {}).get("tariff")
    if tar is not None:
        try:
            out["prices"] = [_f(x) for x in tar.get_tariffs(sim.start + timedelta(minutes=sim.period) * t, 3, sim.period)]
        except Exception as e:  # noqa: BLE001
            out["prices"] = "err:" + type(e).__name__
        try:
            out["prices0"] = [_f(x) for x in tar.get_tariffs(sim.start, 2, sim.period)]
        except Exception as e:  # noqa: BLE001
            out["prices0"] = "err:" + type(e).__name__
        try:
            out["demand_charge"] = _f(tar.get_demand_charge(sim.start + timedelta(minutes=sim.period) * t))
        except Exception as e:  # noqa: BLE001
            out["demand_charge"] = "err:" + type(e).__name__
    return out


def _record(algo, iface, sessions, sim, ctx, light=False):
    """Everything a scheduler can see through the Interface at this moment + the ground truth of the same
    moment.  light=True (the RE-QUERY at the end of an invocation, after the vandal has been at work): the
    dynamic part and the InfrastructureInfo only."""
    rec = {"t": int(iface.current_time), "datetime": iface.current_datetime.isoformat(),
           "sessions": [_sess_rec(s) for s in (iface.active_sessions() if sessions is None else sessions)],
           "sessions_again": [_sess_rec(s) for s in iface.active_sessions()],
           "last_pilots": {k: _f(v) for k, v in iface.last_applied_pilot_signals.items()},
           "last_rates": {k: _f(v) for k, v in iface.last_actual_charging_rate.items()},
           "peak": _f(iface.get_prev_peak()), "period": _f(iface.period),
           "max_recompute": iface.max_recompute_time}
    with warnings.catch_warnings():
        warnings.simplefilter("ignore")
        evs = iface.active_evs
    rec["active_evs"] = [{"session": e.session_id, "station": e.station_id, "delivered": _f(e.energy_delivered),
                          "rate": _f(e.current_charging_rate), "arrival": int(e.arrival), "departure": int(e.departure),
                          "requested": _f(e.requested_energy)} for e in evs]
    rec["amp_periods"] = None
    # the entries of case["net_edits"] the HARNESS has applied so far (its own log, in application order)
    rec["edits"] = list(ctx.get("applied", []))
    if light:
        try:
            rec["infra"] = _infra_rec(iface.infrastructure_info())
        except AttributeError as e:
            rec["infra"] = None
            rec["infra_err"] = type(e).__name__
        rec["truth"] = _truth(sim, ctx, light=True)
        return rec
    try:
        info = iface.infrastructure_info()
        rec["infra"] = _infra_rec(info)
        rec["getters"] = [{"id": st, "allowable": [bool(iface.allowable_pilot_signals(st)[0]), _lst(iface.allowable_pilot_signals(st)[1])],
                           "max": _f(iface.max_pilot_signal(st)), "min": _f(iface.min_pilot_signal(st)),
                           "V": _f(iface.evse_voltage(st)), "phase": _f(iface.evse_phase(st))} for st in info.station_ids]
        rec["amp_periods"] = [_f(iface.remaining_amp_periods(s)) for s in (sessions if sessions is not None else iface.active_sessions())]
        con = iface.get_constraints()          # live arrays by design: read, never written
        rec["constraints"] = {"constraint_matrix": [] if con.constraint_matrix is None else
                              [[_f(x) for x in row] for row in np.asarray(con.constraint_matrix).tolist()],
                              "constraint_limits": _lst(con.magnitudes), "constraint_ids": [str(x) for x in con.constraint_index],
                              "station_ids": [str(x) for x in con.evse_index]}
    except AttributeError as e:       # (was defect F3 on constraint-free networks; judged as infra_wrong now)
        rec["infra"] = None
        rec["infra_err"] = type(e).__name__
    try:
        rec["prices"] = [_f(x) for x in iface.get_prices(3)]
    except Exception as e:  # noqa: BLE001
        rec["prices"] = "err:" + type(e).__name__
    try:
        rec["prices0"] = [_f(x) for x in iface.get_prices(2, 0)]
    except Exception as e:  # noqa: BLE001
        rec["prices0"] = "err:" + type(e).__name__
    try:
        rec["demand_charge"] = _f(iface.get_demand_charge())
    except Exception as e:  # noqa: BLE001
        rec["demand_charge"] = "err:" + type(e).__name__
    rec["truth"] = _truth(sim, ctx)
    return rec


def _scribble(a):
    """overwrite a numpy array IN PLACE"""
    a = np.asarray(a) if not isinstance(a, np.ndarray) else a
    try:
        if a.dtype == bool:
            a[...] = ~a
        elif a.dtype.kind in "fiu":
            a[...] = -777
        else:
            a[...] = None
    except Exception:  # noqa: BLE001  (read-only / 0-d)
        pass


def _try_mutate(x):
    """mutate a returned object in place where its type allows it (ndarray / list / dict / set /
    bytearray; floats, numpy scalars, datetimes are immutable: an in-place operator rebinds a local)"""
    if isinstance(x, np.ndarray):
        _scribble(x)
        try:
            x.resize((0,), refcheck=False)
        except Exception:  # noqa: BLE001
            pass
    elif isinstance(x, list):
        x.append(-1.0)
        x.reverse()
        del x[:]
    elif isinstance(x, (dict, set)):
        x.clear()
    else:
        try:
            x += 12345          # noqa: F841 — rebinding only, unless the type implements __iadd__ in place
            x *= -1
        except Exception:  # noqa: BLE001
            pass
        for name in list(getattr(x, "__dict__", {})):
            try:
                setattr(x, name, None)
            except Exception:  # noqa: BLE001
                pass


def _vandalise_sessions(lst):
    for s in list(lst):
        try:
            _scribble(s.min_rates)
            _scribble(s.max_rates)
            s.min_rates = np.array([1e9])
            s.max_rates = np.array([-1.0])
            s.station_id = "ZZ-" + str(s.station_id)
            s.session_id = "vandal-" + str(s.session_id)
            s.requested_energy = -1.0
            s.energy_delivered = 1e9
            s.arrival = -5
            s.departure = 10 ** 6
            s.estimated_departure = -7
            s.current_time = 12345
        except Exception:  # noqa: BLE001
            pass
    try:
        lst.append("junk")
        lst.reverse()
        del lst[:]
    except Exception:  # noqa: BLE001
        pass


def _vandalise_infra(info):
    for name in ("constraint_matrix", "constraint_limits", "phases", "voltages", "max_pilot", "min_pilot", "is_continuous"):
        a = getattr(info, name, None)
        if isinstance(a, np.ndarray):
            _scribble(a)
    try:
        for a in info.allowable_pilots:
            if isinstance(a, np.ndarray):
                _scribble(a)
        info.allowable_pilots.append(np.array([1.0]))
        del info.allowable_pilots[:]
        info.constraint_ids.append("junk")
        info.constraint_ids.reverse()
        info.station_ids.reverse()
        info.station_ids.append("junk")
        info._station_ids_dict.clear()
    except Exception:  # noqa: BLE001
        pass
    for name in ("constraint_matrix", "constraint_limits", "phases", "voltages", "max_pilot", "min_pilot", "is_continuous"):
        try:
            setattr(info, name, np.array([]))
        except Exception:  # noqa: BLE001
            pass


def _vandalise_methods(iface):
    """ONLY state-changing METHODS of the deprecated active_evs copies and of their batteries (a what-if charge, a reset,
    the battery's own charge / reset): no attribute is assigned.  Legitimate use of a copy; the real EV and its battery
    must not notice."""
    with warnings.catch_warnings():
        warnings.simplefilter("ignore")
        evs = iface.active_evs
    for e in list(evs):
        try:
            e.charge(32.0, 240.0, 5.0)            # what-if: one period at 32 A
            e.charge(8.0, 208.0, 90.0)
            e._battery.charge(16.0, 208.0, 30.0)
            e.reset()
            e._battery.reset(0.0)
            e._battery.charge(80.0, 240.0, 600.0)   # fills the (copied) battery
            e.charge(6.0, 120.0, 1.0)
            e.update_station_id("ZZ")
        except Exception:  # noqa: BLE001
            pass
    return None


def _vandalise(algo, iface, sessions, schedule, mode=None):
    if mode == "methods":
        return _vandalise_methods(iface)
    _vandalise_sessions(sessions)
    _vandalise_sessions(iface.active_sessions())
    try:
        _vandalise_infra(iface.infrastructure_info())
    except AttributeError:
        pass
    with warnings.catch_warnings():
        warnings.simplefilter("ignore")
        evs = iface.active_evs
    for e in list(evs):
        try:
            e.charge(32.0, 240.0, 5.0)
            e.reset()
            e.charge(16.0, 208.0, 60.0)
            e._battery.charge(12.0, 208.0, 15.0)
            e._battery.reset()
            e._battery.reset(0.0)
            e._battery.charge(9.0, 240.0, 45.0)
            e._energy_delivered = 1e9
            e._current_charging_rate = -3.0
            e.arrival = -1
            e.departure = 10 ** 6
            e.estimated_departure = -2
            e.update_station_id("ZZ")
            e._session_id = "vandal"
            e._requested_energy = 0.0
            e._battery._current_charge = 0.0
            e._battery._capacity = 1.0
            e._battery._max_power = 1e6
        except Exception:  # noqa: BLE001
            pass
    try:
        evs.append("junk")
        del evs[:]
    except Exception:  # noqa: BLE001
        pass
    for d in (iface.last_applied_pilot_signals, iface.last_actual_charging_rate):
        try:
            for k in list(d):
                d[k] = -999.0
            d["junk"] = 1.0
            d.clear()
        except Exception:  # noqa: BLE001
            pass
    try:
        for st in list(iface._simulator.network.station_ids):
            c, al = iface.allowable_pilot_signals(st)
            al.append(-1.0)
            del al[:]
    except AttributeError:
        pass
    for getter in (lambda: iface.get_prices(3), lambda: iface.get_prices(2, 0), iface.get_demand_charge,
                   iface.get_prev_peak, lambda: iface.current_datetime, lambda: iface.period):
        try:
            _try_mutate(getter())
        except Exception:  # noqa: BLE001
            pass
    return None           # σ is returned unchanged (nothing is registered, re-registered or replaced)


class Runaway(Exception):
    """run() went on far beyond the last timestamp of the scenario"""


class GuardNet(S.SnapshotNetwork):
    """SnapshotNetwork that stops a run() that does not terminate (public extension point only)"""
    limit = 10 ** 9
    on_period = None          # callback(p): the harness' scheduled edits of period p (case["net_edits"], at = "hook")

    def post_charging_update(self):
        super().post_charging_update()
        if len(self.occ_log) > self.limit:
            raise Runaway(f"still running in period {len(self.occ_log)}")
        if self.on_period is not None:
            self.on_period(len(self.occ_log) - 1)      # one call per period since period 0: the period just charged


_NET = {"occ": [], "limit": 10 ** 9, "on_period": None}

_STOCH = {}


def _stoch_guard_cls():
    """GuardNet over the contrib StochasticNetwork (random assignment to a free station, waiting queue)"""
    if "cls" not in _STOCH:
        from acnportal.contrib.acnsim.network.stochastic_network import StochasticNetwork

        class StochGuardNet(StochasticNetwork):
            limit = 10 ** 9
            on_period = None

            def __init__(self, *a, **k):
                super().__init__(*a, **k)
                self.occ_log = []

            def post_charging_update(self):
                super().post_charging_update()
                self.occ_log.append([(e.ev.session_id if e.ev is not None else None) for e in self._EVSEs.values()])
                if len(self.occ_log) > self.limit:
                    raise Runaway(f"still running in period {len(self.occ_log)}")
                if self.on_period is not None:
                    self.on_period(len(self.occ_log) - 1)

        _STOCH["cls"] = StochGuardNet
    return _STOCH["cls"]


class JGuardNet(ChargingNetwork):
    """GuardNet WITHOUT instance attributes (log, limit and callback live in the module-level `_NET`), so that to_json /
    from_json treat the object exactly like the plain class (an attribute the generic fallback dumps is never restored:
    an artefact of the harness, DESIGN §14).  One simulation at a time."""

    @property
    def occ_log(self):
        return _NET["occ"]

    def post_charging_update(self):
        _NET["occ"].append([(e.ev.session_id if e.ev is not None else None) for e in self._EVSEs.values()])
        if len(_NET["occ"]) > _NET["limit"]:
            raise Runaway(f"still running in period {len(_NET['occ'])}")
        if _NET["on_period"] is not None:
            _NET["on_period"](len(_NET["occ"]) - 1)


def _net_set(net, key, value):
    if isinstance(net, JGuardNet):
        _NET[key] = value
    else:
        setattr(net, key, value)


def _interrupt(case):
    return case.get("interrupt") or None


def _step_prefix(case):
    return case.get("step_prefix") or None


# ------------------------------------------------------------------ edits between invocations (case["net_edits"])
#
# entry = {"at": "pre" | "hook" | "stage", ["t": p] (hook: period whose post_charging_update applies it),
#          ["k": k] (stage: after the k-th run() returned and the Interface was asked), "kind": <generator's label>,
#          "ops": [ {"op": "update", "name": n, "current": [[station, coeff]…], "limit": x [, "new_name": m]}
#                 | {"op": "remove", "name": n} | {"op": "add", "name": n | None, "current": […], "limit": x}
#                 | {"op": "tariff", "name": <tariff file>, "inplace": bool}
#                 | {"op": "est", "session": sid, "value": int} ]}
# The list is kept in APPLICATION order (`_edit_key`); the harness logs the index of every entry it applies.

DEFAULT_TARIFF = "sce_tou_ev_4_march_2019"
TARIFFS = ["sce_tou_ev_4_march_2019", "sce_tou_ev_8_june_2019", "sce_tou_ev_8_oct_2018", "pge_a10_tou_aug_2019"]


def _edits(case):
    return case.get("net_edits") or []


def _cur(o):
    return Current({k: I.num(v) for k, v in o["current"]})


def _apply_net_ops(net, ops):
    """the constraint ops of an entry on a ChargingNetwork (the simulator's, or the oracle's fresh one)"""
    for o in ops:
        if o["op"] == "update":
            net.update_constraint(o["name"], _cur(o), I.num(o["limit"]), new_name=o.get("new_name"))
        elif o["op"] == "remove":
            net.remove_constraint(o["name"])
        elif o["op"] == "add":
            net.add_constraint(_cur(o), I.num(o["limit"]), name=o.get("name"))


def _apply_entry(idx, entry, sim, ctx):
    """apply one entry to the LIVE objects of the simulation and log it (harness side of the history)"""
    from acnportal.signals.tariffs.tou_tariff import TimeOfUseTariff
    err = None
    try:
        with warnings.catch_warnings():
            warnings.simplefilter("ignore")
            for o in entry["ops"]:
                if o["op"] == "tariff":
                    if o.get("inplace") and isinstance(sim.signals, dict):
                        sim.signals["tariff"] = TimeOfUseTariff(o["name"])
                    else:
                        sim.signals = {"tariff": TimeOfUseTariff(o["name"])}
                elif o["op"] == "est":
                    for ev in ctx["evs"]:
                        if ev.session_id == o["session"]:
                            ev.estimated_departure = int(o["value"])
                else:
                    _apply_net_ops(ctx["network"], [o])
    except Exception as e:  # noqa: BLE001  (the generator only writes edits the network accepts)
        err = S.err_name(e)
    ctx["applied"].append(idx)
    if err is not None:
        ctx["edit_errors"].append([idx, err])


def _edit_key(case, e):
    """position of an entry in the history of a run that does not abort (well-formed staging): (first period in
    which it is in force, class, stage) — `pre` before everything; the hook of period p before the stage edit that
    follows the run() which stopped after period p"""
    if e["at"] == "pre":
        return (0, 0, 0)
    if e["at"] == "hook":
        return (int(e["t"]) + 1, 1, 0)
    return (_stage_horizons(case)[int(e["k"])], 2, int(e["k"]))


def _moment_key(case, when, t=None):
    """position of a query in the same order: inside schedule() in period t, or outside (`when`)"""
    if when == "inside":
        return (t, 3, 0)
    if when == "pre":
        return (0, -1, 0)
    if when == "pre:edited":
        return (0, 0, 1)
    if when == "post":
        return (_stage_horizons(case)[-1], 3, 0)
    parts = when.split(":")
    k = int(parts[1])
    return (_stage_horizons(case)[k], 2, k + (0.5 if len(parts) > 2 else -0.5))


def expected_applied(case, when, t=None):
    """indices of the entries in force at a query, from the case alone (run without abort, well-formed staging)"""
    m = _moment_key(case, when, t)
    return [i for i, e in enumerate(_edits(case)) if _edit_key(case, e) < m]


def _net_state(case, applied=()):
    """The oracle's OWN replay of the history (plain Python, no acnportal object): the add_constraint calls of
    the case, then the entries `applied` (indices, application order).  charging_network.py: a row is appended
    under its name (`_const_<n>` for None, one `_v2` for a taken name); remove deletes the first row of that
    name; update = remove + add under the new (or the same) name, i.e. the row moves to the END."""
    cons = []
    rejected = []

    def add(cur, limit, name):
        names = [c[0] for c in cons]
        nm = name if name is not None else "_const_{0}".format(len(cons))
        cons.append([nm + "_v2" if nm in names else nm, {k: float(I.num(v)) for k, v in cur}, limit])

    def remove(name):
        k = next((i for i, c in enumerate(cons) if c[0] == name), None)
        if k is None:
            raise KeyError(name)
        del cons[k]

    for c in all_constraints(case):
        add(c["current"], c["limit"], c.get("name"))
    tariff = DEFAULT_TARIFF
    est = {}
    for idx in applied:
        try:
            for o in _edits(case)[idx]["ops"]:
                if o["op"] == "update":
                    remove(o["name"])
                    add(o["current"], o["limit"], o.get("new_name") if o.get("new_name") is not None else o["name"])
                elif o["op"] == "remove":
                    remove(o["name"])
                elif o["op"] == "add":
                    add(o["current"], o["limit"], o.get("name"))
                elif o["op"] == "tariff":
                    tariff = o["name"]
                elif o["op"] == "est":
                    est[o["session"]] = int(o["value"])
        except KeyError:
            rejected.append(idx)
    return {"cons": cons, "tariff": tariff, "est": est, "rejected": rejected}


_FRESH = {}


def fresh_network_infra(case, applied=()):
    """The same history replayed on a FRESH acnportal ChargingNetwork built from the case alone (never the
    simulator's network, never the Interface under test): its constraint containers."""
    from acnportal.acnsim.network.charging_network import ChargingNetwork
    key = (id(case), tuple(applied))
    if key in _FRESH and _FRESH[key][0] is case:
        return _FRESH[key][1]
    net = ChargingNetwork()
    for st in case["stations"]:
        net.register_evse(I.make_evse(st["kind"], st["id"]), I.num(st["V"]), I.num(st.get("phase", 0)))
    with warnings.catch_warnings():
        warnings.simplefilter("ignore")
        for c in all_constraints(case):
            net.add_constraint(_cur(c), I.num(c["limit"]), name=c.get("name"))
        for idx in applied:
            try:
                _apply_net_ops(net, _edits(case)[idx]["ops"])
            except Exception:  # noqa: BLE001
                pass
    cm = net.constraint_matrix
    out = {"constraint_matrix": [] if cm is None else [[_f(x) for x in row] for row in np.asarray(cm).tolist()],
           "constraint_limits": _lst(net.magnitudes), "constraint_ids": [str(x) for x in net.constraint_index],
           "station_ids": list(net.station_ids)}
    if len(_FRESH) > 64:
        _FRESH.clear()
    _FRESH[key] = (case, out)
    return out


_TARIFF_OBJ = {}


def _fresh_tariff(name):
    from acnportal.signals.tariffs.tou_tariff import TimeOfUseTariff
    if name not in _TARIFF_OBJ:
        _TARIFF_OBJ[name] = TimeOfUseTariff(name)
    return _TARIFF_OBJ[name]


KNOWN_TYPES = ("Plugin", "Unplug", "Recompute")


class MarkerEvent(Event):
    """A user-defined event class the simulator has no handler for (the documented way to extend acnsim is
    to subclass Event): own event_type; the base class' precedence (inf: last of its period) unless given."""

    def __init__(self, timestamp, event_type="TariffChange", precedence=None):
        super().__init__(timestamp)
        self.event_type = event_type
        if precedence is not None:
            self.precedence = precedence


def _make_other(o):
    """case["others"] entry {"t": ts, "kind": "base" | "sub" | "prec", ["prec": p], "when": "ctor" | "added"}"""
    if o["kind"] == "base":
        return Event(int(o["t"]))                    # event_type "", precedence inf
    if o["kind"] == "sub":
        return MarkerEvent(int(o["t"]))
    return MarkerEvent(int(o["t"]), "Maintenance", float(I.num(o["prec"])))


def _others(case):
    return case.get("others") or []


def _splits(case):
    return sorted(int(x) for x in (case.get("splits") or []))


def _stage_of(case, ts):
    """stage 0 = the queue the Simulator is constructed with; the events with timestamp >= splits[k-1] are
    withheld and handed to `event_queue.add_events` after the k-th run() has returned"""
    return sum(1 for T in _splits(case) if T <= ts)


# ------------------------------------------------------------------ events that change nothing / copied simulators
#
# case["noops"] = [{"kind": "early", "session": sid, "t": ts, "when": "ctor" | "added"}      UnplugEvent(ts, <the EV of sid>) queued
#                    by the USER, arrival < ts < departure: the EV leaves at ts; the UnplugEvent the simulator queues itself
#                    at `ev.departure` then finds the station empty, or another EV (a session of the case that starts there
#                    after ts) — an event of that period all the same;
#                  {"kind": "after", "session": sid, "t": ts > departure, …}                  the same for a session that has left;
#                  {"kind": "ghost", "session": "g…", "station": st, "t": ts, …}              UnplugEvent for an EV that never arrived]
# case["network"] = "stochastic": the contrib StochasticNetwork (more simultaneous sessions than stations: the surplus WAITS;
#                    the departure of an EV that is still waiting changes no station and is an event of its period).
# case["clone"] = "pre" | "steps": the harness replaces the simulator by `copy.deepcopy(sim)` before the first run() / after
#                    the step() prefix and goes on with the COPY; `interrupt.how == "copy"`: after every abort.  The original is
#                    run to completion afterwards, too (obs["orig"]).


def _noops(case):
    return case.get("noops") or []


def _stoch(case):
    return case.get("network") == "stochastic"


def _clone(case):
    return case.get("clone") or None


def _effective_sessions(case):
    """the sessions with the departure that actually takes place: the first user-queued UnplugEvent inside the stay"""
    out = []
    for s in case["sessions"]:
        ts = [int(n["t"]) for n in _noops(case) if n["kind"] == "early" and n["session"] == s["session"] and s["arrival"] < int(n["t"]) < s["departure"]]
        out.append(dict(s, departure=min(ts)) if ts else s)
    return out


def _layout_ok(case):
    """`Valid` on the layout that actually takes place (early departures applied); for the StochasticNetwork the stations of
    the case are not binding (random assignment, waiting queue): distinct ids, 0 <= arrival < departure, recomputes >= 0"""
    if _stoch(case):
        ids = [s["session"] for s in case["sessions"]]
        return len(set(ids)) == len(ids) and all(0 <= s["arrival"] < s["departure"] for s in case["sessions"]) \
            and all(int(r) >= 0 for r in case.get("recomputes", []))
    return S.is_valid_layout(dict(case, sessions=_effective_sessions(case)) if _noops(case) else case)


def _known_ts(case, with_others=False):
    ts = [s["arrival"] for s in case["sessions"]] + [s["departure"] for s in case["sessions"]] + \
        [int(r) for r in case.get("recomputes", [])] + [int(n["t"]) for n in _noops(case)]
    if with_others:
        ts += [int(o["t"]) for o in _others(case)]
    return ts


def _stage_horizons(case):
    """iteration at which the k-th run() returns when nothing raises, for a well-formed staging: one past
    the largest timestamp (departures included) of the stages <= k"""
    out = []
    for k in range(len(_splits(case)) + 1):
        ts = [s["arrival"] for s in case["sessions"] if _stage_of(case, s["arrival"]) <= k] + \
             [s["departure"] for s in case["sessions"] if _stage_of(case, s["arrival"]) <= k] + \
             [int(r) for r in case.get("recomputes", []) if _stage_of(case, int(r)) <= k] + \
             [int(o["t"]) for o in _others(case) if _stage_of(case, int(o["t"])) <= k] + \
             [int(n["t"]) for n in _noops(case) if _stage_of(case, int(n["t"])) <= k]
        out.append(max(ts) + 1 if ts else 0)
    return out


def staging_ok(case):
    """every withheld event lies at or after the period in which the run before it stops — then the staged
    history is, period by period, the history of the same events handed over at once"""
    hs = _stage_horizons(case)
    return all(h <= T for h, T in zip(hs, _splits(case)))


def is_valid(case):
    """`Valid` of the theorems + C05's extra dimensions well-formed (ignored events not late, staging_ok)"""
    if _step_prefix(case) and (_others(case) or _splits(case) or any(ts < 1 for ts in _known_ts(case))):
        # step() processes the events of period t AFTER the trip of period t-1: a timestamp-0 event is processed late, at
        # iteration 1 (SimStep.lean; not part of any property) — such prefixes are judged by the model and the same-moment
        # ground truth only
        return False
    if _noops(case) and (_splits(case) or any(int(n["t"]) < 0 for n in _noops(case))):
        return False          # (not generated: a user-queued UnplugEvent withheld for a later run())
    return _layout_ok(case) and all(int(o["t"]) >= 0 for o in _others(case)) and staging_ok(case)


def _bound(case):
    return max([0] + _known_ts(case, with_others=True)) + 6


def _build(case, hooks):
    """simcase.build_sim + C05's extra dimensions: ignored-type events (constructor queue or add_event right
    after construction) and events withheld for a later run() (returned per stage, queue insertion order)."""
    net = (_stoch_guard_cls() if _stoch(case) else (hooks.network_cls or S.SnapshotNetwork))()
    for st in case["stations"]:
        net.register_evse(I.make_evse(st["kind"], st["id"]), I.num(st["V"]), I.num(st.get("phase", 0)))
    con = case.get("constraint")
    if con:
        net.add_constraint(Current([st["id"] for st in case["stations"]]), I.num(con["limit"]), name="agg")
    evs = [I.make_ev(s) for s in case["sessions"]]
    n = len(_splits(case)) + 1
    staged = [[] for _ in range(n)]
    for ev in evs:
        staged[_stage_of(case, ev.arrival)].append(PluginEvent(ev.arrival, ev))
    added_noops = []
    for n_ in _noops(case):
        # the user's own UnplugEvent (public API: UnplugEvent(timestamp, ev) in the queue handed to the constructor, or
        # event_queue.add_event afterwards) for an EV of the case, or for an EV that never arrives
        if n_["kind"] == "ghost":
            ev = I.make_ev({"session": n_["session"], "station": n_["station"], "arrival": max(int(n_["t"]) - 2, 0),
                            "departure": int(n_["t"]), "requested": 5.0, "batt": _b(), "est": None})
        else:
            ev = next(e for e in evs if e.session_id == n_["session"])
        k = _stage_of(case, int(n_["t"]))
        (added_noops if (k == 0 and n_.get("when") == "added") else staged[k]).append(UnplugEvent(int(n_["t"]), ev))
    for r in case.get("recomputes", []):
        staged[_stage_of(case, int(r))].append(RecomputeEvent(int(r)))
    added0 = []
    for o in _others(case):
        k = _stage_of(case, int(o["t"]))
        (added0 if (k == 0 and o.get("when") == "added") else staged[k]).append(_make_other(o))
    algo = S.make_scheduler(case, hooks)
    sim = Simulator(net, algo, EventQueue(staged[0]), S.START, period=I.num(case["period"]), verbose=False)
    for e in added0 + added_noops:
        sim.event_queue.add_event(e)
    return sim, {"network": net, "scheduler": algo, "evs": evs, "hooks": hooks}, staged[1:]


def _one_run(case, vandal, plain=False):
    """plain=True: the same case WITHOUT its interruptions (the uninterrupted twin of an interrupted case)"""
    views = []
    outside = []
    box = {}
    intr = None if plain else _interrupt(case)
    sp = _step_prefix(case)
    special = bool(_interrupt(case) or sp)
    mode = case.get("vandal")
    cl = None if plain else _clone(case)
    if cl == "pre" and sp:
        cl = "steps"          # (a step() prefix is driven by the harness: the copy is taken after it)
    box["views"] = views
    rnd_state = None
    if _stoch(case):
        # StochasticNetwork.plugin draws the station with random.choice: the same draws in every run of the case
        import random as _random
        rnd_state = _random.getstate()
        _random.seed(len(case["sessions"]) * 7919 + len(case["stations"]))

    def rewound(f):
        # the vandal charges EV *copies*; with a noisy battery that calls numpy.random.normal, the
        # process-wide random stream, which is not an object the scheduler was handed: rewind it
        k0 = box["ns"]["k"]
        try:
            return f()
        finally:
            box["ns"]["k"] = k0

    def before(algo, iface, sessions):
        box["views"].append(_record(algo, iface, sessions, box["sim"], box["ctx"]))

    def after(algo, iface, sessions, schedule):
        r = rewound(lambda: _vandalise(algo, iface, sessions, schedule, mode)) if vandal else None
        # the same questions asked AGAIN before schedule() returns (after the vandal, if there is one)
        box["views"][-1]["requery"] = _record(algo, iface, None, box["sim"], box["ctx"], light=True)
        return r

    def ask_outside(when):
        """an Interface query made OUTSIDE schedule(): before run(), between two run()s, after the last one,
        after a step() prefix, after an abort (and reload)"""
        sim = box["sim"]
        iface = sim.scheduler.interface
        try:
            with warnings.catch_warnings():
                warnings.simplefilter("ignore")
                sess = iface.active_sessions()
                rec = _record(None, iface, sess, sim, box["ctx"])
                if vandal:
                    rewound(lambda: _vandalise(None, iface, sess, None, mode))
                rec["requery"] = _record(None, iface, None, sim, box["ctx"], light=True)
        except Exception as e:  # noqa: BLE001  (malformed layouts: a SessionInfo guard)
            rec = {"error": S.err_name(e)}
        rec["when"] = when
        outside.append(rec)

    hooks = S.Hooks(before=before, after=after, network_cls=JGuardNet if special else GuardNet,
                    fail_at=set(int(k) for k in intr["at"]) if intr else None)
    _NET.update({"occ": [], "limit": 10 ** 9, "on_period": None})
    interruptions = []
    step_results = None
    after_steps = None
    with S.noise_stream(case.get("noise", [])) as ns:
        box["ns"] = ns
        sim, ctx, later = _build(case, hooks)
        _net_set(ctx["network"], "limit", _bound(case))
        for c in case.get("extra_constraints", []):
            with warnings.catch_warnings():
                warnings.simplefilter("ignore")
                ctx["network"].add_constraint(Current({k: I.num(v) for k, v in c["current"]}), I.num(c["limit"]), name=c.get("name"))
        box["sim"], box["ctx"] = sim, ctx
        ctx["applied"], ctx["edit_errors"] = [], []
        try:
            from acnportal.signals.tariffs.tou_tariff import TimeOfUseTariff
            sim.signals = {"tariff": TimeOfUseTariff(DEFAULT_TARIFF)}
        except Exception:  # noqa: BLE001
            pass
        edits = list(enumerate(_edits(case)))

        def apply_where(pred):
            hit = [(i, e) for i, e in edits if pred(e)]
            for i, e in hit:
                _apply_entry(i, e, box["sim"], box["ctx"])
            return bool(hit)

        def reload():
            """to_json() -> Simulator.from_json() -> update_scheduler(the SAME algorithm object); the signals (not
            JSON-serialisable, documented: "can be set after the Simulator is loaded") are handed over as well"""
            old, octx = box["sim"], box["ctx"]
            with warnings.catch_warnings():
                warnings.simplefilter("ignore")
                new = Simulator.from_json(old.to_json())
                new.update_scheduler(octx["scheduler"])
            new.signals = old.signals
            by = S._all_evs_of(new)
            was = S._all_evs_of(old)
            # (the EVs of events that are still WITHHELD for a later stage are not part of the simulator yet: they stay)
            nctx = dict(octx, network=new.network, evs=[by.get(ev.session_id, ev) for ev in octx["evs"]])
            box["sim"], box["ctx"] = new, nctx
            lu = lambda x: None if x._last_schedule_update is None else int(x._last_schedule_update)  # noqa: E731
            return {"same_object": new is old, "missing_evs": sorted(sid for sid in was if sid not in by),
                    "iter": [int(old.iteration), int(new.iteration)], "resolve": [bool(old._resolve), bool(new._resolve)],
                    "last_upd": [lu(old), lu(new)], "max_recompute": [old.max_recompute, new.max_recompute],
                    "queue": [sorted(int(ts) for ts, _ in old.event_queue.queue), sorted(int(ts) for ts, _ in new.event_queue.queue)],
                    "net_class": type(new.network).__name__}

        pending_fail = set(hooks.fail_at)

        def clone(where):
            """copy.deepcopy(simulator): the harness goes on with the COPY; the (first) original is kept as it is and
            run to completion after the copy has finished"""
            old, octx = box["sim"], box["ctx"]
            with warnings.catch_warnings():
                warnings.simplefilter("ignore")
                new = copy.deepcopy(old)
            by = S._all_evs_of(new)
            nctx = dict(octx, network=new.network, scheduler=new.scheduler, evs=[by.get(ev.session_id, ev) for ev in octx["evs"]],
                        applied=list(octx["applied"]), edit_errors=list(octx["edit_errors"]))
            if "orig" not in box:
                box["orig"] = {"sim": old, "ctx": octx, "nviews": len(views), "noise": box["ns"]["k"], "where": where,
                               "occ": [list(r) for r in _NET["occ"]], "pending": set(pending_fail)}
            box["sim"], box["ctx"] = new, nctx
            lu = lambda x: None if x._last_schedule_update is None else int(x._last_schedule_update)  # noqa: E731
            own = [e for e in by.values() if any(e is x for x in S._all_evs_of(old).values())]
            return {"same_object": new is old or new.network is old.network or new.scheduler is old.scheduler
                    or new.event_queue is old.event_queue or bool(own),
                    "iter": [int(old.iteration), int(new.iteration)], "resolve": [bool(old._resolve), bool(new._resolve)],
                    "last_upd": [lu(old), lu(new)], "max_recompute": [old.max_recompute, new.max_recompute],
                    "queue": [sorted(int(ts) for ts, _ in old.event_queue.queue), sorted(int(ts) for ts, _ in new.event_queue.queue)]}

        def run_resumable():
            """run(); after an INJECTED scheduler failure (Hooks.fail_at, each period once) the simulation is resumed:
            run() again on the same object, or to_json -> from_json -> update_scheduler -> run()"""
            while True:
                cur = box["sim"]
                e = S.run_sim(cur)
                k = int(cur.iteration)
                algo = box["ctx"]["scheduler"]
                fired = (("hook", k) in algo.failed) if isinstance(algo, S.ScriptedAlgo) else (k in getattr(algo, "failed", ()))
                if e != "SchedulerFailed" or k not in pending_fail or not fired or len(interruptions) > 2 * len(hooks.fail_at) + 2:
                    return e
                pending_fail.discard(k)
                rec = {"t": k, "how": intr["how"], "resolve": bool(cur._resolve),
                       "last_upd": None if cur._last_schedule_update is None else int(cur._last_schedule_update),
                       "queue_empty": bool(cur.event_queue.empty()), "calls": list(algo.calls)}
                if intr["how"] == "json":
                    rec["reload"] = reload()
                elif intr["how"] == "copy":
                    rec["clone"] = clone(f"abort:{k}")
                interruptions.append(rec)
                ask_outside(f"abort:{len(interruptions) - 1}")

        if any(e["at"] == "hook" for _, e in edits):
            _net_set(ctx["network"], "on_period", lambda p: apply_where(lambda e: e["at"] == "hook" and int(e["t"]) == p))
        if case.get("pre_query"):
            ask_outside("pre")
        if apply_where(lambda e: e["at"] == "pre") and case.get("pre_query"):
            ask_outside("pre:edited")
        clones = []
        if cl == "pre":
            clones.append(clone("pre"))
        err = None
        if sp:
            # a prefix driven by Simulator.step(): one call per schedule; stops at the first call that raises
            step_results = []
            for sch in sp["scheds"]:
                try:
                    with warnings.catch_warnings():
                        warnings.simplefilter("ignore")
                        done = box["sim"].step(S._sched_dict(sch))
                    step_results.append([None, bool(done), int(box["sim"].iteration)])
                except Exception as e:  # noqa: BLE001
                    err = S.err_name(e)
                    step_results.append([err, None, int(box["sim"].iteration)])
                    break
            if err is None:
                cur = box["sim"]
                after_steps = {"iter": int(cur.iteration), "resolve": bool(cur._resolve),
                               "last_upd": None if cur._last_schedule_update is None else int(cur._last_schedule_update),
                               "queue_empty": bool(cur.event_queue.empty())}
                if sp.get("json"):
                    after_steps["reload"] = reload()
                if cl == "steps":
                    clones.append(clone("steps"))
                ask_outside("steps")
        if err is None:
            err = run_resumable()
        stops = [int(box["sim"].iteration)]
        for k, events in enumerate(later):
            if err is not None:
                break
            ask_outside(f"between:{k}")
            if apply_where(lambda e: e["at"] == "stage" and int(e["k"]) == k):
                ask_outside(f"between:{k}:edited")
            box["sim"].event_queue.add_events(events)
            err = run_resumable()
            stops.append(int(box["sim"].iteration))
        if err is None and (case.get("pre_query") or later):
            ask_outside("post")
        sim, ctx = box["sim"], box["ctx"]
        obs = S.observe(sim, ctx, err)
        obs["noise_draws"] = ns["k"]
        obs["final_infra"] = _truth(sim, ctx)["infra"]
        obs["edits_applied"] = list(ctx["applied"])
        obs["edit_errors"] = list(ctx["edit_errors"])
        if cl or (intr and intr["how"] == "copy"):
            obs["clones"] = clones + [a["clone"] for a in interruptions if a.get("clone")]
        if "orig" in box and not later:
            # the ORIGINAL of the (first) copy, left where it was when the copy was taken: completed now (the noise stream and
            # the module-level occupancy log rewound to that moment), resumed in place after the failures still to be injected
            og = box["orig"]
            keep_k, keep_occ = ns["k"], _NET["occ"]
            box["sim"], box["ctx"], box["views"] = og["sim"], og["ctx"], []
            ns["k"], _NET["occ"] = og["noise"], [list(r) for r in og["occ"]]
            left = set(og["pending"])
            while True:
                e2 = S.run_sim(og["sim"])
                k2 = int(og["sim"].iteration)
                if e2 != "SchedulerFailed" or k2 not in left:
                    break
                left.discard(k2)
            oo = S.observe(og["sim"], og["ctx"], e2)
            oo["noise_draws"] = ns["k"]
            oo["final_infra"] = _truth(og["sim"], og["ctx"])["infra"]
            oo["edits_applied"] = list(og["ctx"]["applied"])
            oo["views"], oo["nviews"], oo["where"] = box["views"], og["nviews"], og["where"]
            obs["orig"] = oo
            ns["k"], _NET["occ"] = keep_k, keep_occ
            box["sim"], box["ctx"], box["views"] = sim, ctx, views
    if rnd_state is not None:
        import random as _random
        _random.setstate(rnd_state)
    obs["views"] = views
    obs["outside"] = outside
    obs["stops"] = stops
    if special:
        obs["interruptions"] = interruptions
        obs["step_results"] = step_results
        obs["after_steps"] = after_steps
    return obs


def run_impl(case):
    obs = _one_run(case, vandal=True)
    if _interrupt(case) or _clone(case):
        # the UNINTERRUPTED twin of an interrupted case (clean scheduler): the completed simulation must be this one
        obs["plain"] = _one_run(case, vandal=False, plain=True)
    if case.get("exhaustive"):
        # small-scope enumeration (invocation set, views): the clean twin is run for every 8th layout only
        if case["exhaustive"] % 8 == 0:
            obs["clean"] = _one_run(case, vandal=False)
        else:
            obs["clean"] = {k: v for k, v in obs.items() if k not in ("clean", "plain")}
        return obs
    obs["clean"] = _one_run(case, vandal=False)
    return obs


def model_mode(case, obs=None):
    """How the Lean model speaks about a case:
      "sim"     `Sim.run` on the case itself (no ignored-type events, one run());
      "ignored" `Sim.runI` (AcnModel/Ignored.lean): the same period body, the loop also kept going by the
                ignored-type events still queued; the model's event_history holds the known entries only;
      "union"   (staged runs, well-formed staging) the model is handed all events at once — with "ignored"
                when there are ignored-type events;
      None      oracle only: real algorithms; late staging; a run with ignored-type events / stages that
                ABORTED (an abort freezes the matrix widths and the pending list in a state that depends on
                `get_last_timestamp()` over the real queue, which the model does not carry)."""
    if not S.is_modelled(case) or _stoch(case):
        return None
    if _noops(case):
        # Sim.Cfg has no field for a user-queued UnplugEvent.  One that finds nobody to detach (session never arrived / already
        # gone) is handed to the model as a RecomputeEvent of the same timestamp — both are `an event: recompute requested,
        # network untouched`; they differ in the precedence inside the period and in `_last_schedule_update`, which the
        # invocation of the same period overwrites (hence not with interruptions / step() prefixes / aborted runs).
        # Early departures (the departure in the model's configuration would not be the one the scheduler is shown): oracle only.
        if any(n["kind"] not in ("ghost", "after") or int(n["t"]) < 0 for n in _noops(case)) or _interrupt(case) or _step_prefix(case) \
                or (obs is not None and obs.get("err") is not None):
            return None
    if _interrupt(case) or _step_prefix(case):
        # `Sim.runResume` / `Sim.stepsThenRun` (AcnModel/SimResume.lean): the plain queue, one stage
        return "resume" if not _others(case) and not _splits(case) else None
    if not _others(case) and not _splits(case):
        return "sim"
    if obs is not None and obs.get("err") is not None:
        return None
    if not staging_ok(case):
        return None
    return "union" if _splits(case) else "ignored"


def model_request(case, obs=None):
    if model_mode(case, obs) is None:
        return None
    req = S.model_request(case)
    if req is not None and _others(case):
        req["ignored"] = [int(o["t"]) for o in _others(case)]
    if req is not None and _noops(case):
        req["recomputes"] = req["recomputes"] + [[int(n["t"]), f"noop{i}"] for i, n in enumerate(_noops(case))]
    if req is not None and _interrupt(case):
        req["fail_at"] = sorted(set(int(k) for k in _interrupt(case)["at"]))
    if req is not None and _step_prefix(case):
        req["steps"] = [S.sched_wire(x) for x in _step_prefix(case)["scheds"]]
    if req is not None:
        req["net"] = {"phases": [f2b(float(I.num(st.get("phase", 0)))) for st in case["stations"]],
                      "constraints": [{"current": [[k, f2b(float(I.num(v)))] for k, v in c["current"]],
                                       "limit": f2b(float(I.num(c["limit"]))), "name": c.get("name")}
                                      for c in all_constraints(case)]}
        # the edit history, each entry with the first period in which it is in force (`Sim.infraInfoAt`)
        ed = []
        for e in _edits(case):
            ops = [_op_wire(o) for o in e["ops"] if o["op"] in ("update", "remove", "add")]
            if ops:
                ed.append({"from": int(_edit_key(case, e)[0]), "ops": ops})
        if ed:
            req["net"]["edits"] = ed
    return req


def _op_wire(o):
    w = {"op": o["op"], "name": o.get("name")}
    if o["op"] != "remove":
        w["current"] = [[k, f2b(float(I.num(v)))] for k, v in o["current"]]
        w["limit"] = f2b(float(I.num(o["limit"])))
    if o["op"] == "update":
        w["new_name"] = o.get("new_name")
    return w


# ------------------------------------------------------------------ correspondence


def _num(x):
    return float(I.num(x))


def compare(case, obs, model):
    o2 = {k: v for k, v in obs.items() if k not in ("views", "clean", "final_infra", "outside", "stops", "plain", "interruptions",
                                                    "after_steps")}
    if obs.get("step_results") is None:
        o2.pop("step_results", None)
    if _others(case):
        # the model's event_history / pending list hold the entries of the known types only (Sim.runI)
        o2["event_history"] = [e for e in obs["event_history"] if e[1] in KNOWN_TYPES]
        o2["pending"] = [e for e in obs["pending"] if e[1] in KNOWN_TYPES]
    if _noops(case):
        # (model_mode: only UnplugEvents that detach nobody get here; the model was handed RecomputeEvents in their place)
        nk = {(int(n["t"]), n["session"]) for n in _noops(case)}

        def as_rec(lst):
            return sorted(([e[0], "Recompute", ""] if (e[1] == "Unplug" and (e[0], e[2]) in nk) else e for e in lst),
                          key=lambda e: (e[0], S.PREC.get(e[1], 9)))
        o2["event_history"] = as_rec(o2["event_history"])
        o2["pending"] = sorted(as_rec(o2["pending"]))
    diffs = S.compare(case, o2, model)
    if _interrupt(case) or _step_prefix(case):
        # the states the aborted run() calls left (C09: a JSON round trip is the identity on them) and the state the
        # step() prefix left
        ia = [[a["t"], a["resolve"], a["last_upd"], a["queue_empty"]] for a in obs.get("interruptions") or []]
        ma = [[a["iter"], a["resolve"], a["last_upd"], a["queue_empty"]] for a in model.get("aborts", [])]
        if ia != ma:
            diffs.append(f"states left by the aborted run() calls [period, _resolve, _last_schedule_update, queue empty]: impl {ia} model {ma}")
        if obs.get("after_steps") is not None:
            x, y = obs["after_steps"], model.get("after_steps") or {}
            for k in ("iter", "resolve", "last_upd", "queue_empty"):
                if x[k] != y.get(k):
                    diffs.append(f"state left by the step() prefix, {k}: impl {x[k]} model {y.get(k)}")
    mv = model.get("views", [])
    iv = obs["views"]
    if [v["t"] for v in iv] != [v["t"] for v in mv]:
        diffs.append(f"views handed out: impl periods {[v['t'] for v in iv]} model {[v['t'] for v in mv]}")
        return diffs[:12]
    revised = {o["session"] for e in _edits(case) for o in e["ops"] if o["op"] == "est"}
    for a, b in zip(iv, mv):
        t = a["t"]
        ia = a["sessions"]
        ma = b["active"]
        if [s["session"] for s in ia] != [s["session"] for s in ma]:
            diffs.append(f"view t={t}: active sessions impl {[s['session'] for s in ia]} model {[s['session'] for s in ma]}")
            continue
        for s, m in zip(ia, ma):
            for k in ("station", "arrival", "departure", "est"):
                if k == "est" and s["session"] in revised:
                    continue        # estimated departure revised mid-run: not in the model's configuration (oracle only)
                if s[k] != m[k]:
                    diffs.append(f"view t={t} session {s['session']} {k}: impl {s[k]} model {m[k]}")
            for k in ("requested", "delivered"):
                if not close(_num(s[k]), b2f(m[k])):
                    diffs.append(f"view t={t} session {s['session']} {k}: impl {s[k]} model {b2f(m[k])}")
            r = a["last_rates"].get(s["session"])
            if r is None or not close(_num(r), b2f(m["rate"])):
                diffs.append(f"view t={t} session {s['session']} last actual rate: impl {r} model {b2f(m['rate'])}")
        mlp = {k: b2f(v) for k, v in b["last_pilots"]}
        if sorted(mlp) != sorted(a["last_pilots"]) or any(not close(_num(a["last_pilots"][k]), mlp[k]) for k in mlp):
            diffs.append(f"view t={t} last_applied_pilot_signals: impl {a['last_pilots']} model {mlp}")
        if not close(_num(a["peak"]), b2f(b["peak"])):
            diffs.append(f"view t={t} peak: impl {a['peak']} model {b2f(b['peak'])}")
        if a["truth"]["connected"] != b["connected"]:
            diffs.append(f"view t={t} occupancy at call time: impl {a['truth']['connected']} model {b['connected']}")
    exp = expected_infra(case)
    mi = model.get("infra", [])
    if [x["id"] for x in mi] != exp["station_ids"]:
        diffs.append(f"infra stations: model {[x['id'] for x in mi]} expected {exp['station_ids']}")
    else:
        for k, x in enumerate(mi):
            got = {"V": b2f(x["V"]), "max": b2f(x["max"]), "min": b2f(x["min"]), "allowable": [b2f(y) for y in x["allowable"]]}
            want = {"V": _num(exp["voltages"][k]), "max": _num(exp["max_pilot"][k]), "min": _num(exp["min_pilot"][k]),
                    "allowable": [_num(y) for y in exp["allowable"][k]]}
            if bool(x["continuous"]) != exp["is_continuous"][k] or not close(got["V"], want["V"]) or not close(got["max"], want["max"]) \
                    or not close(got["min"], want["min"]) or len(got["allowable"]) != len(want["allowable"]) \
                    or any(not close(p, q) for p, q in zip(got["allowable"], want["allowable"])):
                diffs.append(f"infra station {x['id']}: model {got} cont={x['continuous']} implementation {want} cont={exp['is_continuous'][k]}")
    mf = model.get("infra_full")
    if mf is None:
        diffs.append("model answer carries no infra_full")
    else:
        got = {"constraint_matrix": [[_f(b2f(x)) for x in row] for row in mf["constraint_matrix"]],
               "constraint_limits": [_f(b2f(x)) for x in mf["constraint_limits"]], "phases": [_f(b2f(x)) for x in mf["phases"]],
               "voltages": [_f(b2f(x)) for x in mf["voltages"]], "constraint_ids": mf["constraint_ids"], "station_ids": mf["station_ids"]}
        for k, val in got.items():
            if not _same(val, exp[k]):
                diffs.append(f"infrastructure {k}: model {val} network built with {exp[k]}")
        # every view: the InfrastructureInfo handed out in period t == the model's description of the network as
        # edited up to t (`Sim.infraInfoAt`; without edits this is `infra_full` at every t)
        ma = model.get("infra_at")
        if ma is None or [x["t"] for x in ma] != [v["t"] for v in iv]:
            diffs.append(f"model answer carries no infra_at for the views {[v['t'] for v in iv]}: {None if ma is None else [x['t'] for x in ma]}")
        else:
            for v, x in zip(iv, ma):
                if v["infra"] is None:
                    continue
                gat = {"constraint_matrix": [[_f(b2f(y)) for y in row] for row in x["constraint_matrix"]],
                       "constraint_limits": [_f(b2f(y)) for y in x["constraint_limits"]], "phases": [_f(b2f(y)) for y in x["phases"]],
                       "voltages": [_f(b2f(y)) for y in x["voltages"]], "constraint_ids": x["constraint_ids"], "station_ids": x["station_ids"]}
                bad = [k for k, val in gat.items() if not _same(val, v["infra"][k])]
                if bad:
                    k = bad[0]
                    diffs.append(f"view t={v['t']} infrastructure_info().{k}: impl {v['infra'][k]} model {gat[k]}"
                                 + (f" (edit history in force: entries {v.get('edits')})" if _edits(case) else ""))
                    break
    return diffs[:12]


# ------------------------------------------------------------------ oracle: C05 stated on the implementation


def all_constraints(case):
    """the add_constraint calls of a case, in order: simcase's aggregate constraint "agg" (Current of all
    station ids), then C05's `extra_constraints` [{"current": [[station, coeff]…], "limit": x, "name": str|None}]"""
    out = []
    if case.get("constraint"):
        out.append({"current": [[st["id"], 1.0] for st in case["stations"]], "limit": case["constraint"]["limit"], "name": "agg"})
    out.extend(case.get("extra_constraints", []))
    return out


def expected_infra(case, applied=()):
    """What the network's description must be, computed from the case — its add_constraint calls and the entries
    `applied` of its edit history (`_net_state`) — and FRESH EVSE objects (not the simulator's network, which a
    broken isolation could have corrupted).  A constraint-free network is the 0 x N view."""
    sts = case["stations"]
    evses = [I.make_evse(st["kind"], st["id"]) for st in sts]
    rows, limits, names = [], [], []
    for nm, co, lim in _net_state(case, applied)["cons"]:
        rows.append([_f(co.get(st["id"], 0.0)) for st in sts])
        limits.append(_f(I.num(lim)))
        names.append(nm)
    return {"constraint_matrix": rows, "constraint_limits": limits, "constraint_ids": names,
            "phases": [_f(I.num(st.get("phase", 0))) for st in sts], "voltages": [_f(I.num(st["V"])) for st in sts],
            "station_ids": [st["id"] for st in sts], "max_pilot": [_f(e.max_rate) for e in evses],
            "min_pilot": [_f(e.min_rate) for e in evses], "allowable": [_lst(e.allowable_pilot_signals) for e in evses],
            "is_continuous": [bool(e.is_continuous) for e in evses]}


def expected_invocations(case, horizon):
    """The property statement, computed from the event timestamps and max_recompute only."""
    evs = set()
    for s in case["sessions"]:
        evs.add(s["arrival"])
        evs.add(s["departure"])
    evs.update(int(r) for r in case.get("recomputes", []))
    evs.update(int(n["t"]) for n in _noops(case))      # an UnplugEvent that detaches nobody is an event of its period
    mr = case.get("max_recompute")
    out, last = [], None
    for t in range(horizon):
        if t in evs or (mr is not None and (last is None or t - last >= mr)):
            out.append(t)
            last = t
    return out


def reference_run(case):
    """The property's rule, the resume rule and the step() contract evaluated on the event TIMESTAMPS alone (valid cases):
      step(): a call made while events are left supplies its schedule for the current period t and advances to the next
              period in which a recompute is due — the next period with an event of a type the simulator reacts to, or
              t + 1 when max_recompute <= 1 — whose events it applies; it returns `no event left`;
      run():  period by period while an event is left or a recompute is pending: the scheduler is invoked iff an event
              occurred in the period (or was applied by the step() call that stopped there) or max_recompute periods have
              elapsed since a schedule was last supplied (by step() or by an invocation), or none ever was; an invocation
              in a period of `interrupt.at` raises (once): run() is called again and starts with that period.
    Events of ignored types count for `an event is left` only."""
    mr = case.get("max_recompute")
    nst = len(_splits(case)) + 1
    known = []
    for x in case["sessions"]:
        k = _stage_of(case, x["arrival"])
        known += [(x["arrival"], k), (x["departure"], k)]
    known += [(int(r), _stage_of(case, int(r))) for r in case.get("recomputes", [])]
    known += [(int(n["t"]), _stage_of(case, int(n["t"]))) for n in _noops(case)]
    other = [(int(o["t"]), _stage_of(case, int(o["t"]))) for o in _others(case)]
    intr = _interrupt(case)
    fail = set(int(k) for k in intr["at"]) if intr else set()
    st = {"t": 0, "p": -10 ** 9, "resolve": False, "last": None}

    def left(k):
        return any(ts > st["p"] for ts, g in known + other if g <= k)

    def pop(k):
        new = [ts for ts, g in known if g <= k and st["p"] < ts <= st["t"]]
        st["p"] = max(st["p"], st["t"])
        return new

    out = {"inv": [], "aborts": [], "stops": [], "steps": None, "supplied": []}
    sp = _step_prefix(case)
    if sp:
        out["steps"] = []
        for _ in sp["scheds"]:
            if left(0):
                a = st["t"]
                nxt = min(ts for ts, g in known + other if ts > st["p"])
                b = a + 1 if (mr is not None and mr <= 1) else max(nxt, a + 1)
                out["supplied"] += list(range(a, b))
                st["t"], st["last"] = b, b - 1
                st["resolve"] = bool(pop(0))
            out["steps"].append([None, not left(0), st["t"]])
        out["after_steps"] = {"iter": st["t"], "resolve": st["resolve"], "queue_empty": not left(0)}
    for k in range(nst):
        while left(k) or st["resolve"]:
            t = st["t"]
            if pop(k):
                st["resolve"] = True
            if st["resolve"] or (mr is not None and (st["last"] is None or t - st["last"] >= mr)):
                out["inv"].append(t)
                if t in fail:
                    fail.discard(t)
                    out["aborts"].append({"t": t, "resolve": st["resolve"], "queue_empty": not left(k)})
                    continue
                st["last"], st["resolve"] = t, False
            st["t"] = t + 1
        out["stops"].append(st["t"])
    return out


SCHED_ERRORS = ("InvalidRate", "InvalidSchedule", "SchedulerFailed", "KeyError")


def _eqnum(a, b):
    if isinstance(a, str) or isinstance(b, str):
        return str(a) == str(b)
    return a == b or (isinstance(a, float) and isinstance(b, float) and math.isnan(a) and math.isnan(b))


def _same(a, b):
    """exact structural equality of recorded values (copies must be exact)"""
    if isinstance(a, dict) and isinstance(b, dict):
        return a.keys() == b.keys() and all(_same(a[k], b[k]) for k in a)
    if isinstance(a, list) and isinstance(b, list):
        return len(a) == len(b) and all(_same(x, y) for x, y in zip(a, b))
    return _eqnum(a, b)


def _view_checks(case, v, exp_infra, fails, where="", inside=True):
    """one recorded answer of the Interface == the ground truth of the same moment (and == what the network
    was built with).  inside: recorded within schedule() — then this period's events must have been applied."""
    tr = v["truth"]
    t = v["t"]
    if tr["t"] != t:
        fails.append({"kind": "view_mismatch:current_time", "detail": f"{where}current_time {t}, simulator iteration {tr['t']}"})
    if inside:
        # (events added LATE to a resumed simulation: a plug-in processed after its departure time queues an
        #  unplug event that is already due and waits for the next period — not a well-formed history)
        if tr["queue_min"] is not None and tr["queue_min"] <= t and staging_ok(case):
            fails.append({"kind": "before_events", "detail": f"period {t}: scheduler called while an event with timestamp {tr['queue_min']} was still queued"})
        if tr["hist_max"] is not None and tr["hist_max"] > t:
            fails.append({"kind": "before_events", "detail": f"period {t}: an event with timestamp {tr['hist_max']} already processed"})
    if v["datetime"] != tr["datetime"] or v["datetime"] != (S.START + timedelta(minutes=float(I.num(case["period"]))) * t).isoformat():
        fails.append({"kind": "view_mismatch:datetime", "detail": f"{where}period {t}: current_datetime {v['datetime']}, truth {tr['datetime']}"})
    for name in ("sessions", "sessions_again"):
        if not _same(v[name], tr["sessions"]):
            fails.append({"kind": "view_mismatch:sessions", "detail": f"{where}period {t} {name}: handed {v[name]} truth {tr['sessions']}"})
    ev_proj = [{k: s[k] for k in ("session", "station", "delivered", "arrival", "departure", "requested")} for s in tr["sessions"]]
    got_proj = [{k: s[k] for k in ("session", "station", "delivered", "arrival", "departure", "requested")} for s in v["active_evs"]]
    if not _same(got_proj, ev_proj):
        fails.append({"kind": "view_mismatch:active_evs", "detail": f"{where}period {t}: active_evs {got_proj} truth {ev_proj}"})
    ev_rates = {s["session"]: s["rate"] for s in v["active_evs"]}
    if not _same(ev_rates, tr["last_rates"]):
        fails.append({"kind": "view_mismatch:active_evs", "detail": f"{where}period {t}: current_charging_rate of the active_evs copies {ev_rates} truth {tr['last_rates']}"})
    if not _same(v["last_pilots"], tr["last_pilots"]):
        fails.append({"kind": "view_mismatch:last_pilots", "detail": f"{where}period {t}: last_applied_pilot_signals {v['last_pilots']} truth {tr['last_pilots']}"})
    if t - 1 <= 0 and v["last_pilots"]:
        fails.append({"kind": "view_mismatch:last_pilots", "detail": f"{where}period {t}: non-empty {v['last_pilots']} although iteration-1 <= 0"})
    if not _same(v["last_rates"], tr["last_rates"]):
        fails.append({"kind": "view_mismatch:last_rates", "detail": f"{where}period {t}: last_actual_charging_rate {v['last_rates']} truth {tr['last_rates']}"})
    if not _eqnum(v["peak"], tr["peak"]):
        fails.append({"kind": "view_mismatch:peak", "detail": f"{where}period {t}: get_prev_peak {v['peak']} truth {tr['peak']}"})
    if v["max_recompute"] != case.get("max_recompute") or not _eqnum(v["period"], _f(I.num(case["period"]))):
        fails.append({"kind": "view_mismatch:static", "detail": f"{where}period {t}: max_recompute_time {v['max_recompute']} period {v['period']}"})
    if "prices" in tr and not _same(v.get("prices"), tr["prices"]):
        fails.append({"kind": "view_mismatch:prices", "detail": f"{where}period {t}: get_prices {v.get('prices')} truth {tr['prices']}"})
    if "prices0" in tr and not _same(v.get("prices0"), tr["prices0"]):
        fails.append({"kind": "view_mismatch:prices", "detail": f"{where}period {t}: get_prices(2, 0) {v.get('prices0')} truth {tr['prices0']}"})
    if "demand_charge" in tr and not _same(v.get("demand_charge"), tr["demand_charge"]):
        fails.append({"kind": "view_mismatch:prices", "detail": f"{where}period {t}: get_demand_charge {v.get('demand_charge')} truth {tr['demand_charge']}"})
    if v["infra"] is not None:
        if not _same(v["infra"], tr["infra"]):
            fails.append({"kind": "view_mismatch:infra", "detail": f"{where}period {t}: infrastructure_info {v['infra']} network {tr['infra']}"})
        for k, want in exp_infra.items():
            if want is not None and not _same(v["infra"][k], want):
                fails.append({"kind": "infra_wrong", "detail": f"{where}period {t}: {k} = {v['infra'][k]}, the network was built with {want}"
                              + (f" (after the entries {v.get('edits')} of the case's net_edits)" if _edits(case) else "")})
                break
        for k, g in enumerate(v.get("getters", [])):
            want = {"id": exp_infra["station_ids"][k], "allowable": [exp_infra["is_continuous"][k], exp_infra["allowable"][k]],
                    "max": exp_infra["max_pilot"][k], "min": exp_infra["min_pilot"][k], "V": exp_infra["voltages"][k],
                    "phase": exp_infra["phases"][k]}
            if not _same(g, want):
                fails.append({"kind": "infra_wrong", "detail": f"{where}period {t}: per-station getters {g}, built with {want}"})
                break
        if v.get("amp_periods") is not None and [s["session"] for s in tr["sessions"]] == [s["session"] for s in v["sessions"]]:
            for s, ap in zip(tr["sessions"], v["amp_periods"]):
                V = next(float(I.num(st["V"])) for st in case["stations"] if st["id"] == s["station"])
                want = _num(s["remaining_demand"]) * 1000 / V * 60 / float(I.num(case["period"]))
                if not close(_num(ap), want):
                    fails.append({"kind": "view_mismatch:amp_periods", "detail": f"{where}period {t} session {s['session']}: remaining_amp_periods {ap}, expected {want}"})
    else:
        fails.append({"kind": "infra_wrong", "detail": f"{where}period {t}: infrastructure_info() raised {v.get('infra_err')}"})


def _edit_checks(case, v, exp_infra, fails, where=""):
    """The answers of the Interface against the case's own edit history as far as the harness had applied it when
    the question was asked (v["edits"]): get_constraints(); the same history replayed on a FRESH ChargingNetwork;
    prices of the tariff the history says is installed; the estimated departures the history says were revised."""
    t = v["t"]
    hist = f" (edit history in force: entries {v.get('edits')} of net_edits)" if _edits(case) else ""
    con = v.get("constraints")
    if con is not None:
        for k in ("constraint_matrix", "constraint_limits", "constraint_ids", "station_ids"):
            if not _same(con[k], exp_infra[k]):
                fails.append({"kind": "infra_wrong", "detail": f"{where}period {t}: get_constraints().{k} = {con[k]}, the network holds {exp_infra[k]}{hist}"})
                break
    if not _edits(case):
        return
    if v.get("infra") is not None:
        fresh = fresh_network_infra(case, v.get("edits", []))
        for k, want in fresh.items():
            if not _same(v["infra"][k], want):
                fails.append({"kind": "infra_stale", "detail": f"{where}period {t}: infrastructure_info().{k} = {v['infra'][k]}; the case's history "
                              f"replayed on a fresh ChargingNetwork gives {want}{hist}"})
                break
    st = _net_state(case, v.get("edits", []))
    if any(o["op"] == "tariff" for e in _edits(case) for o in e["ops"]) and isinstance(v.get("prices"), list):
        tar = _fresh_tariff(st["tariff"])
        now = S.START + timedelta(minutes=float(I.num(case["period"]))) * t
        want = [_f(x) for x in tar.get_tariffs(now, 3, float(I.num(case["period"])))]
        if not _same(v["prices"], want):
            fails.append({"kind": "view_mismatch:prices", "detail": f"{where}period {t}: get_prices(3) {v['prices']}, tariff {st['tariff']} installed: {want}{hist}"})
        want_dc = _f(tar.get_demand_charge(now))
        if not _same(v.get("demand_charge"), want_dc):
            fails.append({"kind": "view_mismatch:prices", "detail": f"{where}period {t}: get_demand_charge {v.get('demand_charge')}, tariff {st['tariff']} installed: {want_dc}{hist}"})
    if any(o["op"] == "est" for e in _edits(case) for o in e["ops"]):
        base = {s["session"]: (s["est"] if s.get("est") is not None else s["departure"]) for s in case["sessions"]}
        for name in ("sessions", "sessions_again"):
            for s in v.get(name, []):
                want = st["est"].get(s["session"], base.get(s["session"]))
                if want is not None and s["est"] != want:
                    fails.append({"kind": "view_mismatch:sessions", "detail": f"{where}period {t} {name}: session {s['session']} estimated_departure "
                                  f"{s['est']}, the EV's estimate is {want}{hist}"})
                    break


def _requery_checks(case, v, exp_infra, fails, where=""):
    """The Interface asked AGAIN before schedule() returns (after the vandal rewrote everything it had been
    handed, in the vandalised run): the same answers — i.e. still the ground truth, which did not move."""
    rq = v.get("requery")
    if rq is None:
        return
    t = v["t"]
    tr = v["truth"]
    tr2 = rq["truth"]
    moved = [k for k in tr2 if not _same(S_json(tr2[k]), S_json(tr.get(k)))]
    if moved:
        fails.append({"kind": "isolation_broken", "detail": f"{where}period {t}: simulator state changed DURING the invocation: {moved[0]} "
                      f"{_short(tr.get(moved[0]))} -> {_short(tr2[moved[0]])}"})
    if rq["t"] != t or rq["datetime"] != v["datetime"]:
        fails.append({"kind": "view_mismatch:current_time", "detail": f"{where}period {t}: asked again: current_time {rq['t']} {rq['datetime']}"})
    for name in ("sessions", "sessions_again"):
        if not _same(rq[name], tr["sessions"]):
            fails.append({"kind": "view_mismatch:sessions", "detail": f"{where}period {t}: active_sessions() asked again within the invocation {rq[name]} truth {tr['sessions']}"})
            break
    keys = ("session", "station", "delivered", "arrival", "departure", "requested")
    if not _same([{k: s[k] for k in keys} for s in rq["active_evs"]], [{k: s[k] for k in keys} for s in tr["sessions"]]) or \
            not _same({s["session"]: s["rate"] for s in rq["active_evs"]}, tr["last_rates"]):
        fails.append({"kind": "view_mismatch:active_evs", "detail": f"{where}period {t}: active_evs asked again within the invocation {rq['active_evs']} truth {tr['sessions']} rates {tr['last_rates']}"})
    if not _same(rq["last_pilots"], tr["last_pilots"]):
        fails.append({"kind": "view_mismatch:last_pilots", "detail": f"{where}period {t}: last_applied_pilot_signals asked again {rq['last_pilots']} truth {tr['last_pilots']}"})
    if not _same(rq["last_rates"], tr["last_rates"]):
        fails.append({"kind": "view_mismatch:last_rates", "detail": f"{where}period {t}: last_actual_charging_rate asked again {rq['last_rates']} truth {tr['last_rates']}"})
    if not _eqnum(rq["peak"], tr["peak"]):
        fails.append({"kind": "view_mismatch:peak", "detail": f"{where}period {t}: get_prev_peak asked again {rq['peak']} truth {tr['peak']}"})
    if rq["infra"] is None or not _same(rq["infra"], tr["infra"]) or any(w is not None and not _same(rq["infra"][k], w) for k, w in exp_infra.items()):
        fails.append({"kind": "view_mismatch:infra", "detail": f"{where}period {t}: infrastructure_info() asked again {_short(rq['infra'])} network {_short(tr['infra'])}"})


def _special_checks(case, obs, fails, inv, vts, inv1):
    """interrupted / resumed runs and step() prefixes of VALID cases: the invocation list of the completed simulation, the
    periods in which run() aborted, the state each abort (and each save / load) left, the step() contract"""
    ref = reference_run(case)
    intr, sp = _interrupt(case), _step_prefix(case)
    tail = (f", interrupt {intr}" if intr else "") + (f", step() prefix of {len(sp['scheds'])} call(s)" + (" + JSON" if sp.get("json") else "") if sp else "") \
        + (f", ignored-type events at {sorted(int(o['t']) for o in _others(case))}" if _others(case) else "") \
        + (f", events from {_splits(case)} on added after the previous run() returned" if _splits(case) else "")
    if sp:
        if obs.get("step_results") != ref["steps"]:
            fails.append({"kind": "step_contract", "detail": f"step() calls [error, returned flag, iteration after the call]: {obs.get('step_results')}, "
                          f"contract (advance to the next period in which a recompute is due; return `no event left`): {ref['steps']}, "
                          f"max_recompute={case.get('max_recompute')}, event periods {sorted(set(_known_ts(case)))}"})
        a = obs.get("after_steps")
        if a is not None and any(a[k] != ref["after_steps"][k] for k in ("iter", "resolve", "queue_empty")):
            fails.append({"kind": "step_contract", "detail": f"state left by the step() prefix {a}, contract {ref['after_steps']} "
                          f"(_resolve must be set iff the last call stopped in an event period)"})
        if a is not None and a.get("reload"):
            _reload_checks(a["reload"], fails, "after the step() prefix")
    if obs["err"] is not None:
        fails.append({"kind": "invocation_set", "detail": f"the simulation did not complete: {obs['err']} in period {obs['iter']}; invoked {inv}, required {ref['inv']}{tail}"})
        return
    if inv != ref["inv"] or obs["iter"] != (ref["stops"][-1] if ref["stops"] else 0):
        fails.append({"kind": "invocation_set", "detail": f"invoked {inv} (final iteration {obs['iter']}), required {ref['inv']} (final iteration "
                      f"{ref['stops'][-1] if ref['stops'] else 0}; a period in which run() was aborted by the scheduler is invoked again on resume, once), "
                      f"max_recompute={case.get('max_recompute')}{tail}"})
    if vts != inv:
        fails.append({"kind": "invocation_set", "detail": f"schedule() entered in {vts}, scheduler.run() called in {inv}"})
    if obs.get("stops") != ref["stops"]:
        fails.append({"kind": "invocation_set", "detail": f"the (resumed) run() calls returned at iterations {obs.get('stops')}, expected {ref['stops']}{tail}"})
    # the declarative form on the completed simulation: after the prefix, period t is an invocation period iff an event
    # occurred in t or max_recompute periods have elapsed since a schedule was last supplied
    h = ref["after_steps"]["iter"] if sp else 0
    evs = set(_known_ts(case))
    mr = case.get("max_recompute")
    last = (h - 1) if (sp and ref["supplied"]) else None
    want = []
    for t in range(h, obs["iter"]):
        if t in evs or (mr is not None and (last is None or t - last >= mr)):
            want.append(t)
            last = t
    if inv1 != want and not _others(case):
        fails.append({"kind": "invocation_set", "detail": f"invocation periods of the completed simulation {inv1} (from iteration {h} on), "
                      f"rule: {want}, max_recompute={mr}{tail}"})
    ab = obs.get("interruptions") or []
    if [a["t"] for a in ab] != [a["t"] for a in ref["aborts"]]:
        fails.append({"kind": "invocation_set", "detail": f"run() was aborted by the injected scheduler failure in {[a['t'] for a in ab]}, "
                      f"the scheduler is required (hence raises) in {[a['t'] for a in ref['aborts']]}{tail}"})
    for a, r in zip(ab, ref["aborts"]):
        if a["resolve"] != r["resolve"]:
            fails.append({"kind": "resume_state_lost", "detail": f"run() aborted in period {a['t']}: _resolve is {a['resolve']}, "
                          f"an event {'occurred' if r['resolve'] else 'did not occur'} in that period and its recompute request is not answered yet"})
        if a.get("reload"):
            _reload_checks(a["reload"], fails, f"after the abort in period {a['t']}")
    # the completed simulation is the UNINTERRUPTED one.  (Not judged here: run() aborted in a period in which the LAST
    # queued event — of a type the simulator ignores, alone in its period — had just been popped: the queue is empty and no
    # recompute is pending, so the second run() returns at once and that period is never simulated.  The reference above
    # follows the code; observation reported to the maintainer, C09's quantifier is over the native event types.)
    pl = obs.get("plain")
    if pl is not None and ref["stops"] == _stage_horizons(case):
        for k in ("err", "iter", "queue_empty", "pending", "resolve", "last_upd", "event_history", "ev_history", "occ_final", "occ",
                  "pilots", "rates", "peak", "evs", "evse_pilot", "noise_draws", "final_infra", "edits_applied", "stops"):
            if not _same(S_json(obs["clean"].get(k)), S_json(pl.get(k))):
                fails.append({"kind": "resume_differs", "detail": f"{k}: interrupted and resumed {_short(obs['clean'].get(k))}, uninterrupted {_short(pl.get(k))}{tail}"})
                break
        strip = lambda v: {k: x for k, x in v.items() if k not in ("requery",)}  # noqa: E731
        cv = [strip(v) for v in obs["clean"]["views"]]
        cvt = [v["t"] for v in cv]
        keep = [i for i in range(len(cv)) if not (cvt[i] in [a["t"] for a in ab] and i + 1 < len(cv) and cvt[i + 1] == cvt[i])]
        for i in range(len(cv) - 1):
            if i not in keep and not _same(S_json(cv[i]), S_json(cv[i + 1])):
                fails.append({"kind": "resume_views_differ", "detail": f"period {cvt[i]}: the view of the failed call {_short(cv[i])} and of its repetition "
                              f"on resume {_short(cv[i + 1])} differ"})
                break
        a1, a2 = [cv[i] for i in keep], [strip(v) for v in pl["views"]]
        if not _same(S_json(a1), S_json(a2)):
            k = next((i for i, (x, y) in enumerate(zip(a1, a2)) if not _same(S_json(x), S_json(y))), min(len(a1), len(a2)))
            fails.append({"kind": "resume_views_differ", "detail": f"view #{k} of the interrupted and resumed run {_short(a1[k:k + 1])} differs from the "
                          f"uninterrupted run's {_short(a2[k:k + 1])}{tail}"})


def _reload_checks(r, fails, where):
    """what to_json -> from_json -> update_scheduler must carry over for C05: the iteration, the pending recompute request
    (`_resolve`), the period of the last schedule update (None = never), max_recompute, the queue, every session"""
    if r["same_object"]:
        fails.append({"kind": "resume_state_lost", "detail": f"{where}: from_json returned the dumped object itself"})
    if r["missing_evs"]:
        fails.append({"kind": "resume_state_lost", "detail": f"{where}: sessions {r['missing_evs']} are not reachable from the loaded simulator"})
    for k in ("iter", "resolve", "last_upd", "max_recompute", "queue"):
        if r[k][0] != r[k][1] or type(r[k][0]) is not type(r[k][1]):
            fails.append({"kind": "resume_state_lost", "detail": f"{where}: {k} was {r[k][0]!r} when the simulator was written and is {r[k][1]!r} in the loaded one"})
    if r.get("net_class") != "JGuardNet":
        fails.append({"kind": "resume_state_lost", "detail": f"{where}: the loaded network is a {r.get('net_class')}"})


def oracle(case, obs):
    fails = []
    views = obs["views"]
    clean = obs["clean"]
    inv = obs["invoked"]
    valid = is_valid(case)
    vts = [v["t"] for v in views]

    if obs["err"] == "Other:Runaway":
        return [{"kind": "run_does_not_terminate", "detail": f"run() still going in period {obs['iter']}; last timestamp of the scenario {_bound(case) - 6}; invoked {inv[:40]}"}]

    # --- at most once per period, strictly increasing; every schedule() call belongs to a run() call.  A period in which
    #     the scheduler RAISED (injected failure) and the run was resumed is invoked again on resume: exactly once more.
    special = bool(_interrupt(case) or _step_prefix(case))
    aborted = [a["t"] for a in obs.get("interruptions") or []]

    def dedup(lst):
        """the list with ONE copy of every aborted period removed (the failed call, directly before its repetition)"""
        out, drop = [], list(aborted)
        i = 0
        while i < len(lst):
            if lst[i] in drop and i + 1 < len(lst) and lst[i + 1] == lst[i]:
                drop.remove(lst[i])
                i += 1
                continue
            out.append(lst[i])
            i += 1
        return out

    inv1, vts1 = dedup(inv), dedup(vts)
    if any(b <= a for a, b in zip(inv1, inv1[1:])):
        fails.append({"kind": "invoked_twice", "detail": f"scheduler.run() periods {inv}" + (f" (run() aborted by the scheduler and resumed in {aborted})" if aborted else "")})
    if any(b <= a for a, b in zip(vts1, vts1[1:])) or any(t not in inv for t in vts):
        fails.append({"kind": "invoked_twice", "detail": f"schedule() periods {vts}, run() periods {inv}" + (f" (aborted and resumed in {aborted})" if aborted else "")})

    # --- the set of invocation periods (valid layouts; up to the period in which run() raised, if it did).
    #     Events of a type the simulator does not react to keep the loop going up to their timestamp and are
    #     recorded in event_history, but are no reason for an invocation; a history handed over in stages is
    #     the history of the same events handed over at once.
    if valid and special:
        _special_checks(case, obs, fails, inv, vts, inv1)
    elif valid:
        ts = [s["departure"] for s in case["sessions"]] + [int(r) for r in case.get("recomputes", [])] + [int(o["t"]) for o in _others(case)] \
            + [int(n["t"]) for n in _noops(case)]
        full = (max(ts) + 1) if ts else 0
        if obs["err"] is None:
            exp = expected_invocations(case, full)
            if obs["iter"] != full or inv != exp:
                fails.append({"kind": "invocation_set", "detail": f"invoked {inv} (final iteration {obs['iter']}), required {exp} over {full} periods, max_recompute={case.get('max_recompute')}"
                              + (f", ignored-type events at {sorted(int(o['t']) for o in _others(case))}" if _others(case) else "")
                              + (f", events from {_splits(case)} on added after the previous run() returned" if _splits(case) else "")})
            if vts != inv:
                fails.append({"kind": "invocation_set", "detail": f"schedule() entered in {vts}, scheduler.run() called in {inv}"})
            if obs.get("stops") != _stage_horizons(case):
                fails.append({"kind": "invocation_set", "detail": f"the run() calls returned at iterations {obs.get('stops')}, last timestamp + 1 of the events handed over so far: {_stage_horizons(case)}"})
            seen_other = sorted(e[0] for e in obs["event_history"] if e[1] not in KNOWN_TYPES)
            if seen_other != sorted(int(o["t"]) for o in _others(case)):
                fails.append({"kind": "event_history", "detail": f"ignored-type events in event_history {seen_other}, queued {sorted(int(o['t']) for o in _others(case))}"})
        elif obs["err"] in SCHED_ERRORS or obs["err"] == "ValueError":
            p = obs["iter"]
            exp = expected_invocations(case, min(p + 1, full))
            if [t for t in inv if t < p] != [t for t in exp if t < p] or (p in inv and p not in exp):
                fails.append({"kind": "invocation_set", "detail": f"run() raised {obs['err']} in period {p}: invoked {inv}, required {exp}"})

    # --- each view: after the period's events, equal to the ground truth at that moment; asked again: the same
    #     (the infrastructure: what the case's own edit history, as far as applied at that moment, makes of the network)
    memo = {}

    def exp_at(applied):
        key = tuple(applied or ())
        if key not in memo:
            memo[key] = expected_infra(case, key)
        return memo[key]

    for idx, e in obs.get("edit_errors", []):
        if idx not in _net_state(case, obs.get("edits_applied", []))["rejected"]:
            fails.append({"kind": "edit_rejected", "detail": f"net_edits[{idx}] {_edits(case)[idx]['ops']} raised {e} on the simulation's network"})
    for v in views:
        _view_checks(case, v, exp_at(v.get("edits")), fails)
        _edit_checks(case, v, exp_at(v.get("edits")), fails)
        _requery_checks(case, v, exp_at(v.get("edits")), fails)
        if valid and obs["err"] is None and v.get("edits", []) != expected_applied(case, "inside", v["t"]):
            fails.append({"kind": "edit_history_not_applied", "detail": f"period {v['t']}: the harness had applied the entries {v.get('edits')} of "
                          f"net_edits, the case schedules {expected_applied(case, 'inside', v['t'])} before this invocation "
                          "(post_charging_update not called once per period?)"})

    # --- the Interface asked from OUTSIDE schedule() (before run(), between two run()s, after the last one)
    hs = _stage_horizons(case)
    for o in obs.get("outside", []):
        where = f"[outside schedule(), {o['when']}] "
        if "error" in o:
            if valid:
                fails.append({"kind": "view_mismatch:sessions", "detail": f"{where}the Interface raised {o['error']}"})
            continue
        _view_checks(case, o, exp_at(o.get("edits")), fails, where=where, inside=False)
        _edit_checks(case, o, exp_at(o.get("edits")), fails, where=where)
        _requery_checks(case, o, exp_at(o.get("edits")), fails, where=where)
        if o["when"].startswith(("steps", "abort")):
            # asked after a step() prefix / after an abort (and reload), while EVs are connected: the same-moment ground
            # truth above decides; the moment itself:
            if valid and obs["err"] is None:
                ref = reference_run(case)
                want_t = ref["after_steps"]["iter"] if o["when"] == "steps" else \
                    ([a["t"] for a in ref["aborts"]] + [None] * 9)[int(o["when"].split(":")[1])]
                if o["t"] != want_t:
                    fails.append({"kind": "view_mismatch:current_time", "detail": f"{where}current_time {o['t']}, expected {want_t}"})
            continue
        if valid and obs["err"] is None:
            if o.get("edits", []) != expected_applied(case, o["when"]):
                fails.append({"kind": "edit_history_not_applied", "detail": f"{where}the harness had applied the entries {o.get('edits')} of net_edits, "
                              f"the case schedules {expected_applied(case, o['when'])} before this query"})
            hs = reference_run(case)["stops"] if special else hs
            want_t = 0 if o["when"].startswith("pre") else hs[-1] if o["when"] == "post" else hs[int(o["when"].split(":")[1])]
            if o["t"] != want_t:
                fails.append({"kind": "view_mismatch:current_time", "detail": f"{where}current_time {o['t']}, expected {want_t}"})
            # no run() is in progress: every session handed over so far has left (or nothing was plugged in yet)
            if o["sessions"] or o["last_rates"] or o["last_pilots"] or o["active_evs"]:
                fails.append({"kind": "view_mismatch:sessions", "detail": f"{where}period {o['t']}: sessions {[s['session'] for s in o['sessions']]} "
                              f"rates {o['last_rates']} pilots {o['last_pilots']} although no EV is connected"})

    # --- exact-boundary stream: the generator's verified expectation (remaining == / one ulp above / below 1e-3)
    for sid, b in (case.get("boundary") or {}).items():
        if obs["err"] is not None:
            break
        for v in views:
            if b["from"] <= v["t"] < b["until"]:
                handed = any(s["session"] == sid for s in v["sessions"])
                if handed != b["active"]:
                    fails.append({"kind": "view_mismatch:sessions", "detail": f"period {v['t']}: session {sid} with remaining demand "
                                  f"{b['remaining']!r} kWh ({b['class']} the 1e-3 threshold; active iff remaining > 1e-3) handed out: {handed}"})
                    break

    # --- the views against the FINAL trajectory and the layout (independent of the same-moment snapshot)
    eff_sessions = _effective_sessions(case)      # (with the departures that actually take place: user-queued early UnplugEvents)
    if valid and obs["err"] is None and not _stoch(case):
        sts = [st["id"] for st in case["stations"]]
        per_h = float(I.num(case["period"])) / 60
        for v in views:
            t = v["t"]
            want_conn = []
            for st in sts:
                here = [s["session"] for s in eff_sessions if s["station"] == st and s["arrival"] <= t < s["departure"]]
                want_conn.append(here[0] if here else None)
            if v["truth"]["connected"] != want_conn:
                fails.append({"kind": "before_events", "detail": f"period {t}: connected at call time {v['truth']['connected']}, sessions with arrival<=t<departure {want_conn}"})
            seen = {s["session"]: s for s in v["sessions"]}
            for s in eff_sessions:
                if not (s["arrival"] <= t < s["departure"]):
                    if s["session"] in seen:
                        fails.append({"kind": "view_mismatch:sessions", "detail": f"period {t}: session {s['session']} handed out although not connected"})
                    continue
                k = sts.index(s["station"])
                V = float(I.num(case["stations"][k]["V"]))
                deliv = sum(obs["rates"][k][tau] * V / 1000 * per_h for tau in range(s["arrival"], t))
                rem = float(I.num(s["requested"])) - deliv
                if abs(rem - 1e-3) <= 1e-9 + 1e-9 * abs(rem):
                    continue        # razor edge of the fully-charged threshold
                if (rem > 1e-3) != (s["session"] in seen):
                    fails.append({"kind": "view_mismatch:sessions", "detail": f"period {t}: session {s['session']} remaining demand {rem} kWh, handed out: {s['session'] in seen}"})
                    continue
                if s["session"] in seen:
                    h = seen[s["session"]]
                    if not close(_num(h["delivered"]), deliv, 1e-8) or not close(_num(h["remaining_demand"]), rem, 1e-8):
                        fails.append({"kind": "view_mismatch:sessions", "detail": f"period {t} session {s['session']}: energy_delivered {h['delivered']}, charging_rates sum to {deliv}"})
                    want_rate = obs["rates"][k][t - 1] if t - 1 >= s["arrival"] else 0.0
                    if not close(_num(v["last_rates"].get(s["session"], "nan")), want_rate):
                        fails.append({"kind": "view_mismatch:last_rates", "detail": f"period {t} session {s['session']}: last rate {v['last_rates'].get(s['session'])}, charging_rates[{k}][{t-1}] = {want_rate}"})
                    if t - 1 > 0 and s["arrival"] <= t - 1:
                        want_p = obs["pilots"][k][t - 1]
                        if not close(_num(v["last_pilots"].get(s["session"], "nan")), want_p):
                            fails.append({"kind": "view_mismatch:last_pilots", "detail": f"period {t} session {s['session']}: last pilot {v['last_pilots'].get(s['session'])}, pilot_signals[{k}][{t-1}] = {want_p}"})
                    elif s["session"] in v["last_pilots"]:
                        fails.append({"kind": "view_mismatch:last_pilots", "detail": f"period {t} session {s['session']}: a last pilot for a session that arrived in this period / before the third period"})
            agg = [sum(obs["rates"][k][tau] for k in range(len(sts))) for tau in range(t)]
            if not close(_num(v["peak"]), max([0.0] + agg)):
                fails.append({"kind": "view_mismatch:peak", "detail": f"period {t}: peak {v['peak']}, max aggregate rate so far {max([0.0] + agg)}"})

    # --- isolation: the vandalised run is the clean run
    keys = ("err", "iter", "queue_empty", "pending", "resolve", "last_upd", "event_history", "ev_history", "invoked",
            "occ_final", "occ", "pilots", "rates", "peak", "evs", "evse_pilot", "noise_draws", "final_infra",
            "edits_applied", "edit_errors", "interruptions", "step_results", "after_steps")
    for k in keys:
        if not _same(S_json(obs.get(k)), S_json(clean.get(k))):
            fails.append({"kind": "isolation_broken", "detail": f"{k}: with vandalism {_short(obs.get(k))} without {_short(clean.get(k))}"})
            break
    for k in ("stops", "outside"):
        if not _same(S_json(obs.get(k)), S_json(clean.get(k))):
            fails.append({"kind": "isolation_broken", "detail": f"{k}: with vandalism {_short(obs.get(k))} without {_short(clean.get(k))}"})
            break
    if not _same(S_json(views), S_json(clean["views"])):
        k = next((i for i, (a, b) in enumerate(zip(views, clean["views"])) if not _same(S_json(a), S_json(b))), min(len(views), len(clean["views"])))
        fails.append({"kind": "isolation_broken", "detail": f"the view handed out at call #{k} differs between the vandalised and the clean run: "
                      f"{_short(views[k:k+1])} vs {_short(clean['views'][k:k+1])}"})
    if obs.get("final_infra") is not None:
        for k, want in exp_at(obs.get("edits_applied")).items():
            if want is not None and not _same(obs["final_infra"][k], want):
                fails.append({"kind": "isolation_broken", "detail": f"network {k} after the run {obs['final_infra'][k]}, built with {want}"
                              + (f" and edited by the entries {obs.get('edits_applied')} of net_edits" if _edits(case) else "")})
                break
    _copy_checks(case, obs, fails)
    return fails


TRAJ_KEYS = ("err", "iter", "queue_empty", "pending", "resolve", "last_upd", "event_history", "ev_history", "invoked", "occ_final", "occ",
             "pilots", "rates", "peak", "evs", "evse_pilot", "noise_draws", "final_infra", "edits_applied")


def _copy_checks(case, obs, fails):
    """copy.deepcopy(simulator), the run continued on the COPY: the copy starts in the state of the original and shares nothing
    with it; the original, completed AFTER the copy has finished, goes through the same history with the same views (so neither
    disturbed the other); a simulator copied before / after a step() prefix and run == the identically built simulator that was
    never copied (an interrupted one: `_special_checks`, against the uninterrupted twin)"""
    for side, o in (("", obs), ("[clean run] ", obs["clean"])):
        for c in o.get("clones") or []:
            if c["same_object"]:
                fails.append({"kind": "copy_shares_state", "detail": f"{side}deepcopy(simulator) at iteration {c['iter'][0]}: the copy, its network, scheduler, "
                              "event queue or one of its EVs IS the original's"})
            for k in ("iter", "resolve", "last_upd", "max_recompute", "queue"):
                if c[k][0] != c[k][1]:
                    fails.append({"kind": "copy_state_lost", "detail": f"{side}deepcopy(simulator): {k} is {c[k][0]!r} in the original and {c[k][1]!r} in the copy"})
        og = o.get("orig")
        if og is None:
            continue
        bad = next((k for k in TRAJ_KEYS if not _same(S_json(o.get(k)), S_json(og.get(k)))), None)
        if bad is not None:
            fails.append({"kind": "copy_differs", "detail": f"{side}simulator copied at `{og['where']}`; {bad}: the copy, run to the end, {_short(o.get(bad))}; "
                          f"the original, completed afterwards, {_short(og.get(bad))}"})
        a, b = o["views"][og["nviews"]:], og["views"]
        if not _same(S_json(a), S_json(b)):
            k = next((i for i, (x, y) in enumerate(zip(a, b)) if not _same(S_json(x), S_json(y))), min(len(a), len(b)))
            fails.append({"kind": "copy_differs", "detail": f"{side}simulator copied at `{og['where']}`: view #{k} after the copy was taken: the copy's scheduler saw "
                          f"{_short(a[k:k + 1])}, the original's {_short(b[k:k + 1])}"})
    pl = obs.get("plain")
    if pl is not None and _clone(case) and not _interrupt(case):
        cv = obs["clean"]
        bad = next((k for k in TRAJ_KEYS + ("stops", "step_results", "after_steps") if not _same(S_json(cv.get(k)), S_json(pl.get(k)))), None)
        if bad is not None:
            fails.append({"kind": "copy_differs", "detail": f"simulator copied at `{_clone(case)}`; {bad}: the copy {_short(cv.get(bad))}, an identically built simulator "
                          f"that was never copied {_short(pl.get(bad))}"})
        elif not _same(S_json(cv["views"]), S_json(pl["views"])):
            k = next((i for i, (x, y) in enumerate(zip(cv["views"], pl["views"])) if not _same(S_json(x), S_json(y))), min(len(cv["views"]), len(pl["views"])))
            fails.append({"kind": "copy_differs", "detail": f"simulator copied at `{_clone(case)}`: view #{k}: the copy's scheduler saw {_short(cv['views'][k:k + 1])}, that of "
                          f"an identically built simulator that was never copied {_short(pl['views'][k:k + 1])}"})


def S_json(x):
    if isinstance(x, float):
        return I.enc(x)
    if isinstance(x, dict):
        return {k: S_json(v) for k, v in x.items()}
    if isinstance(x, (list, tuple)):
        return [S_json(v) for v in x]
    return x


def _short(x, n=400):
    s = repr(x)
    return s if len(s) <= n else s[:n] + "…"


# ------------------------------------------------------------------ corpus / generation


def _b(cap=40, init=5):
    return {"two": False, "cap": cap, "init": init, "maxp": 7}


def _s(sid, st, a, d, req=10.0):
    return {"session": sid, "station": st, "arrival": a, "departure": d, "requested": req, "batt": _b(), "est": None}


def _basic(i, kind=None):
    return {"id": f"S{i}", "kind": kind or {"t": "cont", "min": 0, "max": 32}, "V": 208, "phase": [0, 30, -90][i % 3]}


def corpus():
    import random as _random
    out = [boundary_case(_random.Random(1000 + i)) for i in range(12)]
    two = [_basic(0), _basic(1, {"t": "finite", "rates": [8, 16, 24, 32]})]
    sched = {"type": "scripted", "default": [["S0", [16.0, 16.0]], ["S1", [8.0, 8.0]]], "script": []}
    for mr in MR_CHOICES + [0]:
        # the Lean example: session [1,6), recompute at 9 -> mr=2: [0,1,3,5,6,8,9]
        out.append({"stations": two, "constraint": {"limit": 64.0}, "sessions": [_s("x", "S0", 1, 6)], "recomputes": [9],
                    "period": 5, "max_recompute": mr, "noise": [], "sched": sched})
    # a session that gets fully charged while connected (drops out of the views), back-to-back reuse
    out.append({"stations": two, "constraint": {"limit": 64.0},
                "sessions": [_s("a", "S0", 0, 8, req=0.5), _s("b", "S0", 8, 11), _s("c", "S1", 2, 9, req=0.2)],
                "recomputes": [4, 4, 12], "period": 5, "max_recompute": 3, "noise": [], "sched": sched})
    # constraint-free network: the 0 x N infrastructure view (was defect F3)
    out.append({"stations": two, "constraint": None, "sessions": [_s("a", "S0", 1, 4), _s("b", "S1", 1, 3)],
                "recomputes": [], "period": 1, "max_recompute": 2, "noise": [], "sched": sched})
    # late events: negative timestamps are all processed in period 0 (timestamp < iteration)
    out.append({"stations": two, "constraint": {"limit": 64.0}, "sessions": [_s("a", "S0", -3, 2), _s("b", "S1", 1, 4)],
                "recomputes": [-1, 6], "period": 5, "max_recompute": 2, "noise": [], "malformed": "late", "sched": sched})
    # departure <= arrival: the unplug event is processed one period late
    out.append({"stations": two, "constraint": {"limit": 64.0}, "sessions": [_s("a", "S0", 3, 2), _s("b", "S1", 1, 9)],
                "recomputes": [], "period": 5, "max_recompute": 3, "noise": [], "malformed": "dep_le_arr", "sched": sched})
    # scheduler crash in a max_recompute-only period
    out.append({"stations": two, "constraint": {"limit": 64.0}, "sessions": [_s("a", "S0", 0, 9)], "recomputes": [],
                "period": 5, "max_recompute": 2, "noise": [], "malformed": "sched_fail",
                "sched": {"type": "scripted", "default": [["S0", [16.0]]], "script": [{"t": 4, "fail": True}]}})
    # ignored-type events (base acnsim.Event, user subclasses with default / finite precedence) in the periods of a
    # plug-in (1), an unplug (6), a RecomputeEvent (9), alone (3), and after everything else (12: extends the run)
    oth = [{"t": 1, "kind": "base", "when": "ctor"}, {"t": 6, "kind": "sub", "when": "ctor"}, {"t": 9, "kind": "sub", "when": "added"},
           {"t": 3, "kind": "base", "when": "added"}, {"t": 12, "kind": "prec", "prec": 5, "when": "ctor"}]
    for mr in (None, 1, 3):
        out.append({"stations": two, "constraint": {"limit": 64.0}, "sessions": [_s("x", "S0", 1, 6)], "recomputes": [9],
                    "period": 5, "max_recompute": mr, "noise": [], "sched": sched, "others": oth})
        out.append({"stations": two, "constraint": {"limit": 64.0}, "sessions": [_s("x", "S0", 1, 6), _s("y", "S1", 6, 8)], "recomputes": [9],
                    "period": 5, "max_recompute": mr, "noise": [], "sched": sched, "pre_query": bool(mr),
                    "others": [{"t": 6, "kind": "prec", "prec": p, "when": "ctor"} for p in (-1, 5, 15, 25)] + oth[:3]})
    # the Interface asked before run() with an arrival in period 0; a finished simulation extended by further
    # events and resumed, with an arrival exactly in the period where the first run() stopped (and one later)
    for mr in (None, 1, 3):
        out.append({"stations": two, "constraint": {"limit": 64.0}, "sessions": [_s("a", "S0", 0, 4), _s("b", "S1", 2, 5)], "recomputes": [],
                    "period": 5, "max_recompute": mr, "noise": [], "sched": sched, "pre_query": True})
        out.append({"stations": two, "constraint": {"limit": 64.0},
                    "sessions": [_s("a", "S0", 1, 4), _s("b", "S1", 5, 8), _s("c", "S0", 5, 7), _s("d", "S0", 11, 13)],
                    "recomputes": [10], "period": 5, "max_recompute": mr, "noise": [], "sched": sched, "splits": [5, 9],
                    "others": [{"t": 8, "kind": "base", "when": "ctor"}] if mr else []})
    # the Simulator constructed with an EMPTY queue, asked, then given its events
    out.append({"stations": two, "constraint": None, "sessions": [_s("a", "S0", 0, 3), _s("b", "S1", 1, 2)], "recomputes": [2],
                "period": 5, "max_recompute": 2, "noise": [], "sched": sched, "splits": [0], "pre_query": True})
    # the network EDITED between invocations.  (a) a single site limit re-rated under its own name from the
    # post_charging_update hook of period 2 and again of period 6: the names, their order and the matrix stay, only the
    # limit moves — every invocation from period 3 on must see 24 A, from period 7 on 48 A
    agg = [["S0", 1.0], ["S1", 1.0]]
    for mr in (None, 1, 3):
        out.append({"stations": two, "constraint": {"limit": 64.0}, "sessions": [_s("x", "S0", 1, 6), _s("y", "S1", 4, 8)], "recomputes": [9],
                    "period": 5, "max_recompute": mr, "noise": [], "sched": sched, "pre_query": mr == 3,
                    "net_edits": [{"at": "hook", "t": 2, "kind": "limit_last", "ops": [{"op": "update", "name": "agg", "current": agg, "limit": 24.0}]},
                                  {"at": "hook", "t": 6, "kind": "limit_last", "ops": [{"op": "update", "name": "agg", "current": agg, "limit": 48.0}]}]})
    # (b) three constraints: limit of the last; new coefficients under the same name and limit; every constraint in
    # order (the name list ends up unchanged); remove + re-add under the old name; rename; remove; add; tariff; estimate
    ext = [{"current": [["S1", 2.0]], "limit": 40.0, "name": "c1"}, {"current": [["S0", 1.0], ["S1", -1.0]], "limit": 16.0, "name": None}]
    hist = [{"at": "pre", "kind": "limit_last", "ops": [{"op": "update", "name": "_const_2", "current": [["S0", 1.0], ["S1", -1.0]], "limit": 17.0}]},
            {"at": "hook", "t": 0, "kind": "coef_last", "ops": [{"op": "update", "name": "_const_2", "current": [["S0", 0.5]], "limit": 17.0}]},
            {"at": "hook", "t": 1, "kind": "cycle", "ops": [{"op": "update", "name": "agg", "current": agg, "limit": 60.0},
                                                          {"op": "update", "name": "c1", "current": [["S1", 2.0]], "limit": 41.0},
                                                          {"op": "update", "name": "_const_2", "current": [["S0", 0.5]], "limit": 18.0}]},
            {"at": "hook", "t": 2, "kind": "readd", "ops": [{"op": "remove", "name": "c1"}, {"op": "add", "name": "c1", "current": [["S1", 2.0]], "limit": 12.0}]},
            {"at": "hook", "t": 3, "kind": "rename", "ops": [{"op": "update", "name": "agg", "current": agg, "limit": 60.0, "new_name": "site"}]},
            {"at": "hook", "t": 4, "kind": "tariff", "ops": [{"op": "tariff", "name": "sce_tou_ev_8_june_2019", "inplace": True},
                                                            {"op": "est", "session": "x", "value": 9}]},
            {"at": "hook", "t": 5, "kind": "remove", "ops": [{"op": "remove", "name": "_const_2"}, {"op": "remove", "name": "site"}]},
            {"at": "hook", "t": 6, "kind": "remove", "ops": [{"op": "remove", "name": "c1"}]},
            {"at": "hook", "t": 7, "kind": "add", "ops": [{"op": "add", "name": None, "current": [["S1", 1.0]], "limit": 30.0}]}]
    for mr in (1, 2):
        out.append({"stations": two, "constraint": {"limit": 64.0}, "extra_constraints": ext, "sessions": [_s("x", "S0", 1, 8), _s("y", "S1", 3, 9)],
                    "recomputes": [], "period": 5, "max_recompute": mr, "noise": [], "sched": sched, "pre_query": True, "net_edits": hist})
    # (c) a FINISHED simulation re-rated, given more events and resumed (and re-rated again from the hook of the second run)
    for mr in (None, 2):
        out.append({"stations": two, "constraint": {"limit": 64.0}, "sessions": [_s("a", "S0", 1, 4), _s("b", "S1", 5, 8), _s("c", "S0", 5, 7)],
                    "recomputes": [], "period": 5, "max_recompute": mr, "noise": [], "sched": sched, "splits": [5],
                    "net_edits": [{"at": "stage", "k": 0, "kind": "limit_last", "ops": [{"op": "update", "name": "agg", "current": agg, "limit": 20.0}]},
                                  {"at": "hook", "t": 5, "kind": "limit_last", "ops": [{"op": "update", "name": "agg", "current": agg, "limit": 21.0}]}]})
    # INTERRUPTED, SAVED AND RESUMED: the Lean example (session [1,6), recompute event at 9): the scheduler raises in an
    # event period (1, 6), a timer period (3 with max_recompute 2 / 3), period 0 with nothing ever scheduled (max_recompute
    # set: `_last_schedule_update` is None at the abort), a quiet period (2: never fires for None / 2), the LAST period (9);
    # resumed in place and through JSON
    for mr in (None, 1, 2, 3):
        for at in ([1], [3], [0], [2], [9], [6, 9], [0, 1, 5]):
            for how in ("rerun", "json"):
                out.append({"stations": two, "constraint": {"limit": 64.0}, "sessions": [_s("x", "S0", 1, 6)], "recomputes": [9],
                            "period": 5, "max_recompute": mr, "noise": [], "sched": sched, "interrupt": {"at": at, "how": how},
                            "vandal": "methods" if (len(at) + (mr or 0)) % 2 else None})
    # two sessions, a fully charged one, back-to-back reuse, an ignored-type event, a hook edit — interrupted in the
    # period of the plug-in that follows an unplug on the same station, through JSON
    out.append({"stations": two, "constraint": {"limit": 64.0},
                "sessions": [_s("a", "S0", 0, 8, req=0.5), _s("b", "S0", 8, 11), _s("c", "S1", 2, 9, req=0.2)],
                "recomputes": [4, 4, 12], "period": 5, "max_recompute": 3, "noise": [], "sched": sched,
                "others": [{"t": 8, "kind": "sub", "when": "ctor"}], "interrupt": {"at": [8, 12], "how": "json"},
                "net_edits": [{"at": "hook", "t": 5, "kind": "limit_last", "ops": [{"op": "update", "name": "agg", "current": agg, "limit": 24.0}]}]})
    # DRIVEN BY step() FOR A PREFIX, then run(): 1-4 calls, with and without a JSON round trip in between, with an
    # interruption of the run() that follows
    st1 = [["S0", [8.0]], ["S1", [8.0]]]
    for mr in (None, 1, 2, 3):
        for n in (1, 2, 4):
            for js in (False, True):
                c = {"stations": two, "constraint": {"limit": 64.0}, "sessions": [_s("x", "S0", 1, 6), _s("y", "S1", 3, 8)], "recomputes": [11],
                     "period": 5, "max_recompute": mr, "noise": [], "sched": sched,
                     "step_prefix": {"scheds": [st1, [["S0", [16.0, 16.0]]], [], st1][:n], "json": js}}
                if n == 2:
                    c["interrupt"] = {"at": [6 if mr is None else 5], "how": "json" if js else "rerun"}
                out.append(c)
    # EVENTS THAT CHANGE NOTHING.  The Lean example (session x on S0 [1,6), recompute event at 9); max_recompute None / 7: the timer
    # is never the reason.  (a) x leaves early, in period 3 (UnplugEvent queued by the user): the simulator's own UnplugEvent at
    # 6 finds S0 empty; (b) the same with y taking S0 in period 4: the UnplugEvent of x at 6 finds y; (c) an UnplugEvent for an
    # EV that never arrived (period 4, S1) and a second one for x after it has left (period 8); (d) all of it, added with add_event
    base = {"stations": two, "constraint": {"limit": 64.0}, "recomputes": [9], "period": 5, "noise": [], "sched": sched}
    for mr in (None, 7, 3):
        for when in ("ctor", "added"):
            out.append(dict(base, sessions=[_s("x", "S0", 1, 6)], max_recompute=mr, noops=[{"kind": "early", "session": "x", "t": 3, "when": when}]))
            out.append(dict(base, sessions=[_s("x", "S0", 1, 6), _s("y", "S0", 4, 8)], max_recompute=mr, pre_query=when == "added",
                            noops=[{"kind": "early", "session": "x", "t": 3, "when": when}]))
            out.append(dict(base, sessions=[_s("x", "S0", 1, 6)], max_recompute=mr,
                            noops=[{"kind": "ghost", "session": "ghost", "station": "S1", "t": 4, "when": when}, {"kind": "after", "session": "x", "t": 8, "when": when}]))
        out.append(dict(base, sessions=[_s("x", "S0", 1, 6), _s("y", "S0", 3, 8)], max_recompute=mr, vandal="methods",
                        noops=[{"kind": "early", "session": "x", "t": 3, "when": "added"}, {"kind": "early", "session": "x", "t": 4, "when": "ctor"},
                               {"kind": "ghost", "session": "ghost", "station": "S0", "t": 11, "when": "added"}]))
        # contrib StochasticNetwork, one station: b leaves in period 3 while still WAITING (no station changes), c is swapped in at 6
        out.append({"stations": two[:1], "constraint": {"limit": 64.0}, "sessions": [_s("a", "S0", 0, 6), _s("b", "S0", 1, 3), _s("c", "S0", 2, 9)],
                    "recomputes": [], "period": 5, "max_recompute": mr, "noise": [], "network": "stochastic",
                    "sched": {"type": "scripted", "default": [["S0", [16.0]]], "script": []}})
    # COPIED SIMULATORS: deepcopy before run(); after a step() prefix; after every abort (the scheduler raised)
    for mr in (None, 1, 2, 3):
        out.append(dict(base, sessions=[_s("x", "S0", 1, 6)], max_recompute=mr, clone="pre", pre_query=mr == 2))
        out.append(dict(base, sessions=[_s("x", "S0", 1, 6), _s("y", "S1", 3, 8)], recomputes=[11], max_recompute=mr, clone="steps",
                        step_prefix={"scheds": [st1, [["S0", [16.0, 16.0]]]], "json": mr == 3}))
        for at in ([1], [3], [4, 9]):
            out.append(dict(base, sessions=[_s("x", "S0", 1, 6)], max_recompute=mr, interrupt={"at": at, "how": "copy"},
                            vandal="methods" if (len(at) + (mr or 0)) % 2 else None))
    return out


def _expected_plain(case):
    """invocation periods of the case WITHOUT interruptions and step() prefix (valid layouts)"""
    ts = _known_ts(case, with_others=True)
    return expected_invocations(case, (max(ts) + 1) if ts else 0)


def _add_interrupt(rng, case):
    """the scheduler raises in 1-3 periods: mostly periods in which it is required (event periods, timer-only periods, period
    0, the last period), some in which it is not (the failure never fires); resumed in place or through JSON"""
    ts = _known_ts(case, with_others=True)
    hi = max(ts + [2])
    inv = _expected_plain(case) if S.is_valid_layout(case) else []
    evs = set(_known_ts(case))
    timer = [t for t in inv if t not in evs]
    at = []
    for _ in range(rng.choice([1, 1, 1, 2, 3])):
        q = rng.random()
        if q < 0.35 and evs:
            at.append(rng.choice(sorted(t for t in evs if t >= 0) or [0]))
        elif q < 0.6 and timer:
            at.append(rng.choice(timer))
        elif q < 0.7:
            at.append(0)
        elif q < 0.85 and inv:
            at.append(inv[-1])
        else:
            at.append(rng.randint(0, hi))
    case["interrupt"] = {"at": sorted(set(at)), "how": rng.choice(["rerun", "json"])}
    return case


def _add_step_prefix(rng, case):
    """1-5 step() calls before run(); no timestamp-0 event in most cases (all events moved one period up)"""
    if any(ts < 1 for ts in _known_ts(case, with_others=True)) and rng.random() < 0.85:
        _shift_from(case, -10 ** 9, -1)
        for e in case.get("sched", {}).get("script", []):
            e["t"] += 1
    n = rng.choice([1, 1, 2, 3, 5])
    case["step_prefix"] = {"scheds": [S.gen_schedule(rng, case) for _ in range(n)], "json": rng.random() < 0.5}
    return case


def _add_others(rng, case):
    """1-4 events of a type the simulator has no handler for: mostly in the period of a plug-in / unplug /
    RecomputeEvent (where they are processed last unless they carry a finite precedence), some alone, some after
    the last event the simulator reacts to (they extend the run)"""
    ts = _known_ts(case)
    hi = max(ts + [3])
    out = list(_others(case))
    for _ in range(rng.choice([1, 1, 2, 3, 4])):
        q = rng.random()
        if q < 0.55 and ts:
            t = rng.choice(ts)
        elif q < 0.7:
            t = hi + rng.choice([1, 2, 5])
        else:
            t = rng.randint(0, hi)
        o = {"t": t, "kind": rng.choice(["base", "base", "sub", "sub", "prec"]), "when": "ctor" if rng.random() < 0.7 else "added"}
        if o["kind"] == "prec":
            o["prec"] = rng.choice([-1, 5, 15, 25])
        out.append(o)
    case["others"] = out
    return case


def _shift_from(case, T, delta):
    """move every event with timestamp >= T down by delta periods"""
    for s in case["sessions"]:
        if s["arrival"] >= T:
            s["arrival"] -= delta
            s["departure"] -= delta
            if s.get("est") is not None:
                s["est"] -= delta
    case["recomputes"] = [r - delta if r >= T else r for r in case.get("recomputes", [])]
    for o in _others(case):
        if o["t"] >= T:
            o["t"] -= delta


def _stage(rng, case, late=False):
    """run() in stages: the events from a threshold on are withheld and added to the queue of the FINISHED
    simulation, which is then resumed.  Either a threshold the layout admits (nobody connected across it), with
    the later part moved so that it starts exactly in the period where the first run() stops in half of the
    cases, or a second wave of sessions appended after everything else; T = 0: constructed with an empty queue.
    late=True (malformed stream): a threshold inside the history, the additions are late events."""
    arr = sorted(set(s["arrival"] for s in case["sessions"]) | set(int(r) for r in case.get("recomputes", [])))
    if late:
        if len(arr) >= 2:
            case["splits"] = [rng.choice(arr[1:])]
            if staging_ok(case):
                case.pop("splits")
            else:
                case["malformed"] = "late_added"
        return case
    if rng.random() < 0.12:
        case["splits"] = [0]
        return case
    cands = []
    for T in arr[1:]:
        c2 = dict(case, splits=[T])
        if T > 0 and staging_ok(c2) and any(t < T for t in _known_ts(case, True)):
            cands.append(T)
    if cands and rng.random() < 0.6:
        T = rng.choice(cands)
        h1 = _stage_horizons(dict(case, splits=[T]))[0]
        if rng.random() < 0.5 and T > h1:
            _shift_from(case, T, T - h1)
            T = h1
        case["splits"] = [T]
        if len(cands) > 1 and rng.random() < 0.3:
            T2 = rng.choice(cands)
            c2 = dict(case, splits=sorted({T, T2}))
            if staging_ok(c2):
                case["splits"] = sorted({T, T2})
        return case
    T0 = max([0] + _known_ts(case, True)) + 1 if _known_ts(case, True) else 0
    start = T0 + rng.choice([0, 0, 0, 1, 3])
    cursor = {}
    for k in range(rng.choice([1, 1, 2, 3])):
        st = rng.choice(case["stations"])["id"]
        a = cursor.get(st, start if k == 0 else start + rng.choice([0, 0, 1, 2]))
        d = a + rng.choice([1, 2, 3, 5])
        cursor[st] = d + rng.choice([0, 0, 1])
        case["sessions"].append({"session": f"w{k}", "station": st, "arrival": a, "departure": d,
                                 "requested": round(rng.uniform(0.05, 12), 3), "batt": S.gen_battery(rng), "est": None})
    if rng.random() < 0.4:
        case["recomputes"] = list(case.get("recomputes", [])) + [start + rng.choice([0, 1, 4])]
    case["splits"] = [T0]
    return case


EDIT_KINDS = ["limit_last", "limit_last", "limit_last", "limit_last", "limit_any", "coef_last", "coef_any", "cycle", "readd",
              "readd_last", "rename", "add", "remove", "none", "tariff", "est"]


def _gen_entry_ops(rng, case, cons, kind, tag):
    """ops of one entry of the given kind on the constraint list `cons` ([[name, {station: coeff}, limit]…] IN ITS
    CURRENT ORDER, from `_net_state`); falls back to "add" / "none" where the kind needs something that is not there"""
    ids = [st["id"] for st in case["stations"]]

    def new_limit(old):
        old = float(I.num(old))
        lim = rng.choice([16.0, 24.0, 32.5, 80.0, 1e4, round(old * 0.5, 3), round(old * 1.5, 3), old + 1.0])
        return lim if lim != old else old + 7.0

    def upd(c, coef=None, new_name=None, limit=None):
        o = {"op": "update", "name": c[0], "current": [[k, v] for k, v in (c[1] if coef is None else coef).items()],
             "limit": new_limit(c[2]) if limit is None else limit}
        if new_name is not None:
            o["new_name"] = new_name
        return o

    def new_coef(c):
        coef = dict(c[1])
        r = rng.random()
        if r < 0.4 and coef:
            k = rng.choice(sorted(coef))
            coef[k] = coef[k] * rng.choice([2.0, -1.0, 0.5])
        elif r < 0.6 and len(coef) > 1:
            del coef[rng.choice(sorted(coef))]
        else:
            free = [s for s in ids if s not in coef]
            if free:
                coef[rng.choice(free)] = rng.choice([1.0, -1.0, 0.5])
            elif coef:
                k = rng.choice(sorted(coef))
                coef[k] = coef[k] + 1.0
        return coef

    if kind == "est":
        live = [s for s in case["sessions"] if s["departure"] > s["arrival"]]
        if not live or case.get("malformed"):
            kind = "none"
        else:
            ops = []
            for s in rng.sample(live, min(len(live), rng.choice([1, 1, 2]))):
                ops.append({"op": "est", "session": s["session"], "value": max(s["arrival"] + 1, s["departure"] + rng.choice([-2, -1, 1, 3, 10]))})
            return ops, kind
    if kind == "tariff":
        return [{"op": "tariff", "name": rng.choice(TARIFFS[1:] if tag % 2 else TARIFFS), "inplace": rng.random() < 0.5}], kind
    if kind == "none":
        return [], kind
    if not cons and kind != "add":
        kind = "add"
    if kind == "limit_last":
        return [upd(cons[-1])], kind
    if kind == "limit_any":
        return [upd(rng.choice(cons))], kind
    if kind == "coef_last":
        c = cons[-1]
        return [upd(c, new_coef(c), limit=c[2] if rng.random() < 0.5 else None)], kind       # same limit, new row
    if kind == "coef_any":
        c = rng.choice(cons)
        return [upd(c, new_coef(c), limit=c[2] if rng.random() < 0.5 else None)], kind
    if kind == "cycle":          # every constraint once, in order: the name list ends up as it was
        names = [c[0] for c in cons]
        if len(set(names)) != len(names):
            return [upd(cons[-1])], "limit_last"
        return [upd(c) for c in cons], kind
    if kind in ("readd", "readd_last"):
        c = cons[-1] if kind == "readd_last" else rng.choice(cons)
        return [{"op": "remove", "name": c[0]},
                {"op": "add", "name": c[0], "current": [[k, v] for k, v in c[1].items()], "limit": new_limit(c[2])}], kind
    if kind == "rename":
        c = rng.choice(cons)
        return [upd(c, new_name=f"{c[0]}.r{tag}", limit=c[2] if rng.random() < 0.5 else None)], kind
    if kind == "remove":
        return [{"op": "remove", "name": c[0]} for c in rng.sample(cons, rng.choice([1, 1, min(2, len(cons))]))], kind
    sub = rng.sample(ids, rng.randint(1, len(ids)))
    cur = [[s, rng.choice([1, 1, 1, -1, 0.5, 2])] for s in sub]
    return [{"op": "add", "name": rng.choice([None, f"n{tag}", f"n{tag}", cons[-1][0] if cons else "agg"]), "current": cur,
             "limit": rng.choice([16.0, 32.5, 80.0, 1e4])}], "add"


def _add_edits(rng, case, kinds=None):
    """1-4 edits of what the scheduler's view describes, between invocations: mostly from the post_charging_update
    hook of a period (most of them in the period just before an event period, so that an invocation follows; with
    max_recompute every period has one), some before the first run() (the Interface having been asked), some between
    the run()s of a staged case.  The constraint list is tracked with the oracle's replay so that every op names a
    constraint that exists at that point of the history."""
    ts = _known_ts(case, with_others=True)
    hi = max(ts + [3])
    ev_periods = sorted({t for t in _known_ts(case) if t >= 1})
    moments = []
    for _ in range(rng.choice([1, 1, 2, 2, 3, 4])):
        q = rng.random()
        if q < 0.12:
            moments.append({"at": "pre"})
            if rng.random() < 0.7:
                case["pre_query"] = True
        elif _splits(case) and staging_ok(case) and q < 0.4:
            moments.append({"at": "stage", "k": rng.randrange(len(_splits(case)))})
        elif ev_periods and q < 0.8:
            moments.append({"at": "hook", "t": rng.choice(ev_periods) - 1})
        else:
            moments.append({"at": "hook", "t": rng.randint(0, hi)})
    moments.sort(key=lambda e: _edit_key(case, e))
    case["net_edits"] = []
    for j, m in enumerate(moments):
        cons = _net_state(case, range(len(case["net_edits"])))["cons"]
        kind = kinds[j % len(kinds)] if kinds else rng.choice(EDIT_KINDS)
        m["ops"], m["kind"] = _gen_entry_ops(rng, case, cons, kind, j)
        case["net_edits"].append(m)
    return case


def _add_noops(rng, case):
    """1-3 UnplugEvents queued by the user that detach nobody, or that make the simulator's own UnplugEvent (at ev.departure)
    detach nobody: early departures (optionally with ANOTHER session of the case taking the station before the first one's
    nominal departure), a second unplug for a session that has left, an unplug for an EV that never arrived.  Mostly in periods
    without any other event, with max_recompute None or 7 in 3 of 4 cases (the event is then the ONLY reason for the invocation)."""
    busy = set(_known_ts(case))
    hi = max(_known_ts(case, with_others=True) + [3])
    free = [t for t in range(0, hi + 3) if t not in busy]
    out, taken = [], set()
    for _ in range(rng.choice([1, 1, 2, 3])):
        q = rng.random()
        when = "ctor" if rng.random() < 0.6 else "added"
        long = [x for x in case["sessions"] if x["departure"] - x["arrival"] >= 2 and x["session"] not in taken]
        if q < 0.5 and long:
            x = rng.choice(long)
            cand = list(range(x["arrival"] + 1, x["departure"]))
            quiet = [t for t in cand if t not in busy]
            t = rng.choice(quiet if quiet and rng.random() < 0.7 else cand)
            taken.add(x["session"])
            out.append({"kind": "early", "session": x["session"], "t": t, "when": when})
            if rng.random() < 0.4:
                a, d = rng.randint(t, x["departure"] - 1), x["departure"] + rng.choice([1, 2, 3])
                eff = _effective_sessions(dict(case, noops=out))
                if not any(y["station"] == x["station"] and y["session"] != x["session"] and not (y["departure"] <= a or d <= y["arrival"]) for y in eff):
                    case["sessions"].append({"session": f"z{len(out)}", "station": x["station"], "arrival": a, "departure": d,
                                             "requested": round(rng.uniform(0.05, 12), 3), "batt": _b(), "est": None})
                    taken.add(f"z{len(out)}")
        elif q < 0.7 and case["sessions"]:
            x = rng.choice(case["sessions"])
            out.append({"kind": "after", "session": x["session"], "t": x["departure"] + rng.choice([1, 1, 2, 4]), "when": when})
        else:
            t = rng.choice(free) if free and rng.random() < 0.75 else rng.randint(0, hi)
            t = max(t, 1) if _step_prefix(case) else t
            out.append({"kind": "ghost", "session": f"ghost{len(out)}", "station": rng.choice(case["stations"])["id"], "t": t, "when": when})
    case["noops"] = out
    if rng.random() < 0.75:
        case["max_recompute"] = rng.choice([None, None, 7])
    return case


def stoch_case(rng):
    """contrib StochasticNetwork, 1-2 stations, 3-6 sessions that overlap in time: the surplus WAITS; some leave while still
    waiting (their UnplugEvent changes no station), some are swapped in when a station is vacated"""
    ns = rng.choice([1, 1, 2])
    stations = [{"id": f"S{i}", "kind": {"t": "cont", "min": 0, "max": 32}, "V": 208, "phase": [0, 30][i]} for i in range(ns)]
    sessions = []
    for i in range(rng.randint(3, 6)):
        a = rng.randint(0, 5)
        sessions.append({"session": f"q{i}", "station": rng.choice(stations)["id"], "arrival": a, "departure": a + rng.choice([1, 2, 3, 5, 8]),
                         "requested": rng.choice([0.05, 0.4, 3.0, 20.0]), "batt": _b(), "est": None})
    hi = max(x["departure"] for x in sessions)
    return {"stations": stations, "constraint": {"limit": 64.0} if rng.random() < 0.6 else None, "sessions": sessions,
            "recomputes": [rng.randint(0, hi + 2)] if rng.random() < 0.3 else [], "period": 5, "max_recompute": rng.choice([None, None, 7, 2]),
            "noise": [], "network": "stochastic", "pre_query": rng.random() < 0.3,
            "sched": {"type": "scripted", "default": [[st["id"], [rng.choice([8.0, 16.0, 32.0])]] for st in stations], "script": []}}


def _retime(rng, case):
    """C05's extra dimensions on top of a simcase scenario."""
    r = rng.random()
    case["max_recompute"] = 0 if r < 0.04 else rng.choice(MR_CHOICES)
    ts = [s["departure"] for s in case["sessions"]] + [s["arrival"] for s in case["sessions"]]
    hi = max(ts + [3])
    recs = list(case.get("recomputes", []))
    for _ in range(rng.choice([0, 0, 1, 2, 4])):
        q = rng.random()
        if q < 0.35 and ts:
            recs.append(rng.choice(ts))                 # shares a period with a plug-in / unplug
        elif q < 0.55:
            recs.append(hi + rng.choice([1, 2, 3, 8]))  # after the last departure: extends the run
        else:
            recs.append(rng.randint(0, hi))
    if recs and rng.random() < 0.2:
        recs.append(recs[0])                            # duplicate recompute timestamp
    case["recomputes"] = recs
    if case.get("constraint") is None and rng.random() < 0.6:
        case["constraint"] = {"limit": rng.choice([40.0, 64.0, 200.0, 1000.0])}
    ids = [st["id"] for st in case["stations"]]
    extra = []
    for _ in range(rng.choice([0, 0, 1, 1, 2, 3])):
        sub = [i for i in ids if rng.random() < 0.6] or [rng.choice(ids)]
        rng.shuffle(sub)
        extra.append({"current": [[i, rng.choice([1, 1, -1, 0.5, 2, 0.25, -1.5])] for i in sub],
                      "limit": rng.choice([16.0, 32.5, 80.0, 1e4]),
                      "name": rng.choice([None, None, f"c{len(extra)}", "agg", "_const_1"])})
    if extra:
        case["extra_constraints"] = extra
    return case


def _late(rng, case):
    """malformed stream of C05: events whose timestamp lies before the period in which they are processed"""
    if case["sessions"] and rng.random() < 0.7:
        for s in rng.sample(case["sessions"], min(len(case["sessions"]), rng.choice([1, 1, 2]))):
            first = min(x["arrival"] for x in case["sessions"] if x["station"] == s["station"])
            if s["arrival"] == first:
                s["arrival"] = -rng.choice([1, 2, 5])
    case["recomputes"] = list(case.get("recomputes", [])) + [-rng.choice([1, 3])]
    if max([s["arrival"] for s in case["sessions"]] + case["recomputes"]) < 0:
        case["recomputes"].append(rng.randint(0, 3))    # the constructor needs a timestamp >= 0 in the initial queue
    case["malformed"] = "late"
    return case


def exhaustive():
    """EVERY valid layout with <= 3 sessions on <= 2 stations within horizon 5, x max_recompute in
    {None,1,2,3}, with a recompute-event set that cycles through {}, {t}, {t,t'} (on and off event periods,
    after the last departure, duplicated).  The invocation set is decided by the oracle for each."""
    slots = [(st, a, d) for st in ("S0", "S1") for a in range(0, 5) for d in range(a + 1, 6)]
    recsets = [[], [0], [2], [5], [6], [1, 3], [4, 4], [2, 7]]
    othsets = [[0], [2], [5], [7], [1, 3], [4, 4], [3]]
    # (all rows of one length: a ragged schedule is rejected with InvalidScheduleError and would end every one of these
    #  runs at its first invocation — as the first version of this enumeration did)
    sched = {"type": "scripted", "default": [["S0", [16.0, 16.0]], ["S1", [8.0, 8.0]]], "script": []}
    stations = [_basic(0), _basic(1, {"t": "finite", "rates": [8, 16, 24, 32]})]
    out = []
    k = 0
    for n in range(0, 4):
        for combo in itertools.combinations(range(len(slots)), n):
            ss = [slots[j] for j in combo]
            if any(a[0] == b[0] and not (a[2] <= b[1] or b[2] <= a[1]) for i, a in enumerate(ss) for b in ss[i + 1:]):
                continue
            for mr in (None, 1, 2, 3):
                k += 1
                sess = [_s(f"x{i}", st, a, d, req=[50.0, 0.05, 0.3][(i + k) % 3]) for i, (st, a, d) in enumerate(ss)]
                if k % 2:
                    sess.reverse()
                c = {"stations": stations, "constraint": {"limit": 64.0} if k % 3 else None, "sessions": sess,
                     "recomputes": list(recsets[(k // 4) % len(recsets)]), "period": 5, "max_recompute": mr,
                     "noise": [], "sched": sched, "exhaustive": k}
                if k % 3 == 0:        # every third layout also carries ignored-type events (cycling set, all three flavours)
                    c["others"] = [{"t": t, "kind": ["base", "sub", "prec"][(k // 3 + i) % 3], "prec": [25, 5, -1][(k // 9) % 3],
                                    "when": "ctor" if (k // 3 + i) % 2 else "added"}
                                   for i, t in enumerate(othsets[(k // 12) % len(othsets)])]
                if k % 5 == 0:
                    c["pre_query"] = True
                if k % 4 == 0:        # every fourth layout: the network / tariff / an estimate edited between invocations
                    import random as _random
                    kinds = EDIT_KINDS[4:]
                    c = _add_edits(_random.Random(k), c, kinds=["limit_last", kinds[(k // 4) % len(kinds)]])
                if k % 7 == 0:        # every seventh: the scheduler raises in a cycling period; resumed in place / through JSON
                    c["interrupt"] = {"at": sorted({(k // 7) % 8, (k // 56) % 8}), "how": "json" if (k // 7) % 2 else "rerun"}
                elif k % 11 == 0 and "others" not in c and not any(x[1] == 0 for x in ss) and 0 not in c["recomputes"]:
                    c["step_prefix"] = {"scheds": [[["S0", [8.0]]], [], [["S1", [8.0, 8.0]]]][:1 + (k // 11) % 3], "json": bool((k // 11) % 2)}
                if k % 3 == 1:
                    c["vandal"] = "methods"
                out.append(c)
    return out


# ------------------------------------------------------------------ exact-boundary stream (fully-charged threshold)

EPS = 1e-3          # the property's threshold: a connected session is handed out iff remaining demand > 1e-3 kWh


def _ideal_step(pilot, V, period, cap, charge, maxp):
    """One `EV.charge` on an ideal battery in the implementation's own float operations (battery.py:45-70,
    ev.py:130-144): returns (energy added to energy_delivered, new battery charge)."""
    h = period / 60
    cp = min(pilot * V / 1000, maxp, (cap - charge) / h)
    rate = cp * 1000 / V
    return (rate * V) / 1000 * h, charge + cp * h


BOUNDARY_GRID = [(V, per, p, k) for V in (125, 250, 500, 1000, 240, 208) for per in (15, 30, 7.5, 1, 5)
                 for p in (0.125, 0.25, 0.5, 1.0, 2.0) for k in (1, 2, 3)]


def _boundary_points():
    """(V, period, pilot, k, delivered) such that after k periods at `pilot` the energy delivered d is
    float-exactly known AND r = d + 1e-3 is a double with r - d == 1e-3 EXACTLY (verified here, in double
    arithmetic; most of the grid — e.g. 240 V x 1 min x 1 A — fails this test and is dropped)."""
    out = []
    for V, per, p, k in BOUNDARY_GRID:
        d, ch = 0, 10.0
        for _ in range(k):
            e, ch = _ideal_step(p, V, per, 100.0, ch, 50.0)
            d = d + e
        r = d + EPS
        if d > 0 and r - d == EPS and math.nextafter(r, math.inf) - d > EPS and math.nextafter(r, 0.0) - d < EPS:
            out.append((V, per, p, k, d))
    return out


_BP = None


def boundary_case(rng, mr=None):
    """2-3 stations, each with ONE session whose remaining demand arrives exactly at / one ulp above / one ulp
    below 1e-3 kWh (after k charging periods, or from the plug-in on: requested = 0.001 exactly) and then stays
    there (pilot 0) for several periods while connected.  `boundary` records the generator's verified
    expectation: from period `from` on the session is / is not handed out."""
    global _BP
    if _BP is None:
        _BP = _boundary_points()
        assert len(_BP) >= 10, "exact-boundary grid too thin"
    V, per, p, k, d = rng.choice(_BP)
    ns = rng.choice([2, 3, 3])
    stations = [{"id": f"S{i}", "kind": {"t": "cont", "min": 0, "max": 32}, "V": V, "phase": [0, 30, -90][i]} for i in range(ns)]
    classes = ["eq", "above", "below"]
    rng.shuffle(classes)
    sessions, boundary, script = [], {}, {}
    horizon = 0
    for i in range(ns):
        cls = classes[i % 3]
        from_plugin = rng.random() < 0.35
        arr = rng.randint(0, 3)
        if from_plugin:
            kk, dd = 0, 0.0
        else:
            kk, dd = k, d
        r = dd + EPS
        req = {"eq": r, "above": math.nextafter(r, math.inf), "below": math.nextafter(r, 0.0)}[cls]
        # verified in double arithmetic, exactly as the property reads: active iff requested - delivered > 1e-3
        rem = req - dd
        assert (rem == EPS) if cls == "eq" else (rem > EPS) if cls == "above" else (rem < EPS)
        dep = arr + kk + rng.randint(2, 4)
        sessions.append({"session": f"b{i}", "station": f"S{i}", "arrival": arr, "departure": dep, "requested": req,
                         "batt": {"two": False, "cap": 100.0, "init": 10.0, "maxp": 50.0}, "est": None})
        boundary[f"b{i}"] = {"class": cls, "from": arr + kk, "until": dep, "active": cls == "above", "remaining": rem}
        for t in range(arr, arr + kk):
            script.setdefault(t, {})[f"S{i}"] = p
        horizon = max(horizon, dep)
    rng.shuffle(sessions)
    sc = [{"t": t, "sched": [[st["id"], [float(script.get(t, {}).get(st["id"], 0.0))]] for st in stations]}
          for t in range(0, horizon + 1)]
    return {"stations": stations, "constraint": {"limit": 64.0} if rng.random() < 0.7 else None, "sessions": sessions,
            "recomputes": [], "period": per, "max_recompute": 1 if mr is None else mr, "noise": [],
            "sched": {"type": "scripted", "default": [], "script": sc}, "boundary": boundary}


def generate(rng, n, tier):
    if tier == "thorough":
        # the enumeration + a reduced random stream (total wall stays well inside the thorough budget)
        ex = exhaustive()
        return ex + generate(rng, max(n - len(ex) // 3, n // 3), "thorough-random")
    out = []
    for i in range(n):
        r = i % 25
        if r in (7, 19):
            c = S.gen_case(rng, malformed=True, max_sessions=12)
        elif r == 13:
            c = _late(rng, S.gen_case(rng, max_sessions=8))
        elif r == 16 and (i // 25) % 2 == 1:
            out.append(stoch_case(rng))
            continue
        elif r in (2, 16):
            out.append(boundary_case(rng))
            continue
        elif r in (4, 11, 22):
            c = S.gen_case(rng, real_algos=True, max_sessions=10)
        else:
            c = S.gen_case(rng, max_sessions=18 if tier != "quick" else 12)
        c = _retime(rng, c)
        # C05's scenario classes beyond one run() over plug-in / unplug / recompute events
        if r in (1, 5, 9, 11, 14, 18, 21, 23) or (r == 13 and rng.random() < 0.5):
            c = _add_others(rng, c)
        if r in (3, 5, 10, 17, 22, 23):
            c["pre_query"] = True
        if r in (0, 6, 9, 12, 20, 22) and not c.get("malformed"):
            c = _stage(rng, c)
        elif r == 24 and not c.get("malformed"):
            c = _stage(rng, c, late=True)
        if r in (3, 10, 15, 17) and not c.get("malformed") and not _others(c) and not _splits(c):
            c = _add_step_prefix(rng, c)
        if r in (5, 8, 11, 14, 17, 21) and not c.get("malformed") and not _splits(c):
            c = _add_noops(rng, c)      # events that change nothing (a user-queued UnplugEvent / the automatic one after it)
        if r in (0, 3, 4, 8, 12, 15, 18, 19, 21):
            c = _add_edits(rng, c)          # LAST: the moments of the edits depend on the staging
        if r in (1, 4, 6, 8, 10, 14, 20, 23) and c.get("malformed") in (None, "late"):
            c = _add_interrupt(rng, c)
        # COPIED simulators: deepcopy before the first run(), after the step() prefix, after every abort
        if r in (1, 4, 8, 20) and _interrupt(c):
            c["interrupt"]["how"] = "copy"
        elif r in (10, 15, 18, 23) and not _splits(c):
            c["clone"] = "steps" if _step_prefix(c) else "pre"
        if r % 3 == 1:
            c["vandal"] = "methods"
        out.append(c)
    return out


def search(rng, n):
    return generate(rng, n, "search")


# ------------------------------------------------------------------ statistics


def nontrivial(case, obs):
    if not is_valid(case) or obs.get("err") is not None:
        return False
    inv = obs["invoked"]
    evs = {s["arrival"] for s in case["sessions"]} | {s["departure"] for s in case["sessions"]} | set(case.get("recomputes", [])) \
        | {int(n_["t"]) for n_ in _noops(case)}
    timer_only = any(t not in evs for t in inv)
    skipped = obs["iter"] > len(inv)
    return len(inv) >= 3 and (timer_only or skipped) and any(v["sessions"] for v in obs["views"])


def features(case, obs):
    inv = obs.get("invoked", [])
    views = obs.get("views", [])
    evs = {s["arrival"] for s in case["sessions"]} | {s["departure"] for s in case["sessions"]} | set(case.get("recomputes", []))
    evs_all = evs | {int(n_["t"]) for n_ in _noops(case)}
    n = len(case["sessions"])
    arr_of = {s["session"]: s["arrival"] for s in case["sessions"]}
    f = [f"max_recompute={case.get('max_recompute')}", f"sched={case['sched']['type']}", f"err={obs.get('err')}",
         f"malformed={case.get('malformed')}", f"constraint={'yes' if case.get('constraint') else 'no'}",
         "sessions=" + ("0" if n == 0 else "1-3" if n <= 3 else "4-8" if n <= 8 else "9+"),
         f"recomputes={min(len(case.get('recomputes', [])), 4)}",
         "invocations=" + ("0" if not inv else "1-3" if len(inv) <= 3 else "4-10" if len(inv) <= 10 else "11+"),
         "valid_layout=" + str(S.is_valid_layout(case))]
    if any(t not in evs_all for t in inv):
        f.append("invocation_by_max_recompute_only")
    if obs.get("iter", 0) > len(inv):
        f.append("periods_without_invocation")
    if any(v["last_pilots"] for v in views):
        f.append("view_with_last_pilots")
    if any(v["t"] <= 1 and v["sessions"] for v in views):
        f.append("view_with_sessions_before_third_period")
    if any(v["sessions"] for v in views):
        f.append("view_with_active_sessions")
    if any(len(v["truth"]["sessions"]) < sum(1 for c in v["truth"]["connected"] if c is not None) for v in views):
        f.append("view_excludes_fully_charged_session")
    if any(v["infra"] is None for v in views):
        f.append("infra_unavailable")
    f.append(f"constraints={min(len(all_constraints(case)), 3)}")
    if any([s["session"] for s in v["sessions"]] != sorted([s["session"] for s in v["sessions"]],
                                                          key=lambda x: (arr_of.get(x, 0), x)) for v in views):
        f.append("view_order_differs_from_arrival_order")
    if case.get("exhaustive"):
        f.append("exhaustive_small_scope")
    rems = [_num(x) for v in views for x in v["truth"].get("connected_remaining", []) if x is not None]
    if any(x == EPS for x in rems):
        f.append("threshold_exact_equality")
    if any(EPS < x <= EPS * (1 + 1e-12) for x in rems):
        f.append("threshold_plus_ulps")
    if any(EPS * (1 - 1e-12) <= x < EPS for x in rems):
        f.append("threshold_minus_ulps")
    if case.get("boundary"):
        f.append("boundary_stream")
    if any(s["arrival"] < 0 for s in case["sessions"]) or any(r < 0 for r in case.get("recomputes", [])):
        f.append("late_event")
    if any(s["arrival"] in {x["departure"] for x in case["sessions"]} for s in case["sessions"]):
        f.append("plug_and_unplug_same_period")
    oth = _others(case)
    f.append(f"ignored_events={min(len(oth), 3)}")
    if oth:
        known = {}
        for s in case["sessions"]:
            known.setdefault(s["arrival"], set()).add("Plugin")
            known.setdefault(s["departure"], set()).add("Unplug")
        for r in case.get("recomputes", []):
            known.setdefault(int(r), set()).add("Recompute")
        for o in oth:
            for k in sorted(known.get(int(o["t"]), ())):
                f.append(f"ignored_event_in_period_of_{k}")
            if int(o["t"]) not in known:
                f.append("ignored_event_alone_in_period")
        eh = obs.get("event_history", [])
        for i, e in enumerate(eh):
            if e[1] in KNOWN_TYPES:
                continue
            same = [x for x in eh if x[0] == e[0] and x[1] in KNOWN_TYPES]
            if same and (i + 1 == len(eh) or eh[i + 1][0] != e[0]) and i > 0 and eh[i - 1][0] == e[0]:
                f.append("ignored_event_processed_last_in_period_with_known_event")
            if same and i + 1 < len(eh) and eh[i + 1][0] == e[0] and eh[i + 1][1] in KNOWN_TYPES:
                f.append("ignored_event_processed_before_known_event")
        if max(int(o["t"]) for o in oth) > max(_known_ts(case) + [-1]):
            f.append("ignored_event_extends_run")
        f.append("ignored_when=" + "+".join(sorted({o.get("when", "ctor") for o in oth})))
        f.append("ignored_kinds=" + "+".join(sorted({o["kind"] for o in oth})))
    if case.get("pre_query"):
        f.append("interface_asked_before_run")
        if any(s["arrival"] == 0 for s in case["sessions"]):
            f.append("interface_asked_before_run_and_arrival_in_period_0")
    if _splits(case):
        f.append(f"staged_runs={len(_splits(case)) + 1}")
        f.append("staging_ok=" + str(staging_ok(case)))
        hs = _stage_horizons(case)
        if any(s["arrival"] == h for s in case["sessions"] for h in hs[:-1]):
            f.append("arrival_in_period_where_previous_run_stopped")
        if _splits(case)[0] == 0:
            f.append("constructed_with_empty_queue")
    ed = _edits(case)
    f.append(f"net_edits={min(len(ed), 3)}")
    if ed:
        f.extend(sorted({f"edit_kind={e.get('kind')}" for e in ed} | {f"edit_at={e['at']}" for e in ed}))
        asked = [("q", o) for o in obs.get("outside", []) if "error" not in o and o["when"].startswith("pre")] + [("v", v) for v in views]
        prev = None
        for tag, v in asked:
            cur = tuple(v.get("edits", []))
            if prev is not None and cur != prev[1]:
                a, b = expected_infra(case, prev[1]), expected_infra(case, cur)
                same_ids = a["constraint_ids"] == b["constraint_ids"]
                f.append("edit_between_two_invocations" if prev[0] == "v" else "edit_between_outside_query_and_invocation")
                if same_ids and (a["constraint_limits"] != b["constraint_limits"] or a["constraint_matrix"] != b["constraint_matrix"]):
                    f.append("edit_keeps_constraint_ids_and_order_changes_contents")
                    if a["constraint_matrix"] == b["constraint_matrix"]:
                        f.append("edit_changes_limits_only")
                elif not same_ids:
                    f.append("edit_changes_constraint_ids")
                if len(b["constraint_ids"]) == 0 or len(a["constraint_ids"]) == 0:
                    f.append("edit_from_or_to_constraint_free_network")
            prev = (tag, cur)
        if len(obs.get("edits_applied", [])) < len(ed):
            f.append("edit_scheduled_after_the_run_ended")
        f = sorted(set(f))
    intr, sp = _interrupt(case), _step_prefix(case)
    if intr:
        ab = obs.get("interruptions") or []
        f.append(f"interrupt={intr['how']}")
        f.append(f"interrupt_fired={min(len(ab), 3)}")
        lastp = max(_known_ts(case, with_others=True) + [0])
        for a in ab:
            f.append("interrupt_in_event_period" if a["resolve"] else "interrupt_in_timer_period")
            if a["last_upd"] is None:
                f.append("interrupt_before_anything_was_scheduled")
            if a["queue_empty"]:
                f.append("interrupt_with_empty_queue")
            if a["t"] >= lastp:
                f.append("interrupt_in_last_period")
        if len(ab) < len(intr["at"]):
            f.append("interrupt_period_without_invocation")
    if sp:
        sr = obs.get("step_results") or []
        f.append(f"step_prefix={min(len(sp['scheds']), 3)}")
        f.append("step_prefix_json" if sp.get("json") else "step_prefix_in_place")
        its = [0] + [r[2] for r in sr]
        if any(b - a > 1 for a, b in zip(its, its[1:])):
            f.append("step_call_advances_several_periods")
        if any(b == a for a, b in zip(its, its[1:])):
            f.append("step_call_on_empty_queue")
        if any(r[1] for r in sr):
            f.append("step_returns_done")
        if any(r[0] for r in sr):
            f.append("step_raises")
        a = obs.get("after_steps")
        if a:
            f.append("run_after_steps_starts_with_" + ("pending_recompute" if a["resolve"] else "no_pending_recompute"))
    if _noops(case):
        f.extend(sorted({f"noop_unplug={n['kind']}" for n in _noops(case)} | {f"noop_unplug_queued={n.get('when', 'ctor')}" for n in _noops(case)}))
        mr_ = case.get("max_recompute")
        others_ts = evs | {int(o["t"]) for o in oth}
        for n in _noops(case):
            if int(n["t"]) not in others_ts and int(n["t"]) in inv and mr_ in (None, 7):
                f.append("noop_unplug_alone_in_period_is_the_only_reason_for_invocation")
        eff = {x["session"]: x for x in _effective_sessions(case)}
        occ = obs.get("occ", [])
        sts_ = [st["id"] for st in case["stations"]]
        for x in case["sessions"]:
            if eff[x["session"]]["departure"] < x["departure"] and x["departure"] < len(occ) and x["station"] in sts_:
                who = occ[x["departure"]][sts_.index(x["station"])]
                f.append("automatic_unplug_finds_" + ("station_empty" if who is None else "another_ev"))
                if x["departure"] in inv and not any(t == x["departure"] for y in case["sessions"] if y is not x for t in (y["arrival"], y["departure"])) \
                        and x["departure"] not in [int(r) for r in case.get("recomputes", [])] and mr_ in (None, 7):
                    f.append("automatic_unplug_that_detaches_nobody_is_the_only_reason_for_invocation")
    if _stoch(case):
        f.append("stochastic_network")
        ever = {x for row in obs.get("occ", []) for x in row if x is not None}
        if any(x["session"] not in ever for x in case["sessions"]):
            f.append("waiting_ev_departs_without_ever_being_connected")
        if any(x["session"] in ever and x["arrival"] < min(i for i, row in enumerate(obs["occ"]) if x["session"] in row) for x in case["sessions"]):
            f.append("waiting_ev_swapped_in")
    if _clone(case) or (intr and intr["how"] == "copy"):
        f.append("copied_simulator=" + (_clone(case) or "abort"))
        f.append(f"copies_taken={min(len(obs.get('clones') or []), 3)}")
        if obs.get("orig") is not None:
            f.append("original_completed_after_the_copy")
            if obs["orig"]["nviews"] > 0:
                f.append("copied_simulator_partly_run")
    if case.get("vandal"):
        f.append(f"vandal={case['vandal']}")
    if any(v.get("active_evs") for v in views):
        f.append("active_evs_copies_handed_out")
    f.append(f"model={model_mode(case, obs)}")
    f.append(f"outside_queries={min(len(obs.get('outside', [])), 4)}")
    return sorted(set(f)) if oth else f


def shrink(case, kind):
    def bad(c):
        try:
            return any(f["kind"] == kind for f in oracle(c, run_impl(c)))
        except Exception:  # noqa: BLE001
            return False
    if not bad(case):
        return case
    cur = copy.deepcopy(case)
    changed = True
    while changed:
        changed = False
        for key in ("splits", "pre_query", "interrupt", "step_prefix", "vandal", "clone"):
            if cur.get(key):
                c2 = copy.deepcopy(cur)
                c2.pop(key)
                if bad(c2):
                    cur, changed = c2, True
        for key, sub in (("interrupt", "at"), ("step_prefix", "scheds")):
            i = 0
            while cur.get(key) and i < len(cur[key][sub]) and len(cur[key][sub]) > 1:
                c2 = copy.deepcopy(cur)
                del c2[key][sub][i]
                if bad(c2):
                    cur, changed = c2, True
                else:
                    i += 1
        for key in ("net_edits", "noops", "sessions", "recomputes", "others", "extra_constraints"):
            i = 0
            while i < len(cur.get(key, [])):
                c2 = copy.deepcopy(cur)
                del c2[key][i]
                if bad(c2):
                    cur, changed = c2, True
                else:
                    i += 1
        sc = cur.get("sched", {})
        i = 0
        while i < len(sc.get("script", [])):
            c2 = copy.deepcopy(cur)
            del c2["sched"]["script"][i]
            if bad(c2):
                cur, changed = c2, True
                sc = cur["sched"]
            else:
                i += 1
    return cur
