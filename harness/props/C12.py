"""C12 — constraint matrix, limits and names stay aligned under add/remove/update — also while the network is
READ between the edits (feasibility questions, aggregate currents, views, a running simulation) and SAVED AND
RESUMED (JSON, deepcopy); the Current algebra (sum, difference, scalar multiple) yields the right coefficients.
Lean: AcnModel/Network.lean + AcnModel/NetworkUse.lean (model), Drivers/C12.lean, AcnProofs/C12.lean."""
from __future__ import annotations

import copy
import math
from fractions import Fraction

import numpy as np

from core.common import f2b, b2f, close

ID = "C12"
LEAN_MODULES = ["AcnProofs.C12"]
DRIVER = "drv_C12"
REQUIRED_THEOREMS = [
    "Acn.C12.coeff_add", "Acn.C12.coeff_sub", "Acn.C12.coeff_smulL", "Acn.C12.coeff_smulR",
    "Acn.C12.coeff_neg", "Acn.C12.coeff_eval", "Acn.C12.eval_keys_nodup",
    "Acn.C12.row_indep_of_listing_order", "Acn.C12.align_refines", "Acn.C12.align_pointwise",
    "Acn.C12.failed_op_changes_nothing", "Acn.C12.register_refused_after_constraint",
    "Acn.C12.names_nodup_add", "Acn.C12.names_nodup_remove", "Acn.C12.subset_query",
    "Acn.C12.update_failure_is_removal", "Acn.C12.row_entry", "Acn.C12.constructors_keys_nodup",
    "Acn.C12.full_net_projects", "Acn.C12.reachable_feas_wf", "Acn.C12.reachable_three_agree",
    "Acn.C12.reregistration_breaks_wf", "Acn.C12.full_query", "Acn.C12.reregistered_query_fails",
    "Acn.C12.resume_eq", "Acn.C12.history_with_uses", "Acn.C12.history_with_uses_aligned",
    "Acn.C12.use_feasible_eq_feas",
]
BUDGET = {"quick": 700, "thorough": 7000, "search": 4000}
TRUSTED = [
    "pandas: Series.add(fill_value=0) = key union with a missing side counted 0; concat / fillna(0) / "
    "reindex(columns=station_ids) / to_frame().T = re-indexing on the station list with fill 0; "
    "DataFrame(matrix, columns, index) round trip",
    "numpy: append / delete(axis=0) / fancy row and column indexing / @ (all phase angles 0, linear=False)",
    "Python dict insertion order for _EVSEs; list.index / list.remove act on the first occurrence",
    "the JSON text layer of a save/resume (json.dumps / json.loads keep the key order of an object, NpEncoder "
    "writes arrays as nested lists); the model resumes from the attribute dictionary (UNet.toDict / fromDict); "
    "copy.deepcopy",
]
ASSUMPTIONS = [
    "theorems are over an arbitrary field (coefficient identities) / any carrier with 0 (alignment); the "
    "implementation computes in doubles (coefficients compared with 1e-9 slack; most generated values are "
    "dyadic so the arithmetic is exact)",
    "coefficients, scalars and limits are finite (no NaN/inf operands)",
    "Currents are built by the class's constructors and operators (distinct keys)",
    "constraint_current is exercised in both modes with the network's own phase angles (cos/sin as numpy computes "
    "them are inputs of the model), on networks with at least one station and a rectangular schedule",
    "feasibility questions between the edits (ChargingNetwork.is_feasible, Interface.is_feasible, "
    "infrastructure_constraints_feasible on Interface.infrastructure_info()) are asked on networks with at least one "
    "station and rectangular schedules; their ANSWERS are C06's subject (here: compared with the model = "
    "Feas.netFeasible / netLinear / algFeasible2 / algLinear2 on the network's containers, and with an exact "
    "rational evaluation of the limits GIVEN to add/update_constraint; abstaining within 1e-8 of the edge); what "
    "C12 asks of them is that they leave stations / matrix / limits / names / phase angles / voltages / tolerances "
    "exactly (bitwise) as they were",
    "what a simulation run raises is not judged (scheduler and EVSE business); only that the run leaves the "
    "containers exactly as they were.  EVs left plugged in by a failed run are unplugged by the harness",
    "a save/resume happens between operations, never inside a simulation run (C09)",
    "the model resumes a network whose constraints were all removed with its 0 x N matrix (fixes/F19.diff); on the "
    "unrepaired tree that resume flattens the matrix to 1-D (finding F19, reported under its own kind; the rest of "
    "such a history is not judged)",
    "re-registering a registered station id appends to _phase_angles/_voltages but not to the station list "
    "(follows the code): every correctly shaped constraint_current query then raises; Feas.Net.WF (the C06 "
    "hypothesis) is proved for all histories WITHOUT re-registration and refuted with it",
    "update_constraint is remove-then-add in the code: when the add raises KeyError (unknown station) the "
    "constraint stays removed; the model, the spec and the oracle follow the code (reported as an observation)",
]
RULE = ("per case a history of up to 45 operations on a fresh ChargingNetwork (in 25% of the cases built with its own "
        "violation/relative tolerances, in 50% with finite EVSE limits): register_evse (random ids, random order, "
        "re-registration, after-constraint), add_constraint / update_constraint with a random Current expression tree "
        "(depth <= 4 over +, -, k*., .*k; leaves = list / dict / str / empty Currents over random overlapping station "
        "subsets listed in random order, sometimes an unknown station), explicit / default / duplicate / _v2 names, "
        "remove_constraint (known, unknown, duplicated names), register_evse with random phase angles / voltages incl. "
        "re-registration of a known id, + / - whose operands name the SAME station set in DIFFERENT orders with "
        "non-uniform coefficients, a REJECTED add_constraint in the middle of a history followed by more "
        "adds/removes/updates, and constraint_current queries in both modes (also after re-registration, also one-row "
        "schedules that numpy broadcasts) with name subsets "
        "(shuffled, repeated, unknown) and time indices (shuffled, negative, out of range).  In 80% of the cases the "
        "network is USED between the edits (0-2 uses after each edit, also before the first constraint): feasibility "
        "questions (ChargingNetwork.is_feasible / Interface.is_feasible with a dict of loads incl. omitted, unknown "
        "and unequal-length ones / infrastructure_constraints_feasible on infrastructure_info(); linear and phasor "
        "mode; default and explicit tolerances incl. 0; wrong-shaped and one-row schedules), Interface views "
        "(get_constraints, infrastructure_info, evse_phase / evse_voltage, network.phase_angles / voltages), a "
        "simulation of 1-3 EVs on the live network object (fixed-rate stub, UncontrolledCharging, FCFS, LLF, "
        "RoundRobin; feasible and infeasible rates), and save/resume round trips (from_json(to_json()) as string and "
        "as buffer, through a Simulator's JSON, copy.deepcopy) after which the history CONTINUES on the object that "
        "came back; after EVERY operation (reads included) the full state is observed and must be exactly the "
        "previous one for a read / resume / refused edit, and the aligned triple is compared station by station with "
        "the specification; non-trivial = a composite "
        "expression was stored AND (a row was removed/updated from a matrix with >= 2 rows OR a subset query "
        "selected a proper non-empty subset OR the network was used / resumed while it held constraints and edited "
        "successfully afterwards); distinct by hash of the case.  thorough tier adds an EXHAUSTIVE small "
        "scope: every history of <= 3 operations over an 18-letter alphabet (3 Currents incl. a composite and one "
        "over an unknown station x names {None,'x','_const_0'}, 2 removes, 4 updates, register, a feasibility "
        "question, a JSON save/resume) on 2 and on 3 stations registered in non-lexicographic order, and every "
        "history of exactly 4 operations over a 10-letter alphabet on 2 stations (22348 histories, each closed by "
        "a subset query)")

POOL = ["A", "B", "C", "D", "E", "PS-001", "s10", "s9", "_x"]
UNKNOWN = ["Z", "Q-404"]
NAMEPOOL = ["c0", "c1", "c2", "n", "_const_0", "_const_1", "_const_2", "c0_v2", "_const_1_v2", "c1_v2"]
COEFFS = [1, 1, -1, 2, 0.5, 0.25, -0.5, 3, 0, 1.5, -2, 0.125]
SCALARS = [2, -1, 0.5, 0.25, 3, 0, -2.5, 4, 1, -0.75]


# ------------------------------------------------------------------ generation

def _gen_leaf(rng, ids, unknown_ok):
    pool = list(ids) if ids else ["A"]
    r = rng.random()
    k = rng.randint(0, min(len(pool), 4))
    sub = rng.sample(pool, k)
    if unknown_ok and rng.random() < 0.5:
        sub.insert(rng.randint(0, len(sub)), rng.choice(UNKNOWN))
    if r < 0.4:
        if sub and rng.random() < 0.15:
            sub.append(rng.choice(sub))  # a repeated id in the list form
        return {"t": "list", "ids": sub}
    if r < 0.85:
        items = []
        for s in sub:
            v = rng.choice(COEFFS) if rng.random() < 0.85 else round(rng.uniform(-3, 3), 3)
            items.append([s, v])
        if items and rng.random() < 0.05:
            items.append([items[0][0], rng.choice(COEFFS)])  # dict(...) with a repeated key: last value wins
        return {"t": "dict", "items": items}
    if r < 0.95:
        return {"t": "str", "id": rng.choice(sub or pool)}
    return {"t": "none"}


def _gen_expr(rng, ids, depth, unknown_ok):
    if depth == 0 or rng.random() < 0.25:
        return _gen_leaf(rng, ids, unknown_ok)
    r = rng.random()
    k = rng.choice(SCALARS) if rng.random() < 0.85 else round(rng.uniform(-4, 4), 3)
    if r < 0.3:
        return {"t": "add", "l": _gen_expr(rng, ids, depth - 1, unknown_ok), "r": _gen_expr(rng, ids, depth - 1, False)}
    if r < 0.6:
        return {"t": "sub", "l": _gen_expr(rng, ids, depth - 1, False), "r": _gen_expr(rng, ids, depth - 1, unknown_ok)}
    if r < 0.8:
        return {"t": "lmul", "k": k, "e": _gen_expr(rng, ids, depth - 1, unknown_ok)}
    return {"t": "rmul", "e": _gen_expr(rng, ids, depth - 1, unknown_ok), "k": k}


def _keys(E):
    t = E["t"]
    if t == "list":
        return set(E["ids"])
    if t == "dict":
        return {k for k, _ in E["items"]}
    if t == "str":
        return {E["id"]}
    if t == "none":
        return set()
    if t in ("add", "sub"):
        return _keys(E["l"]) | _keys(E["r"])
    return _keys(E["e"])


def _has_op(E):
    return E["t"] in ("add", "sub", "lmul", "rmul")


def _has_mul(E):
    t = E["t"]
    if t in ("lmul", "rmul"):
        return True
    if t in ("add", "sub"):
        return _has_mul(E["l"]) or _has_mul(E["r"])
    return False


def _resolve(names, name):
    nm = name if name is not None else "_const_{0}".format(len(names))
    if nm in names:
        nm += "_v2"
    return nm


def _gen_name(rng, names):
    r = rng.random()
    if r < 0.3:
        return None
    if r < 0.5 and names:
        return rng.choice(names)  # taken: goes to _v2
    return rng.choice(NAMEPOOL)


PHASES = [0, 0, 0, 0, -120, 120, 30, -90, 150, 45.5, 180]
VOLTS = [208, 208, 240, 277, 120]


def _reg(rng, s):
    o = {"op": "register", "id": s}
    if rng.random() < 0.6:
        o["phase"] = rng.choice(PHASES)
        o["voltage"] = rng.choice(VOLTS)
    return o


def _gen_same_set_pair(rng, ids):
    """seeded-bug class: both operands of +/- name the SAME station set, listed in DIFFERENT orders, with
    non-uniform coefficients (a positional instead of a label-wise combination would go unnoticed otherwise)"""
    k = rng.randint(2, min(4, len(ids)))
    sub = rng.sample(ids, k)
    a = [[s_, rng.choice([1, 2, 3, -1, 0.5, 4, -2.5, 7])] for s_ in sub]
    perm = sub[:]
    while perm == sub:
        rng.shuffle(perm)
    vals = rng.sample([10, 20, -30, 0.25, 5, -6, 8, 1.5], k)
    b = [[s_, v] for s_, v in zip(perm, vals)]
    E = {"t": rng.choice(["add", "add", "sub"]), "l": {"t": "dict", "items": a}, "r": {"t": "dict", "items": b}}
    if rng.random() < 0.3:
        E = {"t": "lmul", "k": rng.choice(SCALARS), "e": E}
    return E


def _gen_query(rng, ids, names):
    n = len(ids)
    T = rng.randint(1, 4)
    sched = [[rng.choice([0, 1, 2, 6, 8, 16, 0.5, 12.25, 32]) for _ in range(T)] for _ in range(n)]
    q = {"op": "query", "sched": sched, "names": None, "times": None}
    if rng.random() < 0.75:
        cand = list(names) + [rng.choice(NAMEPOOL)]
        k = rng.randint(0, len(cand))
        sel = rng.sample(cand, k)
        if sel and rng.random() < 0.2:
            sel.append(sel[0])
        rng.shuffle(sel)
        q["names"] = sel
    if rng.random() < 0.7:
        k = rng.randint(0, T + 1)
        ts = [rng.randint(-T, T - 1) for _ in range(k)]
        if rng.random() < 0.08:
            ts.append(rng.choice([T, -T - 1, T + 3]))
        q["times"] = ts
    r = rng.random()
    if r < 0.04 and n >= 1:
        q["sched"] = sched + [[1] * T]  # one row too many
    elif r < 0.08 and n >= 2:
        q["sched"] = sched[:1]          # a single row: numpy broadcasts it over all stations
    return q


FEAS_VALS = [0, 1, 2, 4, 6, 8, 16, 0.5, 12.25, 32, 3, 64]
TOLS = [None, None, None, 1e-5, 0.5, 0.0, 1e-3, 2.0]
RTOLS = [None, None, None, 1e-7, 0.0, 0.01, 0.25]
JSON_VIAS = ["str", "str", "str", "buf", "buf", "deepcopy", "sim"]


def _gen_feasible(rng, ids):
    """a READ-ONLY feasibility question: ChargingNetwork.is_feasible, Interface.is_feasible (a dict of loads) or the
    algorithm-side infrastructure_constraints_feasible on Interface.infrastructure_info(); all tolerance modes"""
    n = len(ids)
    T = rng.randint(1, 3)
    scale = rng.choice([1, 1, 1, 0.25, 4, 0])
    sched = [[scale * rng.choice(FEAS_VALS) for _ in range(T)] for _ in range(n)]
    r = rng.random()
    via = "network" if r < 0.55 else ("interface" if r < 0.85 else "alg")
    o = {"op": "feasible", "via": via, "sched": sched, "linear": rng.random() < 0.4,
         "vt": rng.choice(TOLS), "rt": rng.choice(RTOLS)}
    if via == "interface":
        loads = [[s_, row] for s_, row in zip(ids, sched) if rng.random() < 0.8]
        if rng.random() < 0.1:
            loads.append([rng.choice(UNKNOWN), [1] * T])     # not a station: ignored by the code
        if loads and rng.random() < 0.05:
            loads[-1] = [loads[-1][0], loads[-1][1] + [1]]    # unequal lengths
        rng.shuffle(loads)
        o["loads"] = loads
        del o["sched"]
    else:
        q = rng.random()
        if q < 0.04:
            o["sched"] = sched + [[1] * T]
        elif q < 0.08 and n >= 2:
            o["sched"] = sched[:1]
    return o


def _gen_sim(rng, ids):
    """a short simulation ON the network object: plugs EVs in, asks the network whether each submitted schedule is
    feasible (Simulator._update_schedules), charges, unplugs"""
    k = rng.randint(1, min(3, max(1, len(ids))))
    st = rng.sample(ids, min(k, len(ids))) if ids else []
    if rng.random() < 0.05:
        st.append(rng.choice(UNKNOWN))
    evs = []
    for s_ in st:
        a = rng.randint(0, 2)
        evs.append([s_, a, a + rng.randint(1, 3), rng.choice([0.5, 2.0, 5.0])])
    return {"op": "sim", "algo": rng.choice(["stub", "stub", "stub", "uncontrolled", "fcfs", "rr", "llf"]),
            "rate": rng.choice([0, 4, 8, 16, 32, 80]), "period": rng.choice([1, 5]), "evs": evs}


def _gen_use(rng, ids, names):
    r = rng.random()
    if not ids:
        return {"op": "json", "via": rng.choice(JSON_VIAS)} if r < 0.5 else {"op": "iface", "ids": []}
    if r < 0.36:
        return _gen_feasible(rng, ids)
    if r < 0.58:
        return {"op": "json", "via": rng.choice(JSON_VIAS)}
    if r < 0.70:
        return _gen_sim(rng, ids)
    if r < 0.82:
        return {"op": "iface", "ids": list(ids) + ([rng.choice(UNKNOWN)] if rng.random() < 0.1 else [])}
    q = _gen_query(rng, ids, names) if ids else {"op": "iface", "ids": []}
    if q["op"] == "query" and rng.random() < 0.4:
        q["linear"] = True
    return q


def _gen_case(rng, tier):
    ops = []
    nst = rng.choice([0, 1, 2, 3, 3, 4, 4, 5, 6])
    ids = rng.sample(POOL, nst)
    for s in ids:
        ops.append(_reg(rng, s))
    if ids and rng.random() < 0.08:
        ops.append(_reg(rng, rng.choice(ids)))   # re-registration of a known id
    names = []      # generator-side simulation of the naming convention (only to pick mostly-valid ops)
    frozen = False
    n = rng.randint(2, 12)
    # seeded-bug class: READ-ONLY uses of the network and save/resume round trips BETWEEN the edits
    use_rate = rng.choice([0, 0.3, 0.5, 0.5, 0.8])
    if ids and use_rate and rng.random() < 0.3:
        ops.append(_gen_use(rng, ids, names))     # before any constraint exists
    # seeded-bug class: a REJECTED add_constraint (unknown station) in the middle of the history, with
    # successful adds before it and adds / removes / updates after it
    reject_at = rng.randint(1, max(1, n - 2)) if (ids and rng.random() < 0.2) else None
    for step in range(n):
        r = rng.random()
        unknown_ok = rng.random() < 0.08
        if reject_at is not None and step == 0:
            r = 0.0          # make sure something is stored before the rejected add
            unknown_ok = False
        if reject_at is not None and step == reject_at:
            E = _gen_expr(rng, ids, rng.randint(0, 2), False)
            bad = {"t": "dict", "items": [[rng.choice(UNKNOWN), rng.choice(COEFFS)]]}
            E = rng.choice([{"t": "add", "l": E, "r": bad}, {"t": "sub", "l": bad, "r": E}, bad])
            ops.append({"op": "add", "expr": E, "limit": rng.choice([55, 77.5, 999]), "name": _gen_name(rng, names)})
            continue
        if reject_at is not None and step > reject_at and r >= 0.78:
            r = rng.random() * 0.78   # adds / removes / updates after the rejection
        if r < 0.45:
            if len(ids) >= 2 and rng.random() < 0.15:
                E = _gen_same_set_pair(rng, ids)
            else:
                E = _gen_expr(rng, ids, rng.randint(0, 4), unknown_ok)
            nm = _gen_name(rng, names)
            lim = rng.choice([10, 20.5, 100, 0, 1000, 64]) if rng.random() < 0.8 else round(rng.uniform(0, 400), 2)
            ops.append({"op": "add", "expr": E, "limit": lim, "name": nm})
            if _keys(E) <= set(ids):
                names.append(_resolve(names, nm))
                frozen = True
        elif r < 0.6:
            nm = rng.choice(names) if names and rng.random() < 0.85 else rng.choice(NAMEPOOL)
            ops.append({"op": "remove", "name": nm})
            if nm in names:
                names.remove(nm)
        elif r < 0.78:
            nm = rng.choice(names) if names and rng.random() < 0.85 else rng.choice(NAMEPOOL)
            E = _gen_expr(rng, ids, rng.randint(0, 4), unknown_ok)
            nn = None if rng.random() < 0.5 else _gen_name(rng, names)
            lim = rng.choice([10, 20.5, 100, 0, 1000, 64])
            ops.append({"op": "update", "name": nm, "expr": E, "limit": lim, "new_name": nn})
            if nm in names:
                names.remove(nm)
                if _keys(E) <= set(ids):
                    names.append(_resolve(names, nn if nn is not None else nm))
        elif r < 0.84:
            s = rng.choice(POOL)
            ops.append(_reg(rng, s))
            if not frozen and s not in ids:
                ids = ids + [s]
        else:
            if ids:
                ops.append({"op": "query", **{k: v for k, v in _gen_query(rng, ids, names).items() if k != "op"}})
                if rng.random() < 0.25:
                    ops[-1]["linear"] = True
        if use_rate:
            while rng.random() < use_rate:
                ops.append(_gen_use(rng, ids, names))
                if rng.random() < 0.5:
                    break
    if reject_at is not None and ids:
        ops.append(_gen_query(rng, ids, names))
    case = {"ops": ops}
    if rng.random() < 0.5:
        case["max_rate"] = 32     # finite EVSE limits (RoundRobin enumerates the allowable pilots)
    if rng.random() < 0.25:
        case["vt"] = rng.choice([1e-5, 0.0, 0.5, 1e-3])
        case["rt"] = rng.choice([1e-7, 0.0, 0.01])
    return case


def corpus():
    a = {"t": "list", "ids": ["A", "B"]}
    b = {"t": "dict", "items": [["B", 2], ["C", 1]]}
    reg = [{"op": "register", "id": s} for s in ("C", "A", "B")]
    return [
        # alignment through remove/update with a duplicated and a default name, keys listed out of order
        {"ops": reg + [
            {"op": "add", "expr": {"t": "dict", "items": [["B", 2.5], ["C", 1]]}, "limit": 7, "name": None},
            {"op": "add", "expr": {"t": "sub", "l": a, "r": b}, "limit": 8, "name": "_const_0"},
            {"op": "add", "expr": {"t": "add", "l": b, "r": a}, "limit": 9, "name": "_const_0"},
            {"op": "query", "sched": [[1, 2], [3, 4], [5, 6]], "names": ["_const_0_v2"], "times": [-1, 0, 1]},
            {"op": "remove", "name": "_const_0_v2"},
            {"op": "update", "name": "_const_0", "expr": {"t": "str", "id": "A"}, "limit": 1, "new_name": None},
            {"op": "register", "id": "D"},
            {"op": "add", "expr": {"t": "list", "ids": ["A", "Z"]}, "limit": 3, "name": "bad"},
            {"op": "update", "name": "_const_0_v2", "expr": {"t": "str", "id": "Z"}, "limit": 3, "new_name": "x"},
            {"op": "remove", "name": "_const_0"}, {"op": "register", "id": "E"},
            {"op": "add", "expr": {"t": "none"}, "limit": 2, "name": None},
        ]},
        # empty network corner cases
        {"ops": [{"op": "add", "expr": {"t": "none"}, "limit": 1, "name": None}, {"op": "remove", "name": "_const_0"},
                 {"op": "register", "id": "A"}]},
        # the network IN USE between the edits: stations registered in non-lexicographic order with different
        # phase angles / voltages; feasibility questions in every mode, views, a simulation and save/resume
        # round trips between add / update / remove (seeded classes C12-7: a read that writes into magnitudes;
        # C12-8: a resume that re-orders the stations)
        {"vt": 1e-3, "rt": 0.01, "ops": [
            {"op": "register", "id": "s9", "phase": 30, "voltage": 208},
            {"op": "register", "id": "s10", "phase": -90, "voltage": 240},
            {"op": "register", "id": "B", "phase": 150, "voltage": 277},
            {"op": "register", "id": "A", "phase": 30, "voltage": 120},
            {"op": "json", "via": "str"},
            {"op": "add", "expr": {"t": "add", "l": {"t": "list", "ids": ["s10", "A"]},
                                   "r": {"t": "dict", "items": [["A", 0.5], ["s9", 2.0]]}}, "limit": 40, "name": "feeder"},
            {"op": "feasible", "via": "network", "sched": [[2, 4], [2, 4], [2, 4], [2, 4]], "linear": False,
             "vt": None, "rt": None},
            {"op": "feasible", "via": "network", "sched": [[8, 16], [8, 0], [1, 0], [8, 8]], "linear": True,
             "vt": 0.5, "rt": 0.25},
            {"op": "add", "expr": {"t": "sub", "l": {"t": "lmul", "k": 2, "e": {"t": "str", "id": "B"}},
                                   "r": {"t": "dict", "items": [["A", 0.5], ["s9", 2.0]]}}, "limit": 25.5, "name": "branch"},
            {"op": "feasible", "via": "interface", "loads": [["A", [4, 4]], ["s9", [1, 32]], ["Z", [9, 9]]],
             "linear": False, "vt": None, "rt": None},
            {"op": "feasible", "via": "alg", "sched": [[1], [2], [3], [4]], "linear": False, "vt": None, "rt": None},
            {"op": "iface", "ids": ["A", "B", "s10", "s9", "Z"]},
            {"op": "json", "via": "str"},
            {"op": "query", "sched": [[1, 2], [3, 5], [7, 11], [13, 17]], "names": ["branch"], "times": [1, 0]},
            {"op": "query", "sched": [[1, 2], [3, 5], [7, 11], [13, 17]], "names": None, "times": None, "linear": True},
            {"op": "add", "expr": {"t": "rmul", "e": {"t": "sub", "l": {"t": "list", "ids": ["s10", "A"]},
                                                      "r": {"t": "str", "id": "B"}}, "k": 0.25}, "limit": 100, "name": "main"},
            {"op": "sim", "algo": "stub", "rate": 16, "period": 5, "evs": [["A", 0, 3, 2.0], ["s9", 1, 4, 5.0]]},
            {"op": "update", "name": "feeder", "expr": {"t": "dict", "items": [["B", 3.0], ["s10", -1.0]]}, "limit": 41,
             "new_name": "feeder2"},
            {"op": "json", "via": "buf"},
            {"op": "sim", "algo": "fcfs", "rate": 0, "period": 1, "evs": [["B", 0, 2, 0.5]]},
            {"op": "remove", "name": "main"},
            {"op": "json", "via": "sim"},
            {"op": "feasible", "via": "network", "sched": [[0], [0], [12.75], [0]], "linear": True, "vt": 0.0, "rt": 0.0},
            {"op": "iface", "ids": ["s9", "s10", "B", "A"]},
            {"op": "register", "id": "E"},
            {"op": "query", "sched": [[1], [3], [7], [13]], "names": ["feeder2", "branch"], "times": None},
        ]},
    ]


def _small_scope():
    """EVERY history of <= 3 operations over an 18-letter alphabet on 2 and on 3 stations, and every history of
    exactly 4 operations over a 10-letter alphabet on 2 stations; names from {None, 'x', '_const_0'}; both
    alphabets contain a feasibility question and a JSON save/resume; each history ends with one subset query.
    Deterministic (no rng)."""
    import itertools
    cA = {"t": "list", "ids": ["A"]}
    cBA = {"t": "dict", "items": [["B", 2], ["A", -1]]}
    comp = {"t": "sub", "l": {"t": "lmul", "k": 2, "e": {"t": "dict", "items": [["B", 2], ["A", 1]]}},
            "r": {"t": "dict", "items": [["A", 3], ["B", 0.5]]}}      # same set, other order
    bad = {"t": "list", "ids": ["A", "Z"]}
    names3 = [None, "x", "_const_0"]
    lim = iter(range(1, 10 ** 9))

    def add(E, nm):
        return {"op": "add", "expr": E, "limit": None, "name": nm}

    big = [add(E, nm) for E in (cA, comp, bad) for nm in names3]
    big += [{"op": "remove", "name": "x"}, {"op": "remove", "name": "_const_0"}]
    big += [{"op": "update", "name": nm, "expr": cBA, "limit": None, "new_name": nn}
            for nm in ("x", "_const_0") for nn in (None, "x")]
    big += [{"op": "register", "id": "C"}]
    # the network in use: a feasibility question (limits 10.5, 20.5, ...: both answers occur) and a save/resume
    uses = [{"op": "feasible", "via": "network", "sched": None, "linear": False, "vt": None, "rt": None},
            {"op": "json", "via": "str"}]
    big += uses
    small = [add(E, nm) for E in (cA, comp) for nm in (None, "x")]
    small += [{"op": "remove", "name": "x"}, {"op": "remove", "name": "_const_0"},
              {"op": "update", "name": "x", "expr": cBA, "limit": None, "new_name": None},
              {"op": "update", "name": "_const_0", "expr": bad, "limit": None, "new_name": "x"}]
    small += uses
    assert len(big) == 18 and len(small) == 10

    def case(stations, seq):
        ops = [{"op": "register", "id": s_} for s_ in stations]
        cur, fr = list(stations), False
        for k, o in enumerate(seq):
            o = dict(o)
            if "limit" in o:
                o["limit"] = 10 * (k + 1) + 0.5   # distinct limits: a mis-aligned limit is visible
            if o["op"] == "register" and not fr and o["id"] not in cur:
                cur.append(o["id"])
            if o["op"] == "add" and o["expr"] is not bad:
                fr = True
            if o["op"] == "feasible":
                o["sched"] = [[j + 1, 4 * j + 3] for j in range(len(cur))]
            ops.append(o)
        n = len(cur)
        ops.append({"op": "query", "sched": [[j + 1, 2 * j + 3] for j in range(n)],
                    "names": ["x", "_const_0", "x_v2"], "times": [-1, 0]})
        return {"ops": ops, "small_scope": True}

    out = []
    for stations in (["B", "A"], ["C", "A", "B"]):
        for L in (1, 2, 3):
            for seq in itertools.product(big, repeat=L):
                out.append(case(stations, seq))
    for seq in itertools.product(small, repeat=4):
        out.append(case(["B", "A"], seq))
    return out


def generate(rng, n, tier):
    out = [_gen_case(rng, tier) for _ in range(n)]
    if tier == "thorough":
        out.extend(_small_scope())
    return out


# ------------------------------------------------------------------ implementation

def _err_name(e):
    n = type(e).__name__
    if n in ("EVSERegistrationError", "KeyError", "IndexError", "AxisError", "TypeError", "ValueError",
             "InvalidScheduleError", "StationOccupiedError", "AttributeError"):
        return n
    for c in (KeyError, IndexError, ValueError, TypeError):
        if isinstance(e, c):
            return c.__name__
    return "Other:" + n


def _fmt(E):
    t = E["t"]
    if t == "list":
        return "Current(%r)" % (E["ids"],)
    if t == "dict":
        return "Current(%r)" % ({k: v for k, v in E["items"]},)
    if t == "str":
        return "Current(%r)" % E["id"]
    if t == "none":
        return "Current()"
    if t == "add":
        return "(%s + %s)" % (_fmt(E["l"]), _fmt(E["r"]))
    if t == "sub":
        return "(%s - %s)" % (_fmt(E["l"]), _fmt(E["r"]))
    if t == "lmul":
        return "%r*%s" % (E["k"], _fmt(E["e"]))
    return "%s*%r" % (_fmt(E["e"]), E["k"])


class _Raised:
    def __init__(self, name):
        self.name = name


def _num(x):
    x = float(x)
    if math.isnan(x):
        return "nan"
    if math.isinf(x):
        return "inf" if x > 0 else "-inf"
    return x


def _series_vals(v):
    try:
        return sorted([[str(k), _num(x)] for k, x in v.items()])
    except Exception:
        return None


def _typename(v, Current):
    if v is None:
        return "None"
    if isinstance(v, _Raised):
        return "raised:" + v.name
    if isinstance(v, Current):
        return "Current"
    return type(v).__name__


def _eval_impl(E, Current, taint):
    """Evaluate the expression the way a user writes it; every node whose value is not a Current is
    recorded in `taint` (post-order)."""
    t = E["t"]
    if t == "list":
        return Current(list(E["ids"]))
    if t == "dict":
        return Current({k: v for k, v in E["items"]})
    if t == "str":
        return Current(E["id"])
    if t == "none":
        return Current()
    try:
        if t in ("add", "sub"):
            l = _eval_impl(E["l"], Current, taint)
            r = _eval_impl(E["r"], Current, taint)
            if isinstance(l, _Raised) or isinstance(r, _Raised):
                return _Raised("operand")
            v = (l + r) if t == "add" else (l - r)
        else:
            e = _eval_impl(E["e"], Current, taint)
            if isinstance(e, _Raised):
                return _Raised("operand")
            v = (E["k"] * e) if t == "lmul" else (e * E["k"])
    except Exception as ex:  # noqa
        v = _Raised(_err_name(ex))
    if not isinstance(v, Current):
        taint.append({"node": _fmt(E), "op": t, "type": _typename(v, Current), "vals": _series_vals(v)})
    return v


def _snapshot(net):
    m = net.constraint_matrix
    out = {
        "nangles": int(len(net._phase_angles)), "nvoltages": int(len(net._voltages)),
        "angles": [_num(x) for x in np.asarray(net._phase_angles).tolist()],
        "volts": [_num(x) for x in np.asarray(net._voltages).tolist()],
        "vt": _num(net.violation_tolerance), "rt": _num(net.relative_tolerance),
        "stations": list(net.station_ids),
        "matrix": None if m is None else [[_num(x) for x in row] for row in np.asarray(m).tolist()],
        "matrix_ndim": None if m is None else int(np.asarray(m).ndim),
        "magnitudes": [_num(x) for x in np.asarray(net.magnitudes).tolist()],
        "index": [str(x) for x in net.constraint_index],
    }
    try:
        df = net.constraints_as_df()
        out["df_columns"] = [str(c) for c in df.columns]
        out["df_index"] = [str(c) for c in df.index]
        out["df_values"] = [[_num(x) for x in row] for row in df.to_numpy().tolist()]
    except Exception as e:  # noqa
        out["df_err"] = _err_name(e)
        out["df_columns"], out["df_index"], out["df_values"] = None, None, None
    return out


_START = None
_STUB = None


def _start():
    global _START
    if _START is None:
        from datetime import datetime
        _START = datetime(2020, 1, 1)
    return _START


def _stub_cls():
    """a scheduling algorithm that offers every active session the same rate for one period"""
    global _STUB
    if _STUB is None:
        from acnportal.algorithms import BaseAlgorithm

        class FixedRate(BaseAlgorithm):
            def __init__(self, rate):
                super().__init__()
                self.rate = rate
                self.max_recompute = 1

            def schedule(self, active_sessions):
                return {s_.station_id: [self.rate] for s_ in active_sessions}

            def run(self):
                return self.schedule(self.interface.active_sessions())
        _STUB = FixedRate
    return _STUB


def _thin_interface(net):
    """Interface of a Simulator around the LIVE network object (no scheduler, no events)"""
    from acnportal.acnsim import Simulator, Interface
    from acnportal.acnsim.events import EventQueue
    return Interface(Simulator(net, None, EventQueue(), _start(), verbose=False))


def _mat(a):
    return [[_num(x) for x in row] for row in np.asarray(a, dtype=float).tolist()]


def _vec(a):
    return [_num(x) for x in np.asarray(a, dtype=float).tolist()]


def _use_feasible(net, o, st):
    via = o["via"]
    if via == "network":
        res = net.is_feasible(np.array(o["sched"], dtype=float), o["linear"], o["vt"], o["rt"])
    elif via == "interface":
        res = _thin_interface(net).is_feasible({k: list(v) for k, v in o["loads"]}, o["linear"], o["vt"], o["rt"])
    else:
        from acnportal.algorithms.utils import infrastructure_constraints_feasible
        info = _thin_interface(net).infrastructure_info()
        kw = {}
        if o["vt"] is not None:
            kw["violation_tolerance"] = o["vt"]
        if o["rt"] is not None:
            kw["relative_tolerance"] = o["rt"]
        res = infrastructure_constraints_feasible(np.array(o["sched"], dtype=float), info, o["linear"], **kw)
    st["result"] = bool(res)


def _use_iface(net, o, st):
    iface = _thin_interface(net)
    try:
        c = iface.get_constraints()
        st["gc"] = {"matrix": _mat(c.constraint_matrix), "magnitudes": _vec(c.magnitudes),
                    "index": [str(x) for x in c.constraint_index], "evse_index": [str(x) for x in c.evse_index]}
    except Exception as e:  # noqa
        st["gc"] = {"err": _err_name(e)}
    try:
        i = iface.infrastructure_info()
        st["info"] = {"matrix": _mat(i.constraint_matrix), "limits": _vec(i.constraint_limits),
                      "ids": [str(x) for x in i.constraint_ids], "stations": [str(x) for x in i.station_ids],
                      "phases": _vec(i.phases), "voltages": _vec(i.voltages)}
    except Exception as e:  # noqa
        st["info"] = {"err": _err_name(e)}
    per = []
    for s_ in o["ids"]:
        try:
            per.append([s_, _num(iface.evse_phase(s_)), _num(iface.evse_voltage(s_))])
        except Exception as e:  # noqa
            per.append([s_, "err:" + _err_name(e), None])
    st["per_station"] = per
    for key, attr in (("net_phase", "phase_angles"), ("net_volt", "voltages")):
        try:
            st[key] = sorted([str(k), _num(v)] for k, v in getattr(net, attr).items())
        except Exception as e:  # noqa
            st[key] = "err:" + _err_name(e)


def _use_json(net, o):
    """save and resume: the history continues on the object that comes back"""
    from acnportal.acnsim.network import ChargingNetwork
    via = o["via"]
    if via == "str":
        return ChargingNetwork.from_json(net.to_json())
    if via == "buf":
        import io
        b = io.StringIO()
        net.to_json(b)
        b.seek(0)
        return ChargingNetwork.from_json(b)
    if via == "deepcopy":
        return copy.deepcopy(net)
    from acnportal.acnsim import Simulator
    from acnportal.acnsim.events import EventQueue
    from acnportal.algorithms import UncontrolledCharging
    sim = Simulator(net, UncontrolledCharging(), EventQueue(), _start(), verbose=False)
    return Simulator.from_json(sim.to_json()).network


def _use_sim(net, o, st, tag):
    from acnportal.acnsim import Simulator
    from acnportal.acnsim.events import EventQueue, PluginEvent
    from acnportal.acnsim.models import EV, Battery
    evs = [EV(a, d, kwh, s_, "ses%s_%d" % (tag, k), Battery(20, 0, 7)) for k, (s_, a, d, kwh) in enumerate(o["evs"])]
    if o["algo"] == "stub":
        algo = _stub_cls()(o["rate"])
    elif o["algo"] == "uncontrolled":
        from acnportal.algorithms import UncontrolledCharging
        algo = UncontrolledCharging()
    elif o["algo"] == "rr":
        from acnportal.algorithms import RoundRobin, first_come_first_served
        algo = RoundRobin(first_come_first_served)
    elif o["algo"] == "llf":
        from acnportal.algorithms import SortedSchedulingAlgo, least_laxity_first
        algo = SortedSchedulingAlgo(least_laxity_first)
    else:
        from acnportal.algorithms import SortedSchedulingAlgo, first_come_first_served
        algo = SortedSchedulingAlgo(first_come_first_served)
    try:
        sim = Simulator(net, algo, EventQueue([PluginEvent(e.arrival, e) for e in evs]), _start(),
                        period=o["period"], verbose=False)
        sim.run()
        st["periods"] = int(sim.iteration)
    finally:
        # leave no EV behind (a failed run stops between plug-in and departure)
        for s_ in list(net.station_ids):
            try:
                ev = net.get_ev(s_)
                if ev is not None:
                    net.unplug(s_, ev.session_id)
            except Exception:  # noqa
                pass


USE_OPS = ("feasible", "iface", "json", "sim")


def run_impl(case):
    from acnportal.acnsim.network import ChargingNetwork, Current
    from acnportal.acnsim.models import EVSE
    if case.get("vt") is not None:
        net = ChargingNetwork(violation_tolerance=case["vt"], relative_tolerance=case["rt"])
    else:
        net = ChargingNetwork()
    steps = []
    for k, o in enumerate(case["ops"]):
        op = o["op"]
        st = {"err": None}
        if op == "query":
            try:
                kw = {"linear": True} if o.get("linear") else {}
                res = net.constraint_current(np.array(o["sched"], dtype=float), constraints=o["names"],
                                             time_indices=o["times"], **kw)
                res = np.asarray(res)
                st["result"] = [[_num(x) for x in row] for row in res.real.tolist()]
                st["imag"] = [[_num(x) for x in row] for row in res.imag.tolist()]
                st["shape"] = list(res.shape)
            except Exception as e:  # noqa
                st["err"] = _err_name(e)
            st.update(_snapshot(net))
            steps.append(st)
            continue
        if op in USE_OPS:
            try:
                if op == "feasible":
                    _use_feasible(net, o, st)
                elif op == "iface":
                    _use_iface(net, o, st)
                elif op == "json":
                    net = _use_json(net, o)
                else:
                    _use_sim(net, o, st, k)
            except Exception as e:  # noqa
                st["err"] = _err_name(e)
            st.update(_snapshot(net))
            steps.append(st)
            continue
        if op in ("add", "update"):
            taint = []
            cur = _eval_impl(o["expr"], Current, taint)
            if taint:
                # the algebra left the Current class: the operation is NOT applied (neither here nor in
                # the oracle's specification); what would have been stored is shown on a scratch copy
                st["skipped"] = True
                st["taint"] = taint
                st["downstream"] = _downstream(net, cur, o)
                st.update(_snapshot(net))
                steps.append(st)
                continue
            st["coeffs"] = _series_vals(cur)
        try:
            if op == "register":
                evse = EVSE(o["id"]) if case.get("max_rate") is None else EVSE(o["id"], max_rate=case["max_rate"])
                net.register_evse(evse, o.get("voltage", 208), o.get("phase", 0))
            elif op == "add":
                net.add_constraint(cur, o["limit"], name=o["name"])
            elif op == "remove":
                net.remove_constraint(o["name"])
            elif op == "update":
                net.update_constraint(o["name"], cur, o["limit"], new_name=o["new_name"])
        except Exception as e:  # noqa
            st["err"] = _err_name(e)
        st.update(_snapshot(net))
        steps.append(st)
    return {"steps": steps}


def _downstream(net, cur, o):
    """What add_constraint does with the non-Current value (documentation of the defect only)."""
    if cur is None or isinstance(cur, _Raised):
        return {"value": _typename(cur, type(None))}
    try:
        n2 = copy.deepcopy(net)
        n2.add_constraint(cur, o["limit"], name="probe")
        return {"stored_row": [_num(x) for x in np.asarray(n2.constraint_matrix, dtype=float)[-1].tolist()]}
    except Exception as e:  # noqa
        return {"add_constraint_raised": _err_name(e)}


# ------------------------------------------------------------------ model

def _expr_wire(E):
    t = E["t"]
    if t == "dict":
        return {"t": "dict", "items": [[k, f2b(v)] for k, v in E["items"]]}
    if t in ("add", "sub"):
        return {"t": t, "l": _expr_wire(E["l"]), "r": _expr_wire(E["r"])}
    if t == "lmul":
        return {"t": t, "k": f2b(E["k"]), "e": _expr_wire(E["e"])}
    if t == "rmul":
        return {"t": t, "e": _expr_wire(E["e"]), "k": f2b(E["k"])}
    return E


def _optbits(x):
    return None if x is None else f2b(x)


def model_request(case):
    ops = []
    for o in case["ops"]:
        op = o["op"]
        if op == "add":
            ops.append({"op": "add", "expr": _expr_wire(o["expr"]), "limit": f2b(o["limit"]), "name": o["name"]})
        elif op == "update":
            ops.append({"op": "update", "name": o["name"], "expr": _expr_wire(o["expr"]), "limit": f2b(o["limit"]),
                        "new_name": o["new_name"]})
        elif op == "query":
            sched = o["sched"]
            ops.append({"op": "query", "sched": [[f2b(x) for x in row] for row in sched],
                        "T": len(sched[0]) if sched else 0, "names": o["names"], "times": o["times"],
                        "linear": bool(o.get("linear"))})
        elif op == "register":
            c, s_ = _cs(o.get("phase", 0))
            ops.append({"op": "register", "id": o["id"], "c": f2b(c), "s": f2b(s_), "v": f2b(o.get("voltage", 208))})
        elif op == "feasible":
            w = {"op": "feasible", "via": o["via"], "linear": bool(o["linear"]), "vt": _optbits(o["vt"]),
                 "rt": _optbits(o["rt"])}
            if o["via"] == "interface":
                w["loads"] = [[k, [f2b(x) for x in row]] for k, row in o["loads"]]
            else:
                w["sched"] = [[f2b(x) for x in row] for row in o["sched"]]
            ops.append(w)
        elif op in ("iface", "json", "sim"):
            ops.append({"op": op})
        else:
            ops.append(o)
    vt = case["vt"] if case.get("vt") is not None else 1e-5
    rt = case["rt"] if case.get("vt") is not None else 1e-7
    return {"ops": ops, "vt": f2b(vt), "rt": f2b(rt)}


def _cs(phase):
    """cos / sin of a phase angle exactly as constraint_current computes them (inputs of the model)"""
    z = np.exp(1j * np.deg2rad(np.array([float(phase)])))[0]
    return float(z.real), float(z.imag)


def _close_rows(a, b):
    if len(a) != len(b):
        return False
    for ra, rb in zip(a, b):
        if len(ra) != len(rb):
            return False
        for x, y in zip(ra, rb):
            if not close(float(x), float(y)):
                return False
    return True


def compare(case, obs, model):
    out = []
    for i, (o, a, m) in enumerate(zip(case["ops"], obs["steps"], model["steps"])):
        op = o["op"]
        if a.get("skipped"):
            out.append(f"step {i}: implementation's expression value is not a Current ({a['taint'][0]['node']} is "
                       f"{a['taint'][0]['type']}); the model evaluates it")
            continue
        if op != "sim" and a["err"] != m["err"]:
            if op == "feasible" and _edge(case, obs, i):
                pass
            else:
                out.append(f"step {i} {op}: err impl={a['err']} model={m['err']}")
                continue
        if op == "query" and a["err"] is None:
            mr = [[b2f(x) for x in row] for row in m["result"]]
            mi = [[b2f(x) for x in row] for row in m["imag"]]
            if not _close_rows(a["result"], mr) or not _close_rows(a["imag"], mi):
                out.append(f"step {i} query: impl={a['result']} + i{a['imag']} model={mr} + i{mi}")
        if op == "feasible" and a["err"] is None and m["err"] is None and a["result"] != m["result"] \
                and not _edge(case, obs, i):
            out.append(f"step {i} feasible via {o['via']}: impl={a['result']} model={m['result']}")
        if "coeffs" in a:
            mc = [[k, b2f(v)] for k, v in m["coeffs"]]
            if [k for k, _ in mc] != [k for k, _ in a["coeffs"]] or not all(
                    close(float(x), y) for (_, x), (_, y) in zip(a["coeffs"], mc)):
                out.append(f"step {i}: expression value impl={a['coeffs']} model={mc}")
        if a["nangles"] != m["nangles"] or a["nvoltages"] != m["nvoltages"]:
            out.append(f"step {i}: {a['nangles']} phase angles / {a['nvoltages']} voltages, model {m['nangles']} / {m['nvoltages']}")
        mv = [b2f(x) for x in m["voltages"]]
        if len(mv) == len(a["volts"]) and not all(close(float(x), y) for x, y in zip(a["volts"], mv)):
            out.append(f"step {i}: _voltages impl={a['volts']} model={mv}")
        if not close(float(a["vt"]), b2f(m["vt"])) or not close(float(a["rt"]), b2f(m["rt"])):
            out.append(f"step {i}: tolerances impl=({a['vt']}, {a['rt']}) model=({b2f(m['vt'])}, {b2f(m['rt'])})")
        if a["stations"] != m["stations"]:
            out.append(f"step {i}: stations impl={a['stations']} model={m['stations']}")
        if a["index"] != m["index"]:
            out.append(f"step {i}: constraint_index impl={a['index']} model={m['index']}")
        mm = [b2f(x) for x in m["magnitudes"]]
        if len(mm) != len(a["magnitudes"]) or not all(close(float(x), y) for x, y in zip(a["magnitudes"], mm)):
            out.append(f"step {i}: magnitudes impl={a['magnitudes']} model={mm}")
        mx = None
        if (a["matrix"] is None) != (m["matrix"] is None):
            out.append(f"step {i}: constraint_matrix None-ness impl={a['matrix']} model={m['matrix']}")
        elif a["matrix"] is not None:
            mx = [[b2f(x) for x in row] for row in m["matrix"]]
            # a 0 x n numpy matrix lists as [] on both sides
            if not _close_rows(a["matrix"], mx):
                out.append(f"step {i}: constraint_matrix impl={a['matrix']} model={mx}")
        if op == "iface":
            # the Interface's views are the model's state (`full_net_projects`): matrix (0 x N when there is none),
            # limits, names, stations
            for key, fields in (("gc", ("matrix", "magnitudes", "index", "evse_index")),
                                ("info", ("matrix", "limits", "ids", "stations"))):
                g = a[key]
                if g.get("err"):
                    if m["view_err"] != g["err"]:
                        out.append(f"step {i}: {key} raised {g['err']}, model view: {m['view_err']}")
                    continue
                if m["view_err"] is not None:
                    out.append(f"step {i}: {key} answered, model view raises {m['view_err']}")
                    continue
                m_, l_, i_, s_ = (g[f] for f in fields)
                if s_ != m["stations"] or i_ != m["index"] or not _close_rows([l_], [mm]) or not _close_rows(m_, mx or []):
                    out.append(f"step {i}: {key} = {g} differs from the model state")
    return out


def _edge(case, obs, i):
    """the feasibility question of step i is within 1e-8 of the edge (hypot vs. squares in doubles): not compared"""
    angles = [_cs(o.get("phase", 0)) for o, st in zip(case["ops"][:i], obs["steps"][:i])
              if o["op"] == "register" and st["err"] is None]
    # only the verdict's distance from the edge matters; take the state from the implementation's own snapshot
    st = obs["steps"][i]
    cons = [({s_: Fraction(x) for s_, x in zip(st["stations"], row)}, lim, nm)
            for row, lim, nm in zip(st["matrix"] or [], st["magnitudes"], st["index"])]
    vt = case["vt"] if case.get("vt") is not None else 1e-5
    rt = case["rt"] if case.get("vt") is not None else 1e-7
    try:
        kind, val = _feasible_expected(case["ops"][i], st["stations"], cons, angles, vt, rt)
    except Exception:  # noqa
        return False
    return kind == "ok" and val is None


# ------------------------------------------------------------------ property oracle

def _expected(E):
    """exact coefficients of the expression (Fractions), independent of pandas and of the model"""
    t = E["t"]
    if t == "list":
        return {s: Fraction(1) for s in E["ids"]}
    if t == "dict":
        return {k: Fraction(v) for k, v in E["items"]}
    if t == "str":
        return {E["id"]: Fraction(1)}
    if t == "none":
        return {}
    if t in ("add", "sub"):
        l, r = _expected(E["l"]), _expected(E["r"])
        sg = 1 if t == "add" else -1
        return {k: l.get(k, Fraction(0)) + sg * r.get(k, Fraction(0)) for k in set(l) | set(r)}
    e = _expected(E["e"])
    return {k: Fraction(E["k"]) * v for k, v in e.items()}


def _isnan(x):
    return x == "nan" or (isinstance(x, float) and math.isnan(x))


STATE_KEYS = ("stations", "matrix", "magnitudes", "index", "angles", "volts", "vt", "rt")


def _state_of(st):
    return {k: st[k] for k in STATE_KEYS}


F19_KIND = "json_resume_flattens_empty_matrix"


def oracle(case, obs):
    fails = []

    def fail(kind, detail):
        fails.append({"kind": kind, "detail": detail})

    stations, frozen, cons = [], False, []   # the specification: a plain list of (coeffs, limit, name)
    angles = []                               # one (cos, sin) per ACCEPTED register_evse call
    regs = []                                 # one (phase, voltage) per ACCEPTED register_evse call
    vt = case["vt"] if case.get("vt") is not None else 1e-5
    rt = case["rt"] if case.get("vt") is not None else 1e-7
    prev = {"stations": [], "matrix": None, "magnitudes": [], "index": [], "angles": [], "volts": [],
            "vt": vt, "rt": rt}
    for i, (o, st) in enumerate(zip(case["ops"], obs["steps"])):
        op = o["op"]
        if st.get("skipped"):
            first = st["taint"][0]
            if first["op"] in ("lmul", "rmul") and first["type"] == "Series":
                fail("scalar_multiple_not_a_current",
                     f"op {i}: {first['node']} is a plain pandas Series {first['vals']}, not a Current; the whole "
                     f"expression {_fmt(o['expr'])} evaluates to {st['taint'][-1]['type']} {st['taint'][-1]['vals']}; "
                     f"add_constraint with it: {st['downstream']}")
            else:
                fail("current_operator_left_the_class",
                     f"op {i}: {first['node']} evaluates to {first['type']} {first['vals']}")
            if _state_of(st) != prev:
                fail("failed_op_changed_state", f"op {i}: state changed although nothing was applied")
            continue
        exp_err = None
        exp_unchanged = False
        judge_err = True
        if op == "query":
            _oracle_query(i, o, st, stations, frozen, cons, angles, fail)
            exp_unchanged, judge_err = True, False
        elif op == "feasible":
            _oracle_feasible(i, o, st, stations, cons, angles, vt, rt, fail)
            exp_unchanged, judge_err = True, False
        elif op == "iface":
            _oracle_iface(i, o, st, stations, frozen, cons, regs, fail)
            exp_unchanged, judge_err = True, False
        elif op == "json":
            exp_unchanged = True       # a resumed network IS the network that was saved
        elif op == "sim":
            exp_unchanged, judge_err = True, False   # what the run raises (if anything) is not C12's business
        elif op == "register":
            if frozen:
                exp_err, exp_unchanged = "EVSERegistrationError", True
            else:
                angles = angles + [_cs(o.get("phase", 0))]
                regs = regs + [(float(o.get("phase", 0)), float(o.get("voltage", 208)))]
                if o["id"] not in stations:
                    stations = stations + [o["id"]]
        elif op in ("add", "update"):
            want = _expected(o["expr"])
            got = {k: v for k, v in st["coeffs"]}
            for k in sorted(set(want) | set(got)):
                g = got.get(k, 0.0)
                if _isnan(g) or not close(float(g), float(want.get(k, 0))):
                    fail("current_coeff_wrong", f"op {i}: {_fmt(o['expr'])}: coefficient of {k} is {g}, expected "
                                                f"{want.get(k, 0)}")
                    break
            names = [c[2] for c in cons]
            unknown = [k for k in want if k not in stations]
            if op == "add":
                if unknown:
                    exp_err, exp_unchanged = "KeyError", True
                else:
                    cons = cons + [(want, o["limit"], _resolve(names, o["name"]))]
                    frozen = True
            else:
                if o["name"] not in names:
                    exp_err, exp_unchanged = "KeyError", True
                else:
                    j = names.index(o["name"])
                    cons = cons[:j] + cons[j + 1:]
                    if unknown:
                        exp_err = "KeyError"   # remove-then-add: the removal stays (follows the code)
                    else:
                        nn = o["new_name"] if o["new_name"] is not None else o["name"]
                        cons = cons + [(want, o["limit"], _resolve([c[2] for c in cons], nn))]
        elif op == "remove":
            names = [c[2] for c in cons]
            if o["name"] not in names:
                exp_err, exp_unchanged = "KeyError", True
            else:
                j = names.index(o["name"])
                cons = cons[:j] + cons[j + 1:]
        # ---- finding F19: a matrix without rows comes back from JSON as a 1-D array; the network is unusable
        # from then on (constraints_as_df / add_constraint / constraint_current raise, add_constraint after having
        # appended the limit).  Reported once, under its own kind; the rest of such a history is not judged.
        if st["matrix"] is not None and st["matrix_ndim"] != 2:
            fail(F19_KIND, f"op {i} {op}: constraint_matrix has {st['matrix_ndim']} dimension(s) (shape lost) on a "
                           f"network with {len(stations)} stations whose constraints were all removed; "
                           f"constraints_as_df(): {st.get('df_err')}")
            return fails
        if judge_err and st["err"] != exp_err:
            kind = "register_not_refused" if (op == "register" and exp_err) else (
                "resume_raises" if op == "json" else "error_class_wrong")
            fail(kind, f"op {i} {op}: raised {st['err']}, expected {exp_err}")
        cur = _state_of(st)
        if exp_unchanged and cur != prev:
            changed = [k for k in STATE_KEYS if cur[k] != prev[k]]
            if op in ("query", "feasible", "iface", "sim"):
                fail("read_only_use_changed_state",
                     f"op {i} {op} ({o.get('via') or o.get('algo') or ''}): {changed} changed: before="
                     f"{ {k: prev[k] for k in changed} } after={ {k: cur[k] for k in changed} }")
            elif op == "json":
                fail("resume_changed_state",
                     f"op {i} json via {o['via']}: {changed} changed: before={ {k: prev[k] for k in changed} } "
                     f"after={ {k: cur[k] for k in changed} }")
            else:
                fail("failed_op_changed_state", f"op {i} {op}: before={prev} after={cur}")
        # ---- alignment of the three containers with the specification
        if st["nangles"] != len(angles) or st["nvoltages"] != len(angles):
            fail("phase_vector_wrong", f"op {i}: {st['nangles']} phase angles, {st['nvoltages']} voltages after "
                                       f"{len(angles)} accepted registrations")
        elif st["angles"] != [r_[0] for r_ in regs] or st["volts"] != [r_[1] for r_ in regs]:
            fail("phase_vector_wrong", f"op {i}: _phase_angles={st['angles']} _voltages={st['volts']}, registered "
                                       f"(phase, voltage) = {regs}")
        if st["vt"] != vt or st["rt"] != rt:
            fail("tolerance_changed", f"op {i}: tolerances ({st['vt']}, {st['rt']}), constructed with ({vt}, {rt})")
        if st.get("df_err"):
            fail("constraints_as_df_raises", f"op {i}: constraints_as_df() raised {st['df_err']}")
            prev = cur
            continue
        if st["stations"] != stations or st["df_columns"] != stations:
            fail("stations_wrong", f"op {i}: station_ids={st['stations']} df.columns={st['df_columns']} expected={stations}")
        rows = st["matrix"] if st["matrix"] is not None else []
        if (st["matrix"] is not None) != frozen:
            fail("matrix_presence_wrong", f"op {i}: constraint_matrix is {'set' if st['matrix'] is not None else 'None'}, "
                                          f"constraints were {'ever' if frozen else 'never'} added")
        if not (len(rows) == len(st["magnitudes"]) == len(st["index"]) == len(cons) == len(st["df_index"])):
            fail("length_mismatch", f"op {i}: rows={len(rows)} magnitudes={len(st['magnitudes'])} "
                                    f"index={len(st['index'])} expected={len(cons)}")
        else:
            if st["index"] != [c[2] for c in cons] or st["df_index"] != st["index"]:
                fail("name_mismatch", f"op {i}: constraint_index={st['index']} expected={[c[2] for c in cons]}")
            for r, (row, mag, c) in enumerate(zip(rows, st["magnitudes"], cons)):
                if any(_isnan(x) for x in row):
                    fail("nan_stored", f"op {i}: row {r} ({c[2]}) = {row}")
                    break
                # per STATION (by label): the coefficient the network shows for station s is the one given for s
                shown = dict(zip(st["stations"], row)) if len(row) == len(st["stations"]) else None
                want_row = [c[0].get(s, Fraction(0)) for s in stations]
                if shown is None or set(shown) != set(stations) or not all(
                        close(float(shown[s]), float(w)) for s, w in zip(stations, want_row)):
                    fail("row_mismatch", f"op {i}: row {r} ({c[2]}) = {row} over station_ids {st['stations']}, expected "
                                         f"{[float(w) for w in want_row]} over stations {stations}")
                    break
                if _isnan(mag) or not close(float(mag), float(c[1])):
                    fail("limit_mismatch", f"op {i}: magnitudes[{r}] = {mag}, expected {c[1]} ({c[2]})")
                    break
            if st["df_values"] != rows and not (rows == [] and st["df_values"] == []):
                fail("df_differs_from_matrix", f"op {i}: constraints_as_df()={st['df_values']} matrix={rows}")
        prev = cur
    return fails


def _norm_time(t, T):
    if 0 <= t < T:
        return t
    if -T <= t < 0:
        return t + T
    return None


def _bwidth(R, A):
    """numpy broadcasting of the schedule rows (R) against the angle coefficients (A)"""
    return R if R == A else (A if R == 1 else (R if A == 1 else None))


def _oracle_query(i, o, st, stations, frozen, cons, angles, fail):
    """constraint_current(schedule, names, times) with the network's own phase angles.
    numpy's rules, written independently of the model.  linear=False: column indexing first (IndexError); the
    schedule (R rows) is broadcast against the A angle coefficients (needs R == A, R == 1 or A == 1, else
    ValueError); None[...] on a constraint-free network (TypeError); the matrix product needs as many phasor rows
    as stations (ValueError).  After an id was registered twice A > len(stations) and every query raises.
    linear=True: column indexing (IndexError), None[...] (TypeError), the product abs(M) @ S needs R == number of
    stations (ValueError); the angles are not read; the value is |sum_j |a_j| S_j|, imaginary part 0."""
    sched = o["sched"]
    linear = bool(o.get("linear"))
    R, A, n = len(sched), len(angles), len(stations)
    T = len(sched[0]) if sched else 0
    times = list(range(T)) if o["times"] is None else [_norm_time(t, T) for t in o["times"]]
    W = R if linear else _bwidth(R, A)
    if any(t is None for t in times):
        exp = "IndexError"
    elif W is None:
        exp = "ValueError"
    elif not frozen:
        exp = "TypeError"
    elif n != W:
        exp = "ValueError"
    else:
        exp = None
    if st["err"] != exp:
        fail("query_error_class_wrong", f"op {i}: raised {st['err']}, expected {exp} (schedule rows {R}, "
                                        f"{A} phase angles, {n} stations, linear={linear})")
        return
    if exp is not None:
        return
    sel = [c for c in cons if o["names"] is None or c[2] in o["names"]]
    if st["shape"] != [len(sel), len(times)]:
        fail("query_wrong", f"op {i}: shape {st['shape']}, expected {[len(sel), len(times)]} "
                            f"(names={o['names']}, times={o['times']})")
        return
    for part, comp in (("result", 0), ("imag", 1)):
        if linear:
            want = [[abs(sum((abs(c[0].get(s, Fraction(0))) * Fraction(sched[j][t]) for j, s in enumerate(stations)),
                             Fraction(0))) if comp == 0 else Fraction(0) for t in times] for c in sel]
        else:
            want = [[sum((c[0].get(s, Fraction(0)) * Fraction(sched[0 if R == 1 else j][t])
                          * Fraction(angles[0 if A == 1 else j][comp]) for j, s in enumerate(stations)), Fraction(0))
                     for t in times] for c in sel]
        for r, (gr, wr) in enumerate(zip(st[part], want)):
            if not all((not _isnan(g)) and close(float(g), float(w)) for g, w in zip(gr, wr)):
                fail("query_wrong", f"op {i}: {'Re' if comp == 0 else 'Im'} row {r} ({sel[r][2]}) = {gr}, expected "
                                    f"{[float(w) for w in wr]} (names={o['names']}, times={o['times']}, linear={linear})")
                return


def _feasible_expected(o, stations, cons, angles, vt, rt):
    """('err', class) | ('ok', True/False/None) — None = within 1e-9 of the edge (abstain).  Independent of the
    model: exact rational arithmetic on the given doubles (cos/sin as numpy computes them)."""
    via, linear = o["via"], bool(o["linear"])
    n, A = len(stations), len(angles)
    if via == "interface":
        loads = {k: v for k, v in o["loads"]}
        if not loads:
            return ("ok", True)
        if len({len(v) for v in loads.values()}) > 1:
            return ("err", "InvalidScheduleError")
        T = len(next(iter(loads.values())))
        sched = [list(loads[s]) if s in loads else [0] * T for s in stations]
        if n == 0:
            sched = []
    else:
        sched = o["sched"]
    R = len(sched)
    T = len(sched[0]) if sched else 0
    vt_ = o["vt"] if o["vt"] is not None else (vt if via != "alg" else 1e-5)
    rt_ = o["rt"] if o["rt"] is not None else (rt if via != "alg" else 1e-7)
    if via == "alg":
        if A != n:
            return ("err", "ValueError")      # InfrastructureInfo._validate
        if not cons:
            return ("ok", True)
        if R != n:
            return ("err", "ValueError")
        W = n
    else:
        if not cons:
            return ("ok", True)
        if via == "interface" and n == 0:
            # np.array([]) is 1-D: schedule_matrix.T * angle_coeffs etc. — not generated
            return ("ok", None)
        W = R if linear else _bwidth(R, A)
        if W is None or W != n:
            return ("err", "ValueError")
    verdict = True
    for c in cons:
        lim = Fraction(c[1])
        b = lim + max(Fraction(vt_), Fraction(rt_) * lim)
        for t in range(T):
            if linear:
                agg = abs(sum((abs(c[0].get(s, Fraction(0))) * Fraction(sched[j][t]) for j, s in enumerate(stations)),
                              Fraction(0)))
                lhs, rhs = agg, b
                ok = agg <= b
            else:
                re, im = (sum((c[0].get(s, Fraction(0)) * Fraction(sched[0 if R == 1 else j][t])
                               * Fraction(angles[0 if A == 1 else j][comp])
                               for j, s in enumerate(stations)), Fraction(0)) for comp in (0, 1))
                lhs, rhs = re * re + im * im, b * b
                ok = b >= 0 and lhs <= rhs
                if b < 0:
                    lhs, rhs = Fraction(0), b
            if abs(lhs - rhs) <= Fraction(1, 10 ** 8) * max(1, abs(rhs)):
                return ("ok", None)
            if not ok:
                verdict = False
    return ("ok", verdict)


def _oracle_feasible(i, o, st, stations, cons, angles, vt, rt, fail):
    kind, val = _feasible_expected(o, stations, cons, angles, vt, rt)
    if kind == "err":
        if st["err"] != val:
            fail("feasible_error_class_wrong", f"op {i} via {o['via']}: raised {st['err']}, expected {val}")
        return
    if val is None:
        return
    if st["err"] is not None:
        fail("feasible_error_class_wrong", f"op {i} via {o['via']}: raised {st['err']}, expected an answer")
        return
    if st["result"] != val:
        fail("feasible_wrong", f"op {i} via {o['via']} linear={o['linear']} vt={o['vt']} rt={o['rt']}: answered "
                               f"{st['result']}, the limits given to add/update_constraint imply {val}")


def _oracle_iface(i, o, st, stations, frozen, cons, regs, fail):
    """Interface.get_constraints() / infrastructure_info() / evse_phase / evse_voltage and the network's
    phase_angles / voltages dicts show the aligned triple, station by station."""
    n, A = len(stations), len(regs)
    rows = [[float(c[0].get(s, Fraction(0))) for s in stations] for c in cons]
    lims = [float(c[1]) for c in cons]
    names = [c[2] for c in cons]

    def same_rows(a, b):
        return _close_rows(a, b)

    for key, fields in (("gc", ("matrix", "magnitudes", "index", "evse_index")),
                        ("info", ("matrix", "limits", "ids", "stations"))):
        g = st[key]
        if A != n:
            if g.get("err") != "ValueError":
                fail("interface_view_wrong", f"op {i}: {key} = {g}, expected ValueError ({A} phase angles, {n} stations)")
            continue
        if g.get("err"):
            fail("interface_view_wrong", f"op {i}: {key} raised {g['err']}")
            continue
        m_, l_, i_, s_ = (g[f] for f in fields)
        if s_ != stations or i_ != names or len(l_) != len(lims) or not all(close(float(x), y) for x, y in zip(l_, lims)) \
                or not same_rows(m_, rows):
            fail("interface_view_wrong", f"op {i}: {key} = {g}, expected rows {rows} over {stations}, limits {lims}, "
                                         f"names {names}")
        if key == "info" and (g["phases"] != [r_[0] for r_ in regs] or g["voltages"] != [r_[1] for r_ in regs]):
            fail("interface_view_wrong", f"op {i}: info phases {g['phases']} voltages {g['voltages']}, registered {regs}")
    for s_, ph, v in st["per_station"]:
        if A != n:
            want = ("err:ValueError", None)
        elif s_ not in stations:
            want = ("err:KeyError", None)
        else:
            want = regs[stations.index(s_)]
        if (ph, v) != tuple(want):
            fail("station_phase_voltage_wrong", f"op {i}: Interface says station {s_} has phase {ph}, voltage {v}; "
                                                f"registered with {want}")
    if A == n:
        wp = sorted([s_, regs[j][0]] for j, s_ in enumerate(stations))
        wv = sorted([s_, regs[j][1]] for j, s_ in enumerate(stations))
        if st["net_phase"] != wp or st["net_volt"] != wv:
            fail("station_phase_voltage_wrong", f"op {i}: network.phase_angles={st['net_phase']} voltages="
                                                f"{st['net_volt']}, registered {wp} / {wv}")


# ------------------------------------------------------------------ evidence helpers

def nontrivial(case, obs):
    composite = False
    touched = False
    used = False          # a read-only use / a resume while constraints were stored ...
    used_mid = False      # ... followed by a later successful edit
    for o, st in zip(case["ops"], obs["steps"]):
        if st.get("skipped"):
            continue
        if o["op"] in ("add", "update") and st["err"] is None and _has_op(o["expr"]):
            composite = True
        if o["op"] in ("remove", "update") and st["err"] is None and len(st["index"]) >= 1:
            touched = True
        if o["op"] == "query" and st["err"] is None and o["names"] is not None and st["shape"][0] >= 1:
            touched = True
        if o["op"] in USE_OPS and len(st["index"]) >= 1 and (st["err"] is None or o["op"] == "sim"):
            used = True
        if o["op"] in ("add", "remove", "update") and st["err"] is None and used:
            used_mid = True
    return composite and (touched or used_mid)


def _depth(E):
    t = E["t"]
    if t in ("add", "sub"):
        return 1 + max(_depth(E["l"]), _depth(E["r"]))
    if t in ("lmul", "rmul"):
        return 1 + _depth(E["e"])
    return 0


def features(case, obs):
    out = []
    nreg = 0
    prev_rows = 0
    for o, st in zip(case["ops"], obs["steps"]):
        op = o["op"]
        out.append("op:" + op)
        rows_before, prev_rows = prev_rows, len(st.get("index", [])) if op != "query" else prev_rows
        if st.get("skipped"):
            out.append("expr:left_the_class")
            continue
        if st["err"]:
            out.append(f"err:{op}:{st['err']}")
        if op == "register":
            nreg += st["err"] is None
        if op in ("add", "update"):
            out.append("expr_depth:%d" % _depth(o["expr"]))
            out.append("expr_root:" + o["expr"]["t"])
            if _has_mul(o["expr"]):
                out.append("expr:has_scalar_multiple")
            if st["err"] is None:
                nm = o["name"] if op == "add" else (o["new_name"] if o["new_name"] is not None else o["name"])
                if nm is None:
                    out.append("name:default")
                if st["index"] and st["index"][-1].endswith("_v2") and not (nm or "").endswith("_v2"):
                    out.append("name:_v2")
                if len(set(st["index"])) < len(st["index"]):
                    out.append("name:duplicate_in_index")
                out.append("rows_after:%d" % min(len(st["index"]), 5))
                if len(st["index"]) == 1:
                    out.append("add:first_row_path")
            elif op == "update" and st["err"] == "KeyError" and len(st["index"]) < rows_before:
                out.append("update:not_atomic_row_lost")
        if op == "feasible":
            out.append("feasible:%s:%s" % (o["via"], "linear" if o["linear"] else "phasor"))
            if o["vt"] is not None or o["rt"] is not None:
                out.append("feasible:explicit_tolerance")
            if st["err"] is None:
                out.append("feasible:answer=%s:rows=%d" % (st["result"], min(len(st["index"]), 3)))
        if op == "json":
            out.append("json:" + o["via"])
            if st["stations"] != sorted(st["stations"]):
                out.append("json:stations_not_in_lexicographic_order")
            if st["index"]:
                out.append("json:with_constraints")
            if st["matrix"] == [] and st["err"] is None:
                out.append("json:all_constraints_removed")
        if op == "sim":
            out.append("sim:" + o["algo"])
            if st["err"] is None:
                out.append("sim:periods=%d" % min(st.get("periods", 0), 6))
            if st["index"]:
                out.append("sim:with_constraints")
        if op == "iface" and st["index"]:
            out.append("iface:with_constraints")
        if op == "query" and o.get("linear"):
            out.append("query:linear")
        if op == "query" and st["err"] is None:
            out.append("query:names=" + ("None" if o["names"] is None else "subset"))
            out.append("query:times=" + ("None" if o["times"] is None else "subset"))
            if o["times"] and any(t < 0 for t in o["times"]):
                out.append("query:negative_time_index")
    out.append("stations:%d" % nreg)
    if case.get("vt") is not None:
        out.append("network:own_tolerances")
    out.extend(_class_features(case, obs))
    return out


def _same_set_other_order(E):
    t = E["t"]
    if t in ("add", "sub"):
        l, r = E["l"], E["r"]
        if l["t"] == "dict" and r["t"] == "dict":
            kl, kr = [k for k, _ in l["items"]], [k for k, _ in r["items"]]
            if len(kl) >= 2 and set(kl) == set(kr) and kl != kr and len(set(v for _, v in l["items"])) > 1:
                return True
        return _same_set_other_order(l) or _same_set_other_order(r)
    if t in ("lmul", "rmul"):
        return _same_set_other_order(E["e"])
    return False


def _class_features(case, obs):
    out = []
    if case.get("small_scope"):
        out.append("class:small_scope_exhaustive")
    ok_before, rejected = 0, False
    for o, st in zip(case["ops"], obs["steps"]):
        op = o["op"]
        if st.get("skipped"):
            continue
        if op == "register" and o.get("phase", 0) != 0:
            out.append("phase:nonzero")
        if op in ("add", "update") and st["err"] is None and _same_set_other_order(o["expr"]):
            out.append("class:same_station_set_other_order_stored")
        if op == "add" and st["err"] == "KeyError" and ok_before:
            rejected = True
        elif op in ("add", "remove", "update") and st["err"] is None:
            if rejected:
                out.append("class:op_after_rejected_add_mid_history")
            ok_before += op == "add"
        if op == "query":
            if st["err"] is None and len(o["sched"]) == 1 and len(st["result"]) and len(o["sched"]) != st.get("n", 1):
                pass
    # READ-ONLY uses / resumes between edits
    pending = set()
    for o, st in zip(case["ops"], obs["steps"]):
        if st.get("skipped"):
            continue
        if o["op"] in USE_OPS and st["index"]:
            pending.add(o["op"])
        elif o["op"] in ("add", "remove", "update") and st["err"] is None:
            for u in sorted(pending):
                out.append("class:%s_between_edits" % u)
            pending = set()
    # queries judged where the first version abstained
    nang = nst = 0
    for o, st in zip(case["ops"], obs["steps"]):
        if o["op"] != "query":
            nang, nst = st.get("nangles", nang), len(st.get("stations", []))
        else:
            if nang > nst:
                out.append("query:after_reregistration")
            if len(o["sched"]) == 1 and nst >= 2:
                out.append("query:single_row_broadcast")
    return out


def shrink(case, kind):
    """drop operations greedily while the same failure kind is still reported on the implementation"""
    base = {k: v for k, v in case.items() if k not in ("ops", "small_scope")}

    def bad(c):
        try:
            return any(f["kind"] == kind for f in oracle(c, run_impl(c)))
        except Exception:
            return False
    ops = list(case["ops"])
    if not bad({**base, "ops": ops}):
        return case
    i = len(ops) - 1
    while i >= 0:
        cand = ops[:i] + ops[i + 1:]
        if bad({**base, "ops": cand}):
            ops = cand
        i -= 1
    return {**base, "ops": ops}
