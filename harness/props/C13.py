"""C13 — EVSEs accept exactly their allowable pilots and advertise truthful limits."""
from __future__ import annotations

import math
from datetime import datetime
from fractions import Fraction

import numpy as np

from core.common import f2b, b2f, close
from core import impl as I

ID = "C13"
LEAN_MODULES = ["AcnProofs.C13", "AcnProofs.Lemmas.CodeTieEvse"]
DRIVER = "drv_C13"
REQUIRED_THEOREMS = [
    "Acn.C13.cont_valid_iff", "Acn.C13.cont_valid_iff_inf", "Acn.C13.deadband_valid_iff",
    "Acn.C13.finite_valid_iff", "Acn.C13.normalize_spec", "Acn.C13.listMax_spec",
    "Acn.C13.advertised_accepted_cont", "Acn.C13.advertised_accepted_deadband",
    "Acn.C13.advertised_accepted_finite", "Acn.C13.reject_iff", "Acn.C13.plugin_occupied_refused",
    "Acn.C13.gen_tolerances", "Acn.C13.gen_type_tables",
]
BUDGET = {"quick": 1500, "thorough": 40000, "search": 20000}
TRUSTED = ["numpy.isclose / Python float comparison semantics (modelled as |a-b| <= atol)",
           "IEEE-754 rounding at the open edge of the tolerance (oracle abstains within 1e-9 of the edge; "
           "the dyadic exact-edge stream tests the edge itself without rounding)"]
ASSUMPTIONS = ["theorems are over an arbitrary linear ordered field; the implementation computes in doubles"]
RULE = ("per case one EVSE (continuous / deadband / finite, parameters incl. unsorted, duplicated, zero-free "
        "rate lists and infinite max) and a sequence of 1-8 operations (validity query, set_pilot with/without "
        "connected EV, plugin, plugin-when-occupied, unplug) with pilots at every boundary ± "
        "{0,1e-4,5e-4,9.99e-4,1e-3,1.001e-3,2e-3}, NaN, negatives, and an exact dyadic-edge stream; "
        "non-trivial = at least one pilot within 2.5e-3 of a boundary of the allowable set or a rejection "
        "with an EV connected; distinct by hash of the case")

ATOL = 1e-3
OFFS = [0.0, 1e-4, -1e-4, 5e-4, -5e-4, 9.99e-4, -9.99e-4, 1e-3, -1e-3, 1.001e-3, -1.001e-3, 2e-3, -2e-3, 0.5, -0.5, 3.0, -3.0]


# ------------------------------------------------------------------ generation

def _gen_kind(rng):
    r = rng.random()
    if r < 0.3:
        return {"t": "cont", "min": rng.choice([0, 0, 0, 6, 8, 0.5]), "max": rng.choice([16, 32, 80, "inf", 32.5])}
    if r < 0.55:
        return {"t": "deadband", "db": rng.choice([6, 6, 5.5, 8]), "max": rng.choice([32, 16, "inf", 48])}
    c = rng.random()
    if c < 0.2:
        rates = [0, 8, 16, 24, 32]
    elif c < 0.4:
        rates = [0] + list(range(6, 33))
    else:
        n = rng.randint(1, 7)
        rates = [rng.choice([0, 6, 8, 10, 12.5, 16, 20, 24, 30, 32, 40, 0.002, 8.0015]) for _ in range(n)]
        rng.shuffle(rates)
    return {"t": "finite", "rates": rates}


def _boundaries(kind):
    t = kind["t"]
    if t == "cont":
        b = [I.num(kind["min"]), I.num(kind["max"])]
    elif t == "deadband":
        b = [0.0, I.num(kind["db"]), I.num(kind["max"])]
    else:
        b = [0.0] + [I.num(r) for r in kind["rates"]]
    return [x for x in b if not math.isinf(x)]


def _gen_pilot(rng, kind):
    r = rng.random()
    if kind.get("max") == "inf" and r < 0.12:
        return "inf"  # the advertised maximum of an unbounded EVSE (what UncontrolledCharging sends)
    if r < 0.75:
        return rng.choice(_boundaries(kind)) + rng.choice(OFFS)
    if r < 0.9:
        return rng.uniform(-2, 45)
    if r < 0.93:
        return "nan"
    if r < 0.96:
        return -rng.uniform(0, 10)
    return rng.choice([0, 6, 8, 16, 32, 1e6])


def _gen_ev(rng, k):
    two = rng.random() < 0.4
    cap = rng.choice([10, 40, 60.5, 100])
    batt = {"two": two, "cap": cap, "init": round(rng.uniform(0, cap), 3), "maxp": rng.choice([3.3, 6.6, 7, 50])}
    if two:
        batt.update({"noise": rng.choice([0, 0, 0.5]), "ts": rng.choice([0.8, 0.5, 0.9]),
                     "calc": rng.choice(["continuous", "stepwise"])})
    return {"session": f"s{k}", "station": "S", "arrival": 0, "departure": 10, "requested": round(rng.uniform(1, 30), 3), "batt": batt}


def _gen_case(rng, exact=False):
    kind = _gen_kind(rng)
    ops = []
    n = rng.randint(1, 8)
    k = 0
    for _ in range(n):
        r = rng.random()
        if exact:
            # dyadic tolerance, dyadic boundaries: float arithmetic is exact at the edge
            b = rng.choice([x for x in _boundaries(kind) if float(x) == round(float(x) * 8) / 8] or [0.0])
            atol = 2.0 ** -10
            p = b + rng.choice([0, atol, -atol, 2 * atol, -2 * atol, atol / 2, -atol / 2])
            ops.append({"op": "valid", "p": p, "atol": atol})
        elif r < 0.35:
            ops.append({"op": "valid", "p": _gen_pilot(rng, kind), "atol": ATOL})
        elif r < 0.75:
            ops.append({"op": "set_pilot", "p": _gen_pilot(rng, kind), "V": rng.choice([208, 240, 120, 277.5]),
                        "T": rng.choice([1, 5, 15, 0.5]), "nu": round(rng.gauss(0, 0.5), 4)})
        elif r < 0.9:
            prev = [o for o in ops if o["op"] == "plugin"]
            if prev and rng.random() < 0.4:
                # re-plug the occupant itself, or a rebuilt EV carrying the same session id
                ops.append({"op": "plugin", "ev": prev[-1]["ev"], "same": rng.choice(["object", "copy"])})
            else:
                ops.append({"op": "plugin", "ev": _gen_ev(rng, k)})
                k += 1
        else:
            ops.append({"op": "unplug"})
    return {"kind": kind, "ops": ops}


def corpus():
    return [
        {"kind": {"t": "finite", "rates": [32, 8, 8, 16]}, "ops": [{"op": "valid", "p": 0, "atol": ATOL}, {"op": "valid", "p": 8.0009, "atol": ATOL}, {"op": "valid", "p": 8.0011, "atol": ATOL}]},
        {"kind": {"t": "deadband", "db": 6, "max": 32}, "ops": [{"op": "set_pilot", "p": 3, "V": 208, "T": 5, "nu": 0}, {"op": "set_pilot", "p": 0.0005, "V": 208, "T": 5, "nu": 0}, {"op": "set_pilot", "p": 5.9995, "V": 208, "T": 5, "nu": 0}]},
        {"kind": {"t": "cont", "min": 0, "max": 32}, "ops": [
            {"op": "plugin", "ev": {"session": "a", "station": "S", "arrival": 0, "departure": 5, "requested": 10, "batt": {"two": False, "cap": 40, "init": 5, "maxp": 7}}},
            {"op": "set_pilot", "p": 16, "V": 208, "T": 5, "nu": 0},
            {"op": "set_pilot", "p": 32.002, "V": 208, "T": 5, "nu": 0},
            {"op": "plugin", "ev": {"session": "b", "station": "S", "arrival": 0, "departure": 5, "requested": 10, "batt": {"two": False, "cap": 40, "init": 5, "maxp": 7}}},
            {"op": "set_pilot", "p": 32.0009, "V": 208, "T": 5, "nu": 0},
            {"op": "unplug"}]},
        {"kind": {"t": "cont", "min": 0, "max": "inf"}, "ops": [{"op": "valid", "p": 1e6, "atol": ATOL}, {"op": "valid", "p": -0.0011, "atol": ATOL}]},
    ]


def generate(rng, n, tier):
    out = []
    for i in range(n):
        out.append(_gen_case(rng, exact=(i % 6 == 5)))
    return out


# ------------------------------------------------------------------ implementation

def _obs_state(evse):
    return {"pilot": I.enc(float(evse.current_pilot)), "ev": I.ev_state(evse.ev)}


def run_impl(case):
    evse = I.make_evse(case["kind"])
    info = {
        "max": float(evse.max_rate), "min": float(evse.min_rate), "cont": bool(evse.is_continuous),
        "allowable": [float(x) for x in evse.allowable_pilot_signals],
    }
    # advertised values are themselves accepted (checked on the real predicate)
    adv = []
    for v in set(info["allowable"] + [info["max"]] + ([0.0] if case["kind"]["t"] != "cont" else [info["min"]])):
        ok = bool(evse._valid_rate(v))
        # ... and through the public entry point, on a fresh EVSE of the same kind (incl. inf)
        fresh = I.make_evse(case["kind"])
        try:
            fresh.set_pilot(v, 208, 5)
            ok_sp = fresh.current_pilot == v
        except Exception:  # noqa
            ok_sp = False
        adv.append([I.enc(v), ok and ok_sp])
    info["advertised_accepted"] = sorted(adv, key=lambda t: float(t[0]))
    # network cache + Interface accessors
    info["iface"] = _iface_info(case["kind"])
    steps = []
    with I.noise_source() as ns:
        for o in case["ops"]:
            op = o["op"]
            ns.value = o.get("nu", 0.0)
            if op == "valid":
                steps.append({"valid": bool(evse._valid_rate(I.num(o["p"]), atol=o["atol"]))})
                continue
            before = _obs_state(evse)
            occupant = evse.ev
            err = None
            try:
                if op == "set_pilot":
                    evse.set_pilot(I.num(o["p"]), o["V"], o["T"])
                elif op == "plugin":
                    if o.get("same") == "object" and evse.ev is not None:
                        evse.plugin(evse.ev)
                    else:
                        evse.plugin(I.make_ev(o["ev"]))
                elif op == "unplug":
                    evse.unplug()
            except Exception as e:  # noqa
                err = I.err_name(e)
            st = _obs_state(evse)
            st["err"] = err
            st["before"] = before
            st["same_occupant"] = evse.ev is occupant
            steps.append(st)
    return {"info": info, "steps": steps}


def _iface_info(kind):
    from acnportal.acnsim.network import ChargingNetwork
    from acnportal.acnsim import Simulator, EventQueue, Interface
    from acnportal.algorithms import BaseAlgorithm
    net = ChargingNetwork()
    net.register_evse(I.make_evse(kind, "S"), 208, 0)
    # a constraint is added because Interface cannot describe a constraint-free network on the
    # unfixed tree (finding F3, decided under C06, not here)
    from acnportal.acnsim.network import Current
    net.add_constraint(Current(["S"]), 1000, name="c")
    sim = Simulator(net, BaseAlgorithm(), EventQueue(), datetime(2020, 1, 1), verbose=False)
    iface = Interface(sim)
    cont, allow = iface.allowable_pilot_signals("S")
    return {"max": float(iface.max_pilot_signal("S")), "min": float(iface.min_pilot_signal("S")),
            "cont": bool(cont), "allowable": [float(a) for a in allow],
            "net_max": float(net.max_pilot_signals[0]), "net_min": float(net.min_pilot_signals[0]),
            "net_allow": [float(a) for a in net.allowable_rates[0]], "net_cont": bool(net.is_continuous[0])}


# ------------------------------------------------------------------ model

def model_request(case):
    ops = []
    for o in case["ops"]:
        if o["op"] == "valid":
            ops.append({"op": "valid", "p": f2b(I.num(o["p"])), "atol": f2b(o["atol"])})
        elif o["op"] == "set_pilot":
            ops.append({"op": "set_pilot", "p": f2b(I.num(o["p"])), "V": f2b(o["V"]), "T": f2b(o["T"]),
                        "nu": f2b(o["nu"])})
        elif o["op"] == "plugin":
            ops.append({"op": "plugin", "ev": I.ev_wire(o["ev"])})
        else:
            ops.append({"op": "unplug"})
    return {"kind": I.kind_wire(case["kind"]), "ops": ops}


def _cmp_ev(a, m, out, where):
    if (a is None) != (m is None):
        out.append(f"{where}: occupant impl={a} model={m}")
        return
    if a is None:
        return
    if a["session"] != m["session"]:
        out.append(f"{where}: session {a['session']} vs {m['session']}")
    for k, mk in (("delivered", "delivered"), ("rate", "rate")):
        if not close(a[k], b2f(m[mk])):
            out.append(f"{where}: ev.{k} impl={a[k]!r} model={b2f(m[mk])!r}")
    for k in ("charge", "power"):
        if not close(a["batt"][k], b2f(m["batt"][k])):
            out.append(f"{where}: batt.{k} impl={a['batt'][k]!r} model={b2f(m['batt'][k])!r}")


def compare(case, obs, model):
    out = []
    mi = model["info"]
    ii = obs["info"]
    if not close(ii["max"], b2f(mi["max"])):
        out.append(f"max_rate impl={ii['max']} model={b2f(mi['max'])}")
    if not close(ii["min"], b2f(mi["min"])):
        out.append(f"min_rate impl={ii['min']} model={b2f(mi['min'])}")
    if ii["cont"] != mi["cont"]:
        out.append("is_continuous differs")
    ma = [b2f(x) for x in mi["allowable"]]
    if len(ma) != len(ii["allowable"]) or not all(close(a, b) for a, b in zip(ii["allowable"], ma)):
        out.append(f"allowable impl={ii['allowable']} model={ma}")
    for i, (a, m) in enumerate(zip(obs["steps"], model["steps"])):
        if "valid" in a:
            if a["valid"] != m.get("valid"):
                out.append(f"step {i}: valid impl={a['valid']} model={m.get('valid')} op={case['ops'][i]}")
            continue
        if a["err"] != m["err"]:
            if a["err"] == "ValueError" or m["err"] == "ValueError":
                pass
            out.append(f"step {i}: err impl={a['err']} model={m['err']} op={case['ops'][i]}")
            continue
        if not close(I.num(a["pilot"]), b2f(m["pilot"])):
            out.append(f"step {i}: pilot impl={a['pilot']} model={b2f(m['pilot'])}")
        _cmp_ev(a["ev"], m["ev"], out, f"step {i}")
    return out


# ------------------------------------------------------------------ property oracle

def _dist(kind, p):
    """exact rational distance from p to the allowable set (None if p is NaN)."""
    if isinstance(p, float) and math.isnan(p):
        return None
    P = Fraction(p)
    t = kind["t"]

    def d_iv(lo, hi):
        lo = Fraction(lo)
        if P < lo:
            return lo - P
        if not math.isinf(hi) and P > Fraction(hi):
            return P - Fraction(hi)
        return Fraction(0)

    if t == "cont":
        return d_iv(I.num(kind["min"]), I.num(kind["max"]))
    if t == "deadband":
        return min(abs(P), d_iv(I.num(kind["db"]), I.num(kind["max"])))
    return min(abs(P - Fraction(I.num(r))) for r in list(kind["rates"]) + [0])


def _expected_valid(kind, p, atol):
    """True / False / None (abstain: within 1e-9 of the tolerance edge, doubles may round)."""
    if isinstance(p, float) and math.isinf(p):
        # +inf is exactly the advertised maximum of an unbounded continuous/deadband EVSE
        return p > 0 and kind["t"] != "finite" and math.isinf(float(I.num(kind["max"])))
    d = _dist(kind, p)
    if d is None:
        return False
    margin = d - Fraction(atol)
    exact_edge = (Fraction(atol).denominator <= 2 ** 12 and Fraction(p).denominator <= 2 ** 12)
    if abs(margin) < Fraction(1, 10 ** 9) and not exact_edge:
        return None
    return margin <= 0


def oracle(case, obs):
    fails = []
    kind = case["kind"]
    info = obs["info"]
    # advertised values accepted
    for v, ok in info["advertised_accepted"]:
        if not ok:
            fails.append({"kind": "advertised_value_rejected", "detail": f"advertised {v} is rejected by the EVSE"})
    # finite normalisation
    if kind["t"] == "finite":
        al = info["allowable"]
        want = sorted(set(float(I.num(r)) for r in kind["rates"]) | {0.0})
        if al != want:
            fails.append({"kind": "finite_list_not_normalised", "detail": f"allowable={al} expected={want}"})
        if info["max"] != max(want):
            fails.append({"kind": "advertised_max_wrong", "detail": f"max={info['max']} expected={max(want)}"})
    else:
        mx = I.num(kind["max"])
        if float(info["max"]) != float(mx):
            fails.append({"kind": "advertised_max_wrong", "detail": f"max={info['max']} expected={mx}"})
    # cache / interface truthful
    f = info["iface"]
    if not (f["max"] == info["max"] == f["net_max"] and f["min"] == info["min"] == f["net_min"]
            and f["cont"] == info["cont"] == f["net_cont"] and f["allowable"] == info["allowable"] == f["net_allow"]):
        fails.append({"kind": "interface_info_differs", "detail": f"evse={info} iface={f}"})
    for i, (o, st) in enumerate(zip(case["ops"], obs["steps"])):
        op = o["op"]
        if op == "valid":
            atol_eff = o["atol"] if kind["t"] != "finite" else ATOL
            exp = _expected_valid(kind, I.num(o["p"]), atol_eff)
            if exp is not None and exp != st["valid"]:
                fails.append({"kind": "validity_wrong", "detail": f"op {i} pilot {o['p']} atol {atol_eff}: accepted={st['valid']} expected={exp}"})
        elif op == "set_pilot":
            exp = _expected_valid(kind, I.num(o["p"]), ATOL)
            accepted = st["err"] is None
            if st["err"] not in (None, "InvalidRate"):
                fails.append({"kind": "unexpected_exception", "detail": f"op {i}: {st['err']}"})
                continue
            if exp is not None and exp != accepted:
                fails.append({"kind": "validity_wrong", "detail": f"op {i} set_pilot({o['p']}): accepted={accepted} expected={exp}"})
            if not accepted:
                b = st["before"]
                if b["pilot"] != st["pilot"] or b["ev"] != st["ev"]:
                    fails.append({"kind": "rejected_pilot_changed_state", "detail": f"op {i}: before={b} after={ {k: st[k] for k in ('pilot','ev')} }"})
            else:
                p = I.num(o["p"])
                if float(I.num(st["pilot"])) != float(p):
                    fails.append({"kind": "accepted_pilot_not_stored", "detail": f"op {i}: pilot={st['pilot']} expected={p}"})
        elif op == "plugin":
            occupied = st["before"]["ev"] is not None
            if occupied:
                if st["err"] != "StationOccupied" or not st["same_occupant"] or st["ev"] != st["before"]["ev"]:
                    fails.append({"kind": "occupied_plugin_not_refused", "detail": f"op {i}: err={st['err']} ev={st['ev']}"})
            else:
                if st["err"] is not None or st["ev"] is None or st["ev"]["session"] != o["ev"]["session"]:
                    fails.append({"kind": "vacant_plugin_failed", "detail": f"op {i}: err={st['err']} ev={st['ev']}"})
    return fails


def nontrivial(case, obs):
    bs = _boundaries(case["kind"])
    for o, st in zip(case["ops"], obs["steps"]):
        if o["op"] in ("valid", "set_pilot"):
            p = I.num(o["p"])
            if isinstance(p, float) and math.isnan(p):
                continue
            if any(abs(p - b) <= 2.5e-3 for b in bs):
                return True
            if o["op"] == "set_pilot" and st.get("err") == "InvalidRate" and st["before"]["ev"] is not None:
                return True
    return False


def features(case, obs):
    out = ["kind:" + case["kind"]["t"]]
    for o, st in zip(case["ops"], obs["steps"]):
        if o["op"] == "set_pilot" and o["p"] == "inf":
            out.append("set_pilot_inf")
        out.append("op:" + o["op"] + (":same_" + o["same"] if o.get("same") else ""))
        if "err" in st and st["err"]:
            out.append("err:" + st["err"])
        if o["op"] == "valid":
            out.append("valid:" + str(st["valid"]))
        if o["op"] == "set_pilot" and st["before"]["ev"] is not None:
            out.append("set_pilot_with_ev")
    return out
