"""C13 — EVSEs accept exactly their allowable pilots and advertise truthful limits."""
from __future__ import annotations

import copy
import io
import json
import math
import os
import pickle
import tempfile
import warnings
from datetime import datetime
from fractions import Fraction

import numpy as np

from core.common import f2b, b2f, close
from core import impl as I

ID = "C13"
LEAN_MODULES = ["AcnProofs.C13"]
TIE_MODULES = ["AcnProofs.Lemmas.CodeTieEvse", "AcnProofs.Lemmas.CodeTieEvseOps"]
DRIVER = "drv_C13"
REQUIRED_THEOREMS = [
    "Acn.C13.cont_valid_iff", "Acn.C13.cont_valid_iff_inf", "Acn.C13.deadband_valid_iff",
    "Acn.C13.finite_valid_iff", "Acn.C13.normalize_spec", "Acn.C13.listMax_spec",
    "Acn.C13.advertised_accepted_cont", "Acn.C13.advertised_accepted_deadband",
    "Acn.C13.advertised_accepted_finite", "Acn.C13.reject_iff", "Acn.C13.plugin_occupied_refused",
    "Acn.C13.gen_tolerances", "Acn.C13.gen_type_tables",
    # degenerate ranges: min_rate == max_rate, a switched-off station (max_rate = 0, finite list of zeros / empty)
    "Acn.C13.valid_rate_point_range", "Acn.C13.normalize_zeros", "Acn.C13.valid_rate_zero_range",
    # the description read through the network / Interface, for networks of any size
    "Acn.C13.registered_ids_nodup", "Acn.C13.registered_last_wins", "Acn.C13.registered_consistent_iff",
    "Acn.C13.info_cache_eq", "Acn.C13.info_cache_unknown", "Acn.C13.info_cache_no_index_error",
    "Acn.C13.advertised_values_accepted", "Acn.C13.advertised_accepted_net",
    # save / resume steps (from_json(to_json())) anywhere in the history of a network
    "Acn.C13.restore_history_eq", "Acn.C13.restore_iface_eq", "Acn.C13.advertised_accepted_restored",
]
BUDGET = {"quick": 1500, "thorough": 32000, "search": 8000}
TRUSTED = ["numpy.isclose / Python float comparison semantics (modelled as |a-b| <= atol)",
           "IEEE-754 rounding at the open edge of the tolerance (oracle abstains within 1e-9 of the edge; "
           "the dyadic exact-edge stream tests the edge itself without rounding)",
           "collections.OrderedDict / dict-comprehension semantics (modelled by setStation / stationIndex) and "
           "numpy indexing of the cached per-station containers",
           "json / pickle / copy of the standard library (the model's Saved.load takes the `_EVSEs` entries in the "
           "order the writer emitted them and the containers verbatim; that the file really carries them so is tied "
           "by the correspondence on every save / resume step)"]
ASSUMPTIONS = ["theorems are over an arbitrary linear ordered field; the implementation computes in doubles",
               "the advertised-info theorems take the network as the result of register_evse calls and save / resume "
               "steps; constraint edits (add / remove / update) do not enter the model and are tied by the "
               "correspondence only (the description must be unchanged by them, also when a save / resume step sits "
               "between them)",
               "in the model a save / resume step sends the network's containers through Saved (entries of `_EVSEs` "
               "re-inserted into a fresh dict, cached arrays verbatim); the EVSE / EV / battery objects themselves come "
               "back unchanged (their codecs are C09's); the correspondence and the oracle check per station ID that "
               "pilot, occupant and battery state are the saved ones",
               "advertised_accepted_net / advertised_accepted_restored assume well-formed EVSE parameters (min <= max, "
               "deadband end <= max)",
               "site-factory cases: the list of stations a factory registers (id, EVSE parameters) is read off a "
               "freshly built factory network that never went through a save; that the factories build the documented "
               "sites is C16's"]
RULE = ("per case a ChargingNetwork of 1-7 EVSEs (continuous / deadband / finite, parameters incl. unsorted, duplicated, "
        "zero-free rate lists and infinite max; always a non-empty allowable interval; ~14% of the kinds are DEGENERATE but legal: max_rate = 0 as "
        "int / 0.0 / numpy.float64 / numpy.int64 (a switched-off station, continuous or deadband with end 0), min_rate == max_rate, deadband "
        "end == max_rate, finite lists [] / [0] / [0, 0.0]; ~45% of the finite kinds hand their rates over as another ITERABLE than a "
        "list: generator expression / map / iter(list) (one-shot), tuple, set, numpy array, dict keys, range (ascending and descending)) registered in an order that is not the sorted order of their ids; ~75% of "
        "the cases hold several stations and most of those hold SIBLINGS: same class with equal min_rate/max_rate and a "
        "different allowable set (other deadband end, other intermediate finite steps), identical twins, another class with "
        "the same advertised pair, same set written differently; ~10% register an id twice (the later EVSE replaces the "
        "earlier one); ~6% of the EVSEs go through EVSE.from_json(to_json()) before they are registered; 0-3 constraint "
        "edits (add / remove / update) follow the registrations. Every 30th case is a network of one of the package's "
        "site factories (caltech_acn with both EVSE types, other voltage / capacity, basic EVSEs; jpl_acn; office001_acn; "
        "simple_acn with ids in non-sorted order), whose registration order is not the sorted order of the ids. "
        "SAVE / RESUME steps (~60% of the cases hold at least one, 1-2 per place) occur between the registrations (also before the "
        "first, i.e. of the empty network), between / after the constraint edits (= before the first use), between the "
        "operations (with EVs connected and pilots applied) and after the last, by seven routes: "
        "ChargingNetwork.from_json(to_json()) as string / text buffer / file on disk, Simulator.from_json(to_json()) as "
        "string / text buffer followed by update_scheduler (the Interface is then the one handed to the new algorithm), "
        "copy.deepcopy, pickle; the history continues on the object that comes back. The network cache, the three "
        "Interface accessors (for every registered id and unknown ids; through a new Interface and through one that exists "
        "since before the first registration / since the last resume) and infrastructure_info() are read after EVERY "
        "registration and EVERY save / resume step, after the constraint edits and after the operations, the handed-out InfrastructureInfo copy is "
        "scribbled over, and every value advertised for a station is sent to that station (before the first use, after "
        "every resume between the uses, at the end). Everything is judged per station ID against the case's own "
        "parameters for that ID (documented description, a freshly constructed EVSE), never against the resumed object; "
        "after a resume every station, looked up by ID, must hold the pilot / occupant / battery state it was saved with. "
        "Then a sequence of 1-8 "
        "operations (validity query, set_pilot with/without connected EV, plugin, plugin-when-occupied, unplug), each "
        "addressed to one of the stations, with pilots at every boundary of the target's or a sibling's allowable set ± "
        "{0,1e-4,5e-4,9.99e-4,1e-3,1.001e-3,2e-3}, NaN, negatives, and an exact dyadic-edge stream (site cases: also the "
        "lowest non-zero step of each EVSE type of the site sent to stations of every type); "
        "non-trivial = at least one pilot within 2.5e-3 of a boundary of the allowable set, a rejection with an EV "
        "connected, two stations of one class with equal min/max and different allowable sets, or a save / resume of a "
        "network whose registration order is not the sorted id order with different descriptions at the permuted "
        "positions; distinct by hash of the case")

ATOL = 1e-3
OFFS = [0.0, 1e-4, -1e-4, 5e-4, -5e-4, 9.99e-4, -9.99e-4, 1e-3, -1e-3, 1.001e-3, -1.001e-3, 2e-3, -2e-3, 0.5, -0.5, 3.0, -3.0]
# station ids whose sorted order, registration order and case differ ("s" vs the primary "S")
IDS = ["CA-148", "10", "9", "Z", "s", "S2", "a b", "Å-1", "0x1F", "B"]
VOLTS = [208, 240, 120, 277.5]
PHASES = [0, 120, -120, 30]
# save / resume routes: the network alone (string, text buffer, file on disk), inside a whole Simulator (the
# Interface is then the one `update_scheduler` hands to a new algorithm), and the two in-memory copies
VIAS = ["str", "buf", "file", "sim", "sim_buf", "deepcopy", "pickle"]
VIA_W = [5, 3, 2, 5, 2, 1, 1]
# the package's site factories (ids registered in an order that is not their sorted order; caltech_acn mixes two
# EVSE types), with the arguments they are called with
SITES = [("caltech_acn", {}), ("caltech_acn", {}), ("caltech_acn", {"voltage": 240, "transformer_cap": 80}),
         ("caltech_acn", {"basic_evse": True}), ("jpl_acn", {}), ("office001_acn", {}),
         ("simple_acn", {"station_ids": ["PS-9", "PS-10", "ps-1", "PS-1"], "evse_type": "ClipperCreek"}),
         ("simple_acn", {"station_ids": ["b", "a", "C"], "evse_type": "AeroVironment", "voltage": 240})]


# ------------------------------------------------------------------ generation

# the type of the `allowable_rates` ARGUMENT of FiniteRatesEVSE (documented: an iterable); "gen" / "map" / "iter" can be
# walked only once
AS_FORMS = ["gen", "map", "iter", "tuple", "set", "ndarray", "dictkeys", "gen", "iter"]
RANGES = [[6 + i for i in range(27)], [0, 8, 16, 24, 32], [8, 16, 24, 32], [32, 24, 16, 8], [16, 12, 8], [6, 7, 8], [0], []]
NUMS = [None, None, "float", "np", "npint"]


def _with_form(rng, kind, p=0.45):
    """a finite kind whose rates are handed over as something else than a list (same allowable set)"""
    if kind["t"] == "finite" and "as" not in kind and rng.random() < p:
        kind = dict(kind, **{"as": rng.choice(AS_FORMS)})
    return kind


def _gen_degenerate(rng):
    """legal parameters at the rim: a switched-off station (max_rate = 0, whatever the numeric type of the zero; finite list
    empty / of zeros only), min_rate == max_rate, deadband end == max_rate"""
    r = rng.random()
    if r < 0.3:
        k = {"t": "cont", "min": 0, "max": 0}
    elif r < 0.42:
        c = rng.choice([8, 6, 0.5, 32])
        k = {"t": "cont", "min": c, "max": c}
    elif r < 0.6:
        k = {"t": "deadband", "db": 0, "max": 0}
    elif r < 0.7:
        c = rng.choice([6, 8, 5.5])
        k = {"t": "deadband", "db": c, "max": c}
    else:
        k = {"t": "finite", "rates": rng.choice([[], [0], [0, 0.0], [0.0], [0, 0, 0]])}
        if rng.random() < 0.6:
            k["as"] = rng.choice(AS_FORMS + ["range"] if k["rates"] in ([], [0]) else AS_FORMS)
        return k
    how = rng.choice(NUMS)
    if how:
        k["num"] = how
    return k


def _gen_kind(rng):
    if rng.random() < 0.14:
        return _gen_degenerate(rng)
    return _with_form(rng, _gen_kind0(rng))


def _gen_kind0(rng):
    r = rng.random()
    if r < 0.05:
        return {"t": "finite", "rates": list(rng.choice(RANGES)), "as": "range"}
    if r < 0.3:
        return {"t": "cont", "min": rng.choice([0, 0, 0, 6, 8, 0.5]), "max": rng.choice([16, 32, 80, "inf", 32.5])}
    if r < 0.55:
        return {"t": "deadband", "db": rng.choice([6, 6, 5.5, 8]), "max": rng.choice([32, 16, "inf", 48])}
    c = rng.random()
    if c < 0.2:
        rates = [0, 8, 16, 24, 32]
    elif c < 0.4:
        rates = [0] + list(range(6, 33))
    else:
        n = rng.randint(1, 7)
        rates = [rng.choice([0, 6, 8, 10, 12.5, 16, 20, 24, 30, 32, 40, 0.002, 8.0015]) for _ in range(n)]
        rng.shuffle(rates)
    return {"t": "finite", "rates": rates}


def _levels(kind):
    """sorted(set(rates) | {0}) of a finite kind (what the constructor is documented to keep)."""
    return sorted(set(float(I.num(r)) for r in kind["rates"]) | {0.0})


def _sibling(rng, kind):
    """A station that shares class and / or advertised min / max with `kind` without (necessarily)
    sharing its allowable set — the configurations in which a description can be mixed up."""
    t = kind["t"]
    r = rng.random()
    if t == "cont":
        if r < 0.2:
            return dict(kind)
        if r < 0.45:
            return {"t": "cont", "min": rng.choice([m for m in [0, 0.5, 6, 8] if m != kind["min"]]), "max": kind["max"]}
        if r < 0.65:
            return {"t": "cont", "min": kind["min"], "max": rng.choice([16, 32, 80, "inf", 32.5])}
        if r < 0.85:
            # equal min_rate (0) and max_rate, other class, other set
            return {"t": "deadband", "db": rng.choice([5.5, 6, 8]), "max": kind["max"]}
        # equal advertised pair, other class (0 is accepted by this one only)
        return {"t": "deadband", "db": kind["min"] if I.num(kind["min"]) > 0 else 6, "max": kind["max"]}
    if t == "deadband":
        if r < 0.15:
            return dict(kind)
        if r < 0.6:
            # equal class, min_rate (0) and max_rate; only the deadband differs
            return {"t": "deadband", "db": rng.choice([d for d in [5.5, 6, 8, 10, 12] if d != kind["db"]]), "max": kind["max"]}
        if r < 0.72:
            return {"t": "cont", "min": 0, "max": kind["max"]}
        if r < 0.86:
            return {"t": "cont", "min": kind["db"], "max": kind["max"]}
        return {"t": "deadband", "db": kind["db"], "max": rng.choice([m for m in [16, 32, 48, "inf"] if m != kind["max"]])}
    lv = _levels(kind)
    pos = [v for v in lv if v > 0]
    if not pos:
        return _gen_kind(rng)
    lo, hi = pos[0], pos[-1]
    if r < 0.12:
        return {"t": "finite", "rates": list(kind["rates"])}
    if r < 0.27:
        # the same set, written differently (order, duplicates, with / without 0)
        rates = list(pos) + [rng.choice(pos)] + ([0] if rng.random() < 0.5 else [])
        rng.shuffle(rates)
        return {"t": "finite", "rates": rates}
    if r < 0.7:
        # equal class, smallest non-zero and largest level; other steps between
        pool = [x for x in [6.5, 7, 8, 10, 12.5, 16, 20, 24, 30, 31.999, 8.0015] if lo < x < hi]
        for _ in range(4):
            mids = rng.sample(pool, rng.randint(0, min(3, len(pool)))) if pool else []
            rates = [lo, hi] + mids + ([0] if rng.random() < 0.5 else [])
            if sorted(set(rates) | {0.0}) != lv:
                break
        rng.shuffle(rates)
        return {"t": "finite", "rates": rates}
    if r < 0.82:
        return {"t": "cont", "min": lo, "max": hi}
    if r < 0.91 and len(pos) > 1:
        drop = rng.choice(pos)
        return {"t": "finite", "rates": [v for v in pos if v != drop]}
    return {"t": "finite", "rates": pos + [rng.choice([6, 10, 20, 40, 48])]}


def _well_formed(kind):
    """non-empty allowable interval (the parameter range the classes are meant for)"""
    if kind["t"] == "cont":
        return I.num(kind["min"]) <= I.num(kind["max"])
    if kind["t"] == "deadband":
        return I.num(kind["db"]) <= I.num(kind["max"])
    return True


def _gen_sibling(rng, kind):
    for _ in range(6):
        k = _sibling(rng, kind)
        if _well_formed(k):
            if k.get("as") == "range" and k["rates"] not in RANGES:
                k = {"t": "finite", "rates": k["rates"]}
            return _with_form(rng, k, 0.35)
    return _gen_kind(rng)


def _boundaries(kind):
    t = kind["t"]
    if t == "cont":
        b = [I.num(kind["min"]), I.num(kind["max"])]
    elif t == "deadband":
        b = [0.0, I.num(kind["db"]), I.num(kind["max"])]
    else:
        b = [0.0] + [I.num(r) for r in kind["rates"]]
    return [x for x in b if not math.isinf(x)]


def _gen_pilot(rng, kind):
    r = rng.random()
    if kind.get("max") == "inf" and r < 0.12:
        return "inf"  # the advertised maximum of an unbounded EVSE (what UncontrolledCharging sends)
    if r < 0.75:
        return rng.choice(_boundaries(kind)) + rng.choice(OFFS)
    if r < 0.9:
        return rng.uniform(-2, 45)
    if r < 0.93:
        return "nan"
    if r < 0.96:
        return -rng.uniform(0, 10)
    return rng.choice([0, 6, 8, 16, 32, 1e6])


def _gen_ev(rng, k, station="S"):
    two = rng.random() < 0.4
    cap = rng.choice([10, 40, 60.5, 100])
    batt = {"two": two, "cap": cap, "init": round(rng.uniform(0, cap), 3), "maxp": rng.choice([3.3, 6.6, 7, 50])}
    if two:
        batt.update({"noise": rng.choice([0, 0, 0.5]), "ts": rng.choice([0.8, 0.5, 0.9]),
                     "calc": rng.choice(["continuous", "stepwise"])})
    ev = {"session": f"s{k}", "station": station, "arrival": 0, "departure": 10, "requested": round(rng.uniform(1, 30), 3), "batt": batt}
    if rng.random() < 0.5:
        # sessions that overlap or abut in every way (plug-in into an occupied station is refused WHATEVER the time stamps say):
        # arrivals before / at / after the previous session's (estimated) departure, estimates earlier and later than the departure
        a = rng.choice([0, 0, 1, 3, 5, 9, 10, 12])
        d = a + rng.choice([1, 2, 5, 10])
        ev["arrival"], ev["departure"] = a, d
        ev["est"] = rng.choice([None, d, a + 1, max(a + 1, d - 2), d + 3])
    return ev


def _gen_net(rng, kind):
    """The `register_evse` calls (the primary station "S" among them, its kind is `case["kind"]`),
    constraint edits, and the ids asked through the Interface."""
    n_other = rng.choice([1, 1, 2, 2, 3, 4, 5])
    ids = rng.sample(IDS, n_other)
    kinds = [kind]
    regs = []
    for sid in ids:
        k = _gen_sibling(rng, rng.choice(kinds)) if rng.random() < 0.75 else _gen_kind(rng)
        kinds.append(k)
        regs.append({"id": sid, "kind": k, "V": rng.choice(VOLTS), "ph": rng.choice(PHASES)})
    regs.insert(rng.randint(0, len(regs)), {"id": "S", "V": rng.choice(VOLTS), "ph": rng.choice(PHASES)})
    for r in regs:
        if rng.random() < 0.06:
            r["json"] = True  # the EVSE itself is saved and resumed before it is registered
    if rng.random() < 0.1:
        # an id registered twice: the earlier EVSE (explicit kind) is replaced by the later one
        j = rng.randrange(len(regs))
        later = regs[j]
        regs.insert(rng.randint(0, j), {"id": later["id"], "kind": _gen_sibling(rng, later.get("kind", kind)),
                                        "V": rng.choice(VOLTS), "ph": rng.choice(PHASES)})
    final = list(dict.fromkeys(r["id"] for r in regs))
    cons, names = [], []
    for i in range(rng.choice([0, 0, 1, 1, 2, 3])):
        c = rng.random()
        if not names or c < 0.6:
            cons.append({"op": "add", "ids": rng.sample(final, rng.randint(1, len(final))),
                         "limit": rng.choice([32, 100, 1000]), "name": f"c{i}"})
            names.append(f"c{i}")
        elif c < 0.8:
            cons.append({"op": "remove", "name": names.pop(rng.randrange(len(names)))})
        else:
            cons.append({"op": "update", "name": rng.choice(names), "ids": rng.sample(final, rng.randint(1, len(final))),
                         "limit": rng.choice([16, 64])})
    queries = list(final)
    rng.shuffle(queries)
    if rng.random() < 0.35:
        queries.insert(rng.randint(0, len(queries)), rng.choice([q for q in ["nope", "s", "S ", "", "CA-149"] if q not in final]))
    return {"regs": regs, "cons": cons, "queries": queries}


def _hist(case):
    """the history of the network before its first use, in order: `register_evse` calls (the primary's kind
    filled in) and save / resume steps `{"restore": via}`"""
    net = case.get("net")
    if not net:
        return [{"id": _primary(case), "kind": case["kind"], "V": 208, "ph": 0}]
    out = []
    for r in net["regs"]:
        if "restore" in r:
            out.append({"restore": r["restore"]})
        else:
            e = {"id": r["id"], "kind": r.get("kind", case["kind"]), "V": r.get("V", 208), "ph": r.get("ph", 0)}
            if r.get("json"):
                e["json"] = True
            out.append(e)
    return out


def _regs(case):
    """the registration calls with the primary's kind filled in"""
    return [r for r in _hist(case) if "restore" not in r]


def _primary(case):
    """the station an operation without "at" is addressed to"""
    return case.get("primary", "S")


def _final_kinds(regs):
    """id -> kind of the EVSE that answers under the id (dict semantics: first position, last value)"""
    out = {}
    for r in regs:
        out[r["id"]] = r["kind"]
    return out


def _gen_ops(rng, kinds, primary, exact=False, lo=1, hi=8):
    """operations addressed to the stations of a network; `kinds`: id -> kind of the EVSE answering under it"""
    others = [s for s in kinds if s != primary]
    ops = []
    n = rng.randint(lo, hi)
    k = 0
    for _ in range(n):
        r = rng.random()
        at = rng.choice(others) if others and rng.random() < 0.45 else primary
        tk = kinds[at]
        # pilots sit at the boundaries of the target's own set or of another station's set
        pk = tk if (not others or rng.random() < 0.65) else kinds[rng.choice(list(kinds))]
        if exact:
            # dyadic tolerance, dyadic boundaries: float arithmetic is exact at the edge
            b = rng.choice([x for x in _boundaries(pk) if float(x) == round(float(x) * 8) / 8] or [0.0])
            atol = 2.0 ** -10
            p = b + rng.choice([0, atol, -atol, 2 * atol, -2 * atol, atol / 2, -atol / 2])
            op = {"op": "valid", "p": p, "atol": atol}
        elif r < 0.35:
            op = {"op": "valid", "p": _gen_pilot(rng, pk), "atol": ATOL}
        elif r < 0.75:
            op = {"op": "set_pilot", "p": _gen_pilot(rng, pk), "V": rng.choice([208, 240, 120, 277.5]),
                  "T": rng.choice([1, 5, 15, 0.5]), "nu": round(rng.gauss(0, 0.5), 4)}
        elif r < 0.9:
            prev = [o for o in ops if o["op"] == "plugin" and o.get("at", primary) == at]
            if prev and rng.random() < 0.4:
                # re-plug the occupant itself, or a rebuilt EV carrying the same session id
                op = {"op": "plugin", "ev": prev[-1]["ev"], "same": rng.choice(["object", "copy"])}
            else:
                op = {"op": "plugin", "ev": _gen_ev(rng, k, at)}
                k += 1
            if rng.random() < 0.5:
                op["via"] = "net"          # through ChargingNetwork.plugin(ev) (what the Simulator calls), not EVSE.plugin
        else:
            op = {"op": "unplug"}
        if at != primary:
            op["at"] = at
        ops.append(op)
    return ops


def _via(rng):
    return rng.choices(VIAS, VIA_W)[0]


def _add_restores(rng, case, p_regs=0.3, p_cons=0.3, p_ops=0.35):
    """save / resume steps anywhere in the history: between the registrations (also before the first one),
    between / after the constraint edits (= before the first use), between the operations, after the last"""
    net = case.get("net")
    if net is not None and "site" not in net and rng.random() < p_regs:
        for _ in range(rng.choice([1, 1, 2])):
            net["regs"].insert(rng.randint(0, len(net["regs"])), {"restore": _via(rng)})
    if net is not None and rng.random() < p_cons:
        for _ in range(rng.choice([1, 1, 2])):
            net["cons"].insert(rng.randint(0, len(net["cons"])), {"op": "restore", "via": _via(rng)})
    if rng.random() < p_ops:
        for _ in range(rng.choice([1, 1, 2])):
            case["ops"].insert(rng.randint(0, len(case["ops"])), {"op": "restore", "via": _via(rng)})
    return case


def _gen_case(rng, exact=False, single=False):
    kind = _gen_kind(rng)
    case = {"kind": kind}
    if not single and rng.random() < 0.75:
        case["net"] = _gen_net(rng, kind)
    kinds = _final_kinds(_regs(case))
    case["ops"] = _gen_ops(rng, kinds, "S", exact)
    return _add_restores(rng, case)


# ---- the package's site factories

_SITE_CACHE = {}


def _build_site(site):
    from acnportal.acnsim.network import sites
    return getattr(sites, site["factory"])(**site.get("kwargs", {}))


def _kind_of(evse):
    """the constructor parameters of a registered EVSE, as a case `kind`"""
    from acnportal.acnsim.models.evse import EVSE, DeadbandEVSE, FiniteRatesEVSE
    if isinstance(evse, FiniteRatesEVSE):
        return {"t": "finite", "rates": [I.enc(float(x)) for x in evse.allowable_rates]}
    if isinstance(evse, DeadbandEVSE):
        return {"t": "deadband", "db": I.enc(float(evse._deadband_end)), "max": I.enc(float(evse._max_rate))}
    if isinstance(evse, EVSE):
        return {"t": "cont", "min": I.enc(float(evse._min_rate)), "max": I.enc(float(evse._max_rate))}
    raise ValueError(type(evse).__name__)


def _site_regs(site):
    """what the factory registers — id, EVSE parameters, voltage, phase per station, in registration order — read
    off a freshly built factory network that never went through a save (the ground truth of the site cases)"""
    key = json.dumps(site, sort_keys=True)
    if key not in _SITE_CACHE:
        net = _build_site(site)
        _SITE_CACHE[key] = [{"id": sid, "kind": _kind_of(e), "V": float(net._voltages[i]), "ph": float(net._phase_angles[i])}
                            for i, (sid, e) in enumerate(net._EVSEs.items())]
    return copy.deepcopy(_SITE_CACHE[key])


def _site_case(rng, factory, kwargs, exact=False):
    site = {"factory": factory, "kwargs": kwargs}
    regs = _site_regs(site)
    kinds = _final_kinds(regs)
    ids = list(kinds)
    # the operations go to a handful of stations, of every EVSE type of the site
    by_kind = {}
    for sid in rng.sample(ids, len(ids)):
        by_kind.setdefault(json.dumps(kinds[sid], sort_keys=True), []).append(sid)
    picked = [v[0] for v in by_kind.values()]
    picked += rng.sample([s for s in ids if s not in picked], min(3, len(ids) - len(picked)))
    primary = picked[0]
    queries = list(picked)
    rng.shuffle(queries)
    if rng.random() < 0.35:
        queries.insert(rng.randint(0, len(queries)), rng.choice(["nope", "CA-000", ""]))
    case = {"kind": kinds[primary], "primary": primary,
            "net": {"site": site, "regs": regs, "cons": [], "queries": queries}}
    case["ops"] = _gen_ops(rng, {s: kinds[s] for s in picked}, primary, exact, lo=2, hi=6)
    if rng.random() < 0.5:
        # the lowest non-zero value another EVSE type of the site advertises (6 A of the AeroVironment list at a
        # ClipperCreek station …): accepted exactly where it is advertised
        lows = sorted({([v for v in _spec_info(k)["allowable"] if v > 0] or [0.0])[0] for k in kinds.values()})
        op = {"op": "set_pilot", "p": rng.choice(lows), "V": 208, "T": 5, "nu": 0.0}
        at = rng.choice(picked)
        if at != primary:
            op["at"] = at
        case["ops"].append(op)
    return _add_restores(rng, case, p_cons=0.6, p_ops=0.6)


def _site_corpus():
    """the stock Caltech ACN (AeroVironment and ClipperCreek stations, ids not registered in sorted order), saved
    and resumed before its first use: every station type is sent the lowest step of the other one"""
    site = {"factory": "caltech_acn", "kwargs": {}}
    try:
        regs = _site_regs(site)
    except Exception:  # noqa  (a tree whose factory does not build: the generated site cases report it)
        return []
    out = []
    for via, where in (("sim", "cons"), ("str", "ops")):
        ops = [{"op": "set_pilot", "p": 6, "V": 208, "T": 5, "nu": 0, "at": "CA-493"},
               {"op": "set_pilot", "p": 8, "V": 208, "T": 5, "nu": 0, "at": "CA-493"},
               {"op": "set_pilot", "p": 6, "V": 208, "T": 5, "nu": 0, "at": "CA-324"},
               {"op": "set_pilot", "p": 7, "V": 208, "T": 5, "nu": 0}]
        case = {"kind": _final_kinds(regs)["CA-308"], "primary": "CA-308",
                "net": {"site": site, "regs": copy.deepcopy(regs),
                        "cons": [{"op": "restore", "via": via}] if where == "cons" else [],
                        "queries": ["CA-493", "CA-308", "CA-148", "CA-324", "nope"]},
                "ops": ops if where == "cons" else ops[:2] + [{"op": "restore", "via": via}] + ops[2:]}
        out.append(case)
    return out


def corpus():
    return [
        {"kind": {"t": "finite", "rates": [32, 8, 8, 16]}, "ops": [{"op": "valid", "p": 0, "atol": ATOL}, {"op": "valid", "p": 8.0009, "atol": ATOL}, {"op": "valid", "p": 8.0011, "atol": ATOL}]},
        {"kind": {"t": "deadband", "db": 6, "max": 32}, "ops": [{"op": "set_pilot", "p": 3, "V": 208, "T": 5, "nu": 0}, {"op": "set_pilot", "p": 0.0005, "V": 208, "T": 5, "nu": 0}, {"op": "set_pilot", "p": 5.9995, "V": 208, "T": 5, "nu": 0}]},
        {"kind": {"t": "cont", "min": 0, "max": 32}, "ops": [
            {"op": "plugin", "ev": {"session": "a", "station": "S", "arrival": 0, "departure": 5, "requested": 10, "batt": {"two": False, "cap": 40, "init": 5, "maxp": 7}}},
            {"op": "set_pilot", "p": 16, "V": 208, "T": 5, "nu": 0},
            {"op": "set_pilot", "p": 32.002, "V": 208, "T": 5, "nu": 0},
            {"op": "plugin", "ev": {"session": "b", "station": "S", "arrival": 0, "departure": 5, "requested": 10, "batt": {"two": False, "cap": 40, "init": 5, "maxp": 7}}},
            {"op": "set_pilot", "p": 32.0009, "V": 208, "T": 5, "nu": 0},
            {"op": "unplug"}]},
        {"kind": {"t": "cont", "min": 0, "max": "inf"}, "ops": [{"op": "valid", "p": 1e6, "atol": ATOL}, {"op": "valid", "p": -0.0011, "atol": ATOL}]},
        # a small car park: same-class stations with equal min / max and different allowable sets, registered in
        # an order that is not the sorted order of the ids; each is probed inside the OTHER one's set
        {"kind": {"t": "deadband", "db": 8, "max": 32},
         "net": {"regs": [{"id": "Z", "kind": {"t": "deadband", "db": 6, "max": 32}, "V": 240, "ph": 0},
                          {"id": "S", "V": 240, "ph": 0},
                          {"id": "B", "kind": {"t": "finite", "rates": [0, 8, 16, 32]}, "V": 208, "ph": 120},
                          {"id": "10", "kind": {"t": "finite", "rates": [32, 24, 8, 8]}, "V": 208, "ph": -120},
                          {"id": "9", "kind": {"t": "cont", "min": 0, "max": 32}, "V": 240, "ph": 0}],
                 "cons": [{"op": "add", "ids": ["S", "10"], "limit": 40, "name": "c0"}],
                 "queries": ["10", "S", "nope", "B", "Z", "9"]},
         "ops": [{"op": "set_pilot", "p": 7, "V": 240, "T": 5, "nu": 0},
                 {"op": "set_pilot", "p": 7, "V": 240, "T": 5, "nu": 0, "at": "Z"},
                 {"op": "set_pilot", "p": 16, "V": 208, "T": 5, "nu": 0, "at": "10"},
                 {"op": "set_pilot", "p": 24, "V": 208, "T": 5, "nu": 0, "at": "10"},
                 {"op": "set_pilot", "p": 24, "V": 208, "T": 5, "nu": 0, "at": "B"},
                 {"op": "valid", "p": 7.9991, "atol": ATOL}]},
        # an id registered twice: the later EVSE answers, at the first position
        {"kind": {"t": "finite", "rates": [8, 16]},
         "net": {"regs": [{"id": "S", "kind": {"t": "cont", "min": 0, "max": 16}, "V": 208, "ph": 0},
                          {"id": "B", "kind": {"t": "finite", "rates": [8, 12.5, 16]}, "V": 208, "ph": 0},
                          {"id": "S", "V": 240, "ph": 0}],
                 "cons": [], "queries": ["S", "B"]},
         "ops": [{"op": "set_pilot", "p": 12.5, "V": 208, "T": 5, "nu": 0},
                 {"op": "set_pilot", "p": 12.5, "V": 208, "T": 5, "nu": 0, "at": "B"}]},
        # a simulation that is saved and resumed: three different EVSEs registered in an order that is not the
        # sorted order of their ids; whole-simulator save before the first use, network-only saves (string, text
        # buffer) between the uses with an EV connected and a pilot applied; every station is probed with the
        # values the OTHER ones advertise
        {"kind": {"t": "finite", "rates": [16, 8, 8]}, "primary": "PS-03",
         "net": {"regs": [{"id": "PS-03", "V": 208, "ph": 0},
                          {"id": "PS-01", "kind": {"t": "cont", "min": 6, "max": 40}, "V": 208, "ph": 0},
                          {"id": "PS-02", "kind": {"t": "deadband", "db": 6, "max": 32}, "V": 208, "ph": 0}],
                 "cons": [{"op": "add", "ids": ["PS-02", "PS-03"], "limit": 40, "name": "c0"},
                          {"op": "restore", "via": "sim"}],
                 "queries": ["PS-02", "PS-03", "nope", "PS-01"]},
         "ops": [{"op": "set_pilot", "p": 40, "V": 208, "T": 5, "nu": 0},
                 {"op": "set_pilot", "p": 16, "V": 208, "T": 5, "nu": 0},
                 {"op": "plugin", "ev": {"session": "a", "station": "PS-01", "arrival": 0, "departure": 5, "requested": 10, "batt": {"two": False, "cap": 40, "init": 5, "maxp": 7}}, "at": "PS-01"},
                 {"op": "set_pilot", "p": 40, "V": 208, "T": 5, "nu": 0, "at": "PS-01"},
                 {"op": "restore", "via": "str"},
                 {"op": "set_pilot", "p": 3, "V": 208, "T": 5, "nu": 0, "at": "PS-01"},
                 {"op": "set_pilot", "p": 8, "V": 208, "T": 5, "nu": 0, "at": "PS-01"},
                 {"op": "restore", "via": "buf"},
                 {"op": "set_pilot", "p": 3, "V": 208, "T": 5, "nu": 0, "at": "PS-02"},
                 {"op": "unplug", "at": "PS-01"}]},
        # save / resume in the middle of the registrations (also of the still empty network), through a file
        {"kind": {"t": "deadband", "db": 8, "max": 32},
         "net": {"regs": [{"restore": "str"},
                          {"id": "Z", "kind": {"t": "finite", "rates": [0, 8, 16]}, "V": 240, "ph": 0},
                          {"id": "S", "V": 240, "ph": 120},
                          {"restore": "file"},
                          {"id": "B", "kind": {"t": "cont", "min": 0, "max": "inf"}, "V": 208, "ph": -120},
                          {"restore": "sim_buf"}],
                 "cons": [], "queries": ["B", "S", "Z"]},
         "ops": [{"op": "set_pilot", "p": "inf", "V": 208, "T": 5, "nu": 0, "at": "B"},
                 {"op": "set_pilot", "p": 16, "V": 240, "T": 5, "nu": 0, "at": "Z"},
                 {"op": "valid", "p": 7.9991, "atol": ATOL}]},
        # switched-off stations (max_rate = 0 as int / float / numpy zero; deadband end 0; finite lists of zeros) next to
        # a working one: the advertised maximum is 0 everywhere and nothing farther than 1e-3 from 0 is taken
        {"kind": {"t": "cont", "min": 0, "max": 0},
         "net": {"regs": [{"id": "Z", "kind": {"t": "deadband", "db": 0, "max": 0, "num": "float"}, "V": 240, "ph": 0},
                          {"id": "S", "V": 208, "ph": 0},
                          {"id": "B", "kind": {"t": "finite", "rates": [0, 0.0]}, "V": 208, "ph": 120},
                          {"id": "10", "kind": {"t": "cont", "min": 0, "max": 0, "num": "np"}, "V": 208, "ph": -120},
                          {"id": "a b", "kind": {"t": "finite", "rates": [], "as": "gen"}, "V": 208, "ph": -120},
                          {"id": "9", "kind": {"t": "cont", "min": 0, "max": 32}, "V": 240, "ph": 0}],
                 "cons": [{"op": "restore", "via": "str"}], "queries": ["10", "S", "B", "Z", "9", "a b"]},
         "ops": [{"op": "set_pilot", "p": 16, "V": 208, "T": 5, "nu": 0},
                 {"op": "set_pilot", "p": 0.0009, "V": 208, "T": 5, "nu": 0},
                 {"op": "set_pilot", "p": 0.002, "V": 208, "T": 5, "nu": 0},
                 {"op": "set_pilot", "p": 6, "V": 208, "T": 5, "nu": 0, "at": "Z"},
                 {"op": "set_pilot", "p": "inf", "V": 208, "T": 5, "nu": 0, "at": "10"},
                 {"op": "set_pilot", "p": 8, "V": 208, "T": 5, "nu": 0, "at": "B"},
                 {"op": "set_pilot", "p": 8, "V": 208, "T": 5, "nu": 0, "at": "a b"},
                 {"op": "restore", "via": "sim"},
                 {"op": "set_pilot", "p": 32, "V": 208, "T": 5, "nu": 0, "at": "10"},
                 {"op": "valid", "p": 0.0009765625, "atol": 0.0009765625},
                 {"op": "valid", "p": 0.001953125, "atol": 0.0009765625}]},
        # min_rate == max_rate, deadband end == max_rate
        {"kind": {"t": "cont", "min": 8, "max": 8},
         "net": {"regs": [{"id": "S", "V": 208, "ph": 0},
                          {"id": "B", "kind": {"t": "deadband", "db": 6, "max": 6}, "V": 208, "ph": 0}],
                 "cons": [], "queries": ["B", "S"]},
         "ops": [{"op": "set_pilot", "p": 8.0009, "V": 208, "T": 5, "nu": 0},
                 {"op": "set_pilot", "p": 7.998, "V": 208, "T": 5, "nu": 0},
                 {"op": "set_pilot", "p": 0, "V": 208, "T": 5, "nu": 0},
                 {"op": "set_pilot", "p": 0, "V": 208, "T": 5, "nu": 0, "at": "B"},
                 {"op": "set_pilot", "p": 6.002, "V": 208, "T": 5, "nu": 0, "at": "B"},
                 {"op": "set_pilot", "p": 5.9991, "V": 208, "T": 5, "nu": 0, "at": "B"}]},
        # the same rate list handed over as every kind of iterable (one-shot ones among them), unsorted with duplicates
        {"kind": {"t": "finite", "rates": [32, 8, 8, 16, 0], "as": "gen"},
         "net": {"regs": [{"id": "S", "V": 208, "ph": 0}]
                         + [{"id": sid, "kind": {"t": "finite", "rates": [32, 8, 8, 16, 0], "as": form}, "V": 208, "ph": 0}
                            for sid, form in zip(IDS, ["map", "iter", "tuple", "set", "ndarray", "dictkeys", "list"])]
                         + [{"id": "B", "kind": {"t": "finite", "rates": [32, 24, 16, 8], "as": "range"}, "V": 208, "ph": 0}],
                 "cons": [], "queries": ["S", "B"] + IDS[:7]},
         "ops": [{"op": "set_pilot", "p": 16, "V": 208, "T": 5, "nu": 0},
                 {"op": "set_pilot", "p": 8, "V": 208, "T": 5, "nu": 0, "at": IDS[0]},
                 {"op": "set_pilot", "p": 32, "V": 208, "T": 5, "nu": 0, "at": IDS[1]},
                 {"op": "restore", "via": "str"},
                 {"op": "set_pilot", "p": 24, "V": 208, "T": 5, "nu": 0, "at": "B"},
                 {"op": "set_pilot", "p": 24, "V": 208, "T": 5, "nu": 0, "at": IDS[4]}]},
    ] + _site_corpus()


def generate(rng, n, tier):
    out = []
    for i in range(n):
        if i % 30 == 11:
            # a network of one of the package's site factories (registered in the factory's order, which is not
            # the sorted order of the ids), saved and resumed before / between its uses
            factory, kwargs = rng.choice(SITES)
            out.append(_site_case(rng, factory, kwargs, exact=(i % 4 == 3)))
        else:
            out.append(_gen_case(rng, exact=(i % 6 == 5)))
    return out


# ------------------------------------------------------------------ implementation

def _obs_state(evse):
    return {"pilot": I.enc(float(evse.current_pilot)), "ev": I.ev_state(evse.ev)}


def _own_info(evse):
    return {"max": float(evse.max_rate), "min": float(evse.min_rate), "cont": bool(evse.is_continuous),
            "allowable": [float(x) for x in evse.allowable_pilot_signals]}


def _net_arrays(net):
    return {"ids": list(net.station_ids),
            "max": [float(x) for x in net.max_pilot_signals], "min": [float(x) for x in net.min_pilot_signals],
            "allow": [[float(a) for a in arr] for arr in net.allowable_rates],
            "cont": [bool(b) for b in net.is_continuous]}


def _new_interface(net):
    from acnportal.acnsim import Simulator, EventQueue, Interface
    from acnportal.algorithms import BaseAlgorithm
    return Interface(Simulator(net, BaseAlgorithm(), EventQueue(), datetime(2020, 1, 1), verbose=False))


def _ask(iface, q):
    ent = {"id": q}
    try:
        cont, allow = iface.allowable_pilot_signals(q)
        ent["allowable"] = {"err": None, "cont": bool(cont), "vals": [float(a) for a in allow]}
    except Exception as e:  # noqa
        ent["allowable"] = {"err": I.err_name(e)}
    for name, fn in (("max", iface.max_pilot_signal), ("min", iface.min_pilot_signal)):
        try:
            ent[name] = {"err": None, "v": float(fn(q))}
        except Exception as e:  # noqa
            ent[name] = {"err": I.err_name(e)}
    return ent


def _snapshot(net, queries, live=None):
    """What the network advertises right now: its cached containers, the Interface accessors for the
    queried ids (through an Interface made now and through `live`, one that has been answering since
    before the first registration), the InfrastructureInfo handed to a scheduler — next to every
    station's own description."""
    snap = _net_arrays(net)
    snap["own"] = [_own_info(net._EVSEs[s]) for s in snap["ids"]]
    iface = _new_interface(net)
    qs = []
    for q in queries:
        ent = _ask(iface, q)
        if live is not None:
            old = _ask(live, q)
            ent["live_same"] = (old == ent)
            if not ent["live_same"]:
                ent["live"] = old
        qs.append(ent)
    snap["iface"] = qs
    try:
        info = iface.infrastructure_info()
        snap["infra"] = {"err": None, "ids": list(info.station_ids),
                         "index": [int(info.get_station_index(s)) for s in info.station_ids],
                         "max": [float(x) for x in info.max_pilot], "min": [float(x) for x in info.min_pilot],
                         "allow": [[float(a) for a in arr] for arr in info.allowable_pilots],
                         "cont": [bool(b) for b in info.is_continuous]}
        # a scheduler scribbling over ITS copy must not change what the network advertises
        for arr in info.allowable_pilots:
            arr[...] = -7
        info.max_pilot[...] = -7
        info.min_pilot[...] = -7
        info.is_continuous[...] = ~info.is_continuous
        snap["unchanged_by_consumer"] = (_net_arrays(net) == {k: snap[k] for k in ("ids", "max", "min", "allow", "cont")})
    except Exception as e:  # noqa
        snap["infra"] = {"err": I.err_name(e)}
        snap["unchanged_by_consumer"] = True
    return snap


def _advertised(snap, i, sid):
    """the values advertised for station `sid` (position `i`): through the Interface when it answers,
    from the network's containers otherwise"""
    ent = next((q for q in snap["iface"] if q["id"] == sid), None)
    if ent is not None and ent["allowable"]["err"] is None and ent["max"]["err"] is None and ent["min"]["err"] is None:
        return ent["allowable"]["vals"], ent["max"]["v"], ent["min"]["v"]
    return snap["allow"][i], snap["max"][i], snap["min"][i]


START = datetime(2020, 1, 1)


def _restore(net, via):
    """save and resume: the network that comes back, and an Interface on it (for a whole-simulator save: the
    one `update_scheduler` hands to a newly attached algorithm)"""
    from acnportal.acnsim import Simulator, EventQueue
    from acnportal.algorithms import UncontrolledCharging
    cls = type(net)
    if via == "str":
        new = cls.from_json(net.to_json())
    elif via == "buf":
        b = io.StringIO()
        net.to_json(b)
        b.seek(0)
        new = cls.from_json(b)
    elif via == "file":
        with tempfile.TemporaryDirectory(prefix="c13_") as d:
            path = os.path.join(d, "network.json")
            net.to_json(path)
            new = cls.from_json(path)
    elif via in ("sim", "sim_buf"):
        sim = Simulator(net, UncontrolledCharging(), EventQueue(), START, verbose=False)
        if via == "sim":
            sim2 = Simulator.from_json(sim.to_json())
        else:
            b = io.StringIO()
            sim.to_json(b)
            b.seek(0)
            sim2 = Simulator.from_json(b)
        alg = UncontrolledCharging()
        sim2.update_scheduler(alg)
        return sim2.network, alg.interface
    elif via == "deepcopy":
        new = copy.deepcopy(net)
    elif via == "pickle":
        new = pickle.loads(pickle.dumps(net))
    else:
        raise ValueError(via)
    return new, _new_interface(new)


_FRESH = {}


def _fresh_accepts(kind, v):
    """does a newly constructed EVSE with the case's parameters for the station (never registered, never saved)
    take `v` through the public entry point"""
    key = (os.environ.get("ACN_REPO", ""), json.dumps(kind, sort_keys=True), repr(v))
    if key not in _FRESH:
        fresh = I.make_evse_as(kind, "fresh")
        try:
            fresh.set_pilot(v, 208, 5)
            _FRESH[key] = bool(fresh.current_pilot == v)
        except Exception:  # noqa
            _FRESH[key] = False
    return _FRESH[key]


def _adv_check(net, snap, kinds):
    """advertised values are themselves accepted: every value the network / Interface reports for a station is
    sent to THAT station (the registered object's predicate, and the public entry point of a fresh EVSE built
    from the case's parameters for that id, incl. inf)"""
    adv = []
    for i, sid in enumerate(snap["ids"]):
        if sid not in kinds or i >= len(snap["allow"]) or i >= len(snap["max"]) or i >= len(snap["min"]):
            continue
        allow, mx, mn = _advertised(snap, i, sid)
        kind = kinds[sid]
        vals = set(list(allow) + [mx] + ([0.0] if kind["t"] != "cont" else [mn]))
        for v in sorted(vals):
            ok = bool(net._EVSEs[sid]._valid_rate(v))
            adv.append([sid, I.enc(v), ok and _fresh_accepts(kind, v)])
    return adv


def _states(net):
    return [[s, _obs_state(e)] for s, e in net._EVSEs.items()]


def run_impl(case):
    from acnportal.acnsim.network import ChargingNetwork, Current
    hist = _hist(case)
    regs = [r for r in hist if "restore" not in r]
    netspec = case.get("net") or {}
    P = _primary(case)
    queries = netspec.get("queries", [P])
    kinds = _final_kinds(regs)
    snaps = []
    if netspec.get("site"):
        # the factory registers the stations and adds the site's constraints; the description is read once it
        # is built, then after every save / resume step that follows
        net = _build_site(netspec["site"])
        live = _new_interface(net)
        k0 = max(k for k, r in enumerate(hist) if "restore" not in r)
        snap = _snapshot(net, queries, live)
        snap.update({"k": k0, "reg_err": None})
        snaps.append(snap)
        todo = list(enumerate(hist))[k0 + 1:]
    else:
        net = ChargingNetwork()
        live = _new_interface(net)
        todo = list(enumerate(hist))
    for k, r in todo:
        err = None
        try:
            if "restore" in r:
                net, live = _restore(net, r["restore"])
            else:
                evse = I.make_evse_as(r["kind"], r["id"])
                if r.get("json"):
                    evse = type(evse).from_json(evse.to_json())
                net.register_evse(evse, r["V"], r["ph"])
        except Exception as e:  # noqa
            err = I.err_name(e)
        snap = _snapshot(net, queries, live)
        snap.update({"k": k, "reg_err": err})
        snaps.append(snap)
    cons_err = []
    for c in netspec.get("cons", []):
        try:
            if c["op"] == "add":
                net.add_constraint(Current(list(c["ids"])), c["limit"], name=c["name"])
            elif c["op"] == "remove":
                net.remove_constraint(c["name"])
            elif c["op"] == "restore":
                net, live = _restore(net, c["via"])
            else:
                net.update_constraint(c["name"], Current(list(c["ids"])), c["limit"])
            cons_err.append(None)
        except Exception as e:  # noqa
            cons_err.append(I.err_name(e))
    post_cons = _snapshot(net, queries, live)

    info = _own_info(net._EVSEs[P])
    info["advertised_accepted"] = _adv_check(net, post_cons, kinds)

    steps = []
    with I.noise_source() as ns:
        for o in case["ops"]:
            op = o["op"]
            if op == "restore":
                before = _states(net)
                err = None
                try:
                    net, live = _restore(net, o["via"])
                except Exception as e:  # noqa
                    err = I.err_name(e)
                snap = _snapshot(net, queries, live)
                steps.append({"restore": o["via"], "err": err, "before": before, "states": _states(net), "snap": snap,
                              "advertised_accepted": _adv_check(net, snap, kinds)})
                continue
            at = o.get("at", P)
            evse = net._EVSEs[at]
            ns.value = o.get("nu", 0.0)
            if op == "valid":
                steps.append({"valid": bool(evse._valid_rate(I.num(o["p"]), atol=o["atol"]))})
                continue
            before = _obs_state(evse)
            elsewhere = {s: _obs_state(e) for s, e in net._EVSEs.items() if s != at}
            occupant = evse.ev
            err = None
            try:
                if op == "set_pilot":
                    evse.set_pilot(I.num(o["p"]), o["V"], o["T"])
                elif op == "plugin":
                    newcomer = evse.ev if (o.get("same") == "object" and evse.ev is not None) else I.make_ev(o["ev"])
                    if o.get("via") == "net":
                        newcomer._station_id = at
                        with warnings.catch_warnings():
                            warnings.simplefilter("ignore")
                            net.plugin(newcomer)
                    else:
                        evse.plugin(newcomer)
                elif op == "unplug":
                    evse.unplug()
            except Exception as e:  # noqa
                err = I.err_name(e)
            st = _obs_state(evse)
            st["err"] = err
            st["before"] = before
            st["same_occupant"] = evse.ev is occupant
            st["others_changed"] = sorted(s for s, e in net._EVSEs.items() if s != at and _obs_state(e) != elsewhere[s])
            steps.append(st)
    final = [dict(id=s, **_obs_state(e)) for s, e in net._EVSEs.items()]
    # the description does not depend on pilots / occupants
    post = _snapshot(net, queries, live)
    info["advertised_accepted_end"] = _adv_check(net, post, kinds)
    return {"info": info, "steps": steps, "snaps": snaps, "post_cons": post_cons, "post": post,
            "cons_err": cons_err, "final": final}


# ------------------------------------------------------------------ model

def model_request(case):
    P = _primary(case)
    ops = []
    for o in case["ops"]:
        if o["op"] == "restore":
            ops.append({"op": "restore"})
            continue
        if o["op"] == "valid":
            m = {"op": "valid", "p": f2b(I.num(o["p"])), "atol": f2b(o["atol"])}
        elif o["op"] == "set_pilot":
            m = {"op": "set_pilot", "p": f2b(I.num(o["p"])), "V": f2b(o["V"]), "T": f2b(o["T"]),
                 "nu": f2b(o["nu"])}
        elif o["op"] == "plugin":
            m = {"op": "plugin", "ev": I.ev_wire(o["ev"])}
        else:
            m = {"op": "unplug"}
        if o.get("at", P) != P:
            m["at"] = o["at"]
        ops.append(m)
    req = {"kind": I.kind_wire(case["kind"]), "primary": P, "ops": ops}
    if case.get("net"):
        # save / resume steps between the constraint edits are not sent: constraint edits are outside the model
        req["net"] = {"hist": [{"restore": True} if "restore" in r else {"id": r["id"], "kind": I.kind_wire(r["kind"])}
                               for r in _hist(case)],
                      "queries": list(case["net"].get("queries", [P]))}
    return req


def _cmp_ev(a, m, out, where):
    if (a is None) != (m is None):
        out.append(f"{where}: occupant impl={a} model={m}")
        return
    if a is None:
        return
    if a["session"] != m["session"]:
        out.append(f"{where}: session {a['session']} vs {m['session']}")
    for k, mk in (("delivered", "delivered"), ("rate", "rate")):
        if not close(a[k], b2f(m[mk])):
            out.append(f"{where}: ev.{k} impl={a[k]!r} model={b2f(m[mk])!r}")
    for k in ("charge", "power"):
        if not close(a["batt"][k], b2f(m["batt"][k])):
            out.append(f"{where}: batt.{k} impl={a['batt'][k]!r} model={b2f(m['batt'][k])!r}")


def _close_list(a, mb):
    return len(a) == len(mb) and all(close(x, b2f(y)) for x, y in zip(a, mb))


def _entry_name(r):
    return f"save / resume via {r['restore']}" if "restore" in r else f"register_evse({r['id']!r})"


def _cmp_snap(a, m, out, where):
    """implementation snapshot against the model's description of the same registration prefix"""
    if a.get("reg_err") is not None:
        out.append(f"{where}: raised {a['reg_err']}")
    if a["ids"] != m["ids"]:
        out.append(f"{where}: station order impl={a['ids']} model={m['ids']}")
        return
    if not _close_list(a["max"], m["maxs"]):
        out.append(f"{where}: max_pilot_signals impl={a['max']} model={[b2f(x) for x in m['maxs']]}")
    if not _close_list(a["min"], m["mins"]):
        out.append(f"{where}: min_pilot_signals impl={a['min']} model={[b2f(x) for x in m['mins']]}")
    if a["cont"] != m["cont"]:
        out.append(f"{where}: is_continuous impl={a['cont']} model={m['cont']}")
    if len(a["allow"]) != len(m["allow"]) or not all(_close_list(x, y) for x, y in zip(a["allow"], m["allow"])):
        out.append(f"{where}: allowable_rates impl={a['allow']} model={[[b2f(v) for v in y] for y in m['allow']]}")
    if (a["infra"]["err"] is None) != m["infra_ok"]:
        out.append(f"{where}: infrastructure_info err impl={a['infra']['err']} model ok={m['infra_ok']}")
    for qa, qm in zip(a["iface"], m["iface"]):
        for f in ("allowable", "max", "min"):
            ea, em = qa[f]["err"], qm[f].get("err")
            if ea != em:
                out.append(f"{where}: Interface {f}({qa['id']!r}) err impl={ea} model={em}")
                continue
            if ea is not None:
                continue
            if f == "allowable":
                if qa[f]["cont"] != qm[f]["cont"] or not _close_list(qa[f]["vals"], qm[f]["vals"]):
                    out.append(f"{where}: Interface allowable_pilot_signals({qa['id']!r}) impl={qa[f]} "
                               f"model={(qm[f]['cont'], [b2f(v) for v in qm[f]['vals']])}")
            elif not close(qa[f]["v"], b2f(qm[f]["v"])):
                out.append(f"{where}: Interface {f}_pilot_signal({qa['id']!r}) impl={qa[f]['v']} model={b2f(qm[f]['v'])}")


def compare(case, obs, model):
    out = []
    mi = model["info"]
    ii = obs["info"]
    if not close(ii["max"], b2f(mi["max"])):
        out.append(f"max_rate impl={ii['max']} model={b2f(mi['max'])}")
    if not close(ii["min"], b2f(mi["min"])):
        out.append(f"min_rate impl={ii['min']} model={b2f(mi['min'])}")
    if ii["cont"] != mi["cont"]:
        out.append("is_continuous differs")
    ma = [b2f(x) for x in mi["allowable"]]
    if len(ma) != len(ii["allowable"]) or not all(close(a, b) for a, b in zip(ii["allowable"], ma)):
        out.append(f"allowable impl={ii['allowable']} model={ma}")
    # the advertised description after every entry of the history (registration or save / resume); unchanged by
    # constraint edits, operations and further save / resume steps
    hist = _hist(case)
    if len(hist) != len(model["snaps"]):
        out.append(f"{len(hist)} history entries, {len(model['snaps'])} modelled")
    for a in obs["snaps"]:
        k = a.get("k", 0)
        if k < len(model["snaps"]):
            _cmp_snap(a, model["snaps"][k], out, f"after history entry {k} ({_entry_name(hist[k]) if k < len(hist) else '?'})")
    if model["snaps"]:
        _cmp_snap(obs["post_cons"], model["snaps"][-1], out, "after the constraint edits")
        _cmp_snap(obs["post"], model.get("last", model["snaps"][-1]), out, "after the operations")
    if len(obs["steps"]) != len(model["steps"]):
        out.append(f"{len(obs['steps'])} steps observed, {len(model['steps'])} modelled")
    for i, (a, m) in enumerate(zip(obs["steps"], model["steps"])):
        if "restore" in a:
            if not m.get("restore"):
                out.append(f"step {i}: save / resume observed, model answered {m}")
                continue
            if a["err"] is not None:
                out.append(f"step {i}: save / resume ({a['restore']}) raised {a['err']}")
            _cmp_snap(a["snap"], m["snap"], out, f"step {i} (after save / resume via {a['restore']})")
            if [x[0] for x in a["states"]] != [x["id"] for x in m["states"]]:
                out.append(f"step {i}: stations after save / resume impl={[x[0] for x in a['states']]} model={[x['id'] for x in m['states']]}")
            else:
                for (sid, sa), sm in zip(a["states"], m["states"]):
                    if not close(I.num(sa["pilot"]), b2f(sm["pilot"])):
                        out.append(f"step {i}: {sid} pilot after save / resume impl={sa['pilot']} model={b2f(sm['pilot'])}")
                    _cmp_ev(sa["ev"], sm["ev"], out, f"step {i} ({sid} after save / resume)")
            continue
        if "valid" in a:
            if a["valid"] != m.get("valid"):
                out.append(f"step {i}: valid impl={a['valid']} model={m.get('valid')} op={case['ops'][i]}")
            continue
        if a["err"] != m["err"]:
            out.append(f"step {i}: err impl={a['err']} model={m['err']} op={case['ops'][i]}")
            continue
        if not close(I.num(a["pilot"]), b2f(m["pilot"])):
            out.append(f"step {i}: pilot impl={a['pilot']} model={b2f(m['pilot'])}")
        _cmp_ev(a["ev"], m["ev"], out, f"step {i}")
        if a["others_changed"]:
            out.append(f"step {i}: stations {a['others_changed']} changed by an operation on {case['ops'][i].get('at', _primary(case))}")
    fa, fm = obs["final"], model["final"]
    if [s["id"] for s in fa] != [s["id"] for s in fm]:
        out.append(f"final stations impl={[s['id'] for s in fa]} model={[s['id'] for s in fm]}")
    else:
        for a, m in zip(fa, fm):
            if not close(I.num(a["pilot"]), b2f(m["pilot"])):
                out.append(f"final {a['id']}: pilot impl={a['pilot']} model={b2f(m['pilot'])}")
            _cmp_ev(a["ev"], m["ev"], out, f"final {a['id']}")
    return out


# ------------------------------------------------------------------ property oracle

def _dist(kind, p):
    """exact rational distance from p to the allowable set (None if p is NaN)."""
    if isinstance(p, float) and math.isnan(p):
        return None
    P = Fraction(p)
    t = kind["t"]

    def d_iv(lo, hi):
        lo = Fraction(lo)
        if P < lo:
            return lo - P
        if not math.isinf(hi) and P > Fraction(hi):
            return P - Fraction(hi)
        return Fraction(0)

    if t == "cont":
        return d_iv(I.num(kind["min"]), I.num(kind["max"]))
    if t == "deadband":
        return min(abs(P), d_iv(I.num(kind["db"]), I.num(kind["max"])))
    return min(abs(P - Fraction(I.num(r))) for r in list(kind["rates"]) + [0])


def _expected_valid(kind, p, atol):
    """True / False / None (abstain: within 1e-9 of the tolerance edge, doubles may round)."""
    if isinstance(p, float) and math.isinf(p):
        # +inf is exactly the advertised maximum of an unbounded continuous/deadband EVSE
        return p > 0 and kind["t"] != "finite" and math.isinf(float(I.num(kind["max"])))
    d = _dist(kind, p)
    if d is None:
        return False
    margin = d - Fraction(atol)
    exact_edge = (Fraction(atol).denominator <= 2 ** 12 and Fraction(p).denominator <= 2 ** 12)
    if abs(margin) < Fraction(1, 10 ** 9) and not exact_edge:
        return None
    return margin <= 0


def _spec_info(kind):
    """what the documentation of each class says it advertises (the minimum is only pinned for the
    continuous class; for the others the station's own `min_rate` is the reference)"""
    t = kind["t"]
    if t == "cont":
        return {"cont": True, "allowable": [float(I.num(kind["min"])), float(I.num(kind["max"]))],
                "max": float(I.num(kind["max"])), "min": float(I.num(kind["min"]))}
    if t == "deadband":
        return {"cont": True, "allowable": [float(I.num(kind["db"])), float(I.num(kind["max"]))],
                "max": float(I.num(kind["max"]))}
    lv = _levels(kind)
    return {"cont": False, "allowable": lv, "max": max(lv)}


def _oracle_snap(snap, regs_prefix, fails, where):
    """every station is advertised — in the network's containers, through each Interface accessor and in
    InfrastructureInfo — with ITS OWN description, which is the documented one for its parameters"""
    kinds = _final_kinds(regs_prefix)
    ids = snap["ids"]
    if sorted(ids) != sorted(kinds):
        fails.append({"kind": "registered_station_missing", "detail": f"{where}: station_ids={ids} registered={list(kinds)}"})
        return
    n = len(ids)
    if not (len(snap["max"]) == len(snap["min"]) == len(snap["allow"]) == len(snap["cont"]) == n):
        fails.append({"kind": "interface_info_differs", "detail": f"{where}: containers of different lengths {snap}"})
        return
    for i, sid in enumerate(ids):
        own = snap["own"][i]
        spec = _spec_info(kinds[sid])
        # the EVSE's own description is the documented one
        if kinds[sid]["t"] == "finite" and own["allowable"] != spec["allowable"]:
            fails.append({"kind": "finite_list_not_normalised", "detail": f"{where}: {sid} allowable={own['allowable']} expected={spec['allowable']}"})
        elif own["allowable"] != spec["allowable"] or own["cont"] != spec["cont"]:
            fails.append({"kind": "advertised_set_wrong", "detail": f"{where}: {sid} advertises {own} expected={spec}"})
        if own["max"] != spec["max"] or ("min" in spec and own["min"] != spec["min"]):
            fails.append({"kind": "advertised_max_wrong", "detail": f"{where}: {sid} max={own['max']} min={own['min']} expected={spec}"})
        # the network's containers carry it at the station's position
        got = {"max": snap["max"][i], "min": snap["min"][i], "cont": snap["cont"][i], "allowable": snap["allow"][i]}
        if got != own:
            fails.append({"kind": "interface_info_differs", "detail": f"{where}: network containers for {sid!r} (position {i}) = {got}, the station's own = {own}"})
        # InfrastructureInfo, at the index it reports for the station
        f = snap["infra"]
        if f["err"] is None:
            if f["ids"] != ids:
                fails.append({"kind": "interface_info_differs", "detail": f"{where}: InfrastructureInfo.station_ids={f['ids']} network={ids}"})
            else:
                j = f["index"][i]
                gi = None
                if 0 <= j < n:
                    gi = {"max": f["max"][j], "min": f["min"][j], "cont": f["cont"][j], "allowable": f["allow"][j]}
                if gi != own:
                    fails.append({"kind": "interface_info_differs", "detail": f"{where}: infrastructure_info() for {sid!r} (index {j}) = {gi}, the station's own = {own}"})
    # the accessors, per queried id
    for q in snap["iface"]:
        sid = q["id"]
        if sid not in kinds:
            for fld in ("allowable", "max", "min"):
                if q[fld]["err"] is None:
                    fails.append({"kind": "unknown_station_answered", "detail": f"{where}: Interface {fld} for unregistered id {sid!r} = {q[fld]}"})
            continue
        own = snap["own"][ids.index(sid)]
        a, mx, mn = q["allowable"], q["max"], q["min"]
        if not q.get("live_same", True):
            fails.append({"kind": "interface_info_differs", "detail": f"{where}: an Interface that exists since before the registrations answers {q['live']} for {sid!r}, one made now answers { {k: q[k] for k in ('allowable', 'max', 'min')} }"})
        if a["err"] is None and (a["cont"] != own["cont"] or a["vals"] != own["allowable"]):
            fails.append({"kind": "interface_info_differs", "detail": f"{where}: Interface.allowable_pilot_signals({sid!r}) = {(a['cont'], a['vals'])}, the station's own = {(own['cont'], own['allowable'])}"})
        if mx["err"] is None and mx["v"] != own["max"]:
            fails.append({"kind": "interface_info_differs", "detail": f"{where}: Interface.max_pilot_signal({sid!r}) = {mx['v']}, the station's own = {own['max']}"})
        if mn["err"] is None and mn["v"] != own["min"]:
            fails.append({"kind": "interface_info_differs", "detail": f"{where}: Interface.min_pilot_signal({sid!r}) = {mn['v']}, the station's own = {own['min']}"})
        if snap["infra"]["err"] is None and (a["err"] or mx["err"] or mn["err"]):
            fails.append({"kind": "interface_info_differs", "detail": f"{where}: Interface accessors for registered {sid!r} raise {a['err'] or mx['err'] or mn['err']} although infrastructure_info() is available"})
    if not snap["unchanged_by_consumer"]:
        fails.append({"kind": "advertised_info_changed_by_consumer", "detail": f"{where}: writing into the InfrastructureInfo returned by infrastructure_info() changed the network's containers"})


def _regs_upto(hist, k):
    """the registrations among the first k + 1 entries of the history"""
    return [r for r in hist[:k + 1] if "restore" not in r]


def oracle(case, obs):
    fails = []
    hist = _hist(case)
    regs = [r for r in hist if "restore" not in r]
    kinds = _final_kinds(regs)
    P = _primary(case)
    info = obs["info"]
    # advertised values accepted, per station: before the first use, after every save / resume, at the end
    advs = [("before the first use", info["advertised_accepted"]), ("after the operations", info.get("advertised_accepted_end", []))]
    advs += [(f"after the save / resume of step {i} (via {st['restore']})", st["advertised_accepted"])
             for i, st in enumerate(obs["steps"]) if "restore" in st]
    for where, lst in advs:
        for sid, v, ok in lst:
            if not ok:
                fails.append({"kind": "advertised_value_rejected", "detail": f"{where}: value {v} advertised for station {sid!r} is rejected by that station"})
    # cache / interface truthful: after every entry of the history, after the constraint edits, after the operations
    for snap in obs["snaps"]:
        k = snap.get("k", 0)
        name = _entry_name(hist[k]) if k < len(hist) else "?"
        if snap.get("reg_err") is not None:
            fails.append({"kind": "restore_failed" if "restore" in hist[k] else "unexpected_exception",
                          "detail": f"history entry {k} ({name}): {snap['reg_err']}"})
        _oracle_snap(snap, _regs_upto(hist, k), fails, f"after history entry {k} ({name})")
    for c, e in zip((case.get("net") or {}).get("cons", []), obs["cons_err"]):
        if c["op"] == "restore" and e is not None:
            fails.append({"kind": "restore_failed", "detail": f"save / resume via {c['via']} between the constraint edits: {e}"})
    _oracle_snap(obs["post_cons"], regs, fails, "after the constraint edits")
    _oracle_snap(obs["post"], regs, fails, "after the operations")
    for i, (o, st) in enumerate(zip(case["ops"], obs["steps"])):
        op = o["op"]
        if op == "restore":
            if st["err"] is not None:
                fails.append({"kind": "restore_failed", "detail": f"op {i}: save / resume via {o['via']}: {st['err']}"})
            # every station — looked up by ID — is in the state it was saved in
            if dict((s, x) for s, x in st["before"]) != dict((s, x) for s, x in st["states"]):
                fails.append({"kind": "restore_changed_station_state", "detail": f"op {i} (via {o['via']}): before={st['before']} after={st['states']}"})
            _oracle_snap(st["snap"], regs, fails, f"after the save / resume of op {i} (via {o['via']})")
            continue
        at = o.get("at", P)
        kind = kinds[at]
        if op == "valid":
            atol_eff = o["atol"] if kind["t"] != "finite" else ATOL
            exp = _expected_valid(kind, I.num(o["p"]), atol_eff)
            if exp is not None and exp != st["valid"]:
                fails.append({"kind": "validity_wrong", "detail": f"op {i} station {at!r} pilot {o['p']} atol {atol_eff}: accepted={st['valid']} expected={exp}"})
            continue
        if st["others_changed"]:
            fails.append({"kind": "other_station_changed", "detail": f"op {i} on station {at!r} changed {st['others_changed']}"})
        if op == "set_pilot":
            exp = _expected_valid(kind, I.num(o["p"]), ATOL)
            accepted = st["err"] is None
            if st["err"] not in (None, "InvalidRate"):
                fails.append({"kind": "unexpected_exception", "detail": f"op {i}: {st['err']}"})
                continue
            if exp is not None and exp != accepted:
                fails.append({"kind": "validity_wrong", "detail": f"op {i} station {at!r} set_pilot({o['p']}): accepted={accepted} expected={exp}"})
            if not accepted:
                b = st["before"]
                if b["pilot"] != st["pilot"] or b["ev"] != st["ev"]:
                    fails.append({"kind": "rejected_pilot_changed_state", "detail": f"op {i}: before={b} after={ {k: st[k] for k in ('pilot','ev')} }"})
            else:
                p = I.num(o["p"])
                if float(I.num(st["pilot"])) != float(p):
                    fails.append({"kind": "accepted_pilot_not_stored", "detail": f"op {i}: pilot={st['pilot']} expected={p}"})
        elif op == "plugin":
            occupied = st["before"]["ev"] is not None
            if occupied:
                if st["err"] != "StationOccupied" or not st["same_occupant"] or st["ev"] != st["before"]["ev"]:
                    fails.append({"kind": "occupied_plugin_not_refused", "detail": f"op {i}: err={st['err']} ev={st['ev']}"})
            else:
                if st["err"] is not None or st["ev"] is None or st["ev"]["session"] != o["ev"]["session"]:
                    fails.append({"kind": "vacant_plugin_failed", "detail": f"op {i}: err={st['err']} ev={st['ev']}"})
    return fails


def _shared_minmax(case):
    """two stations of one class with equal min_rate / max_rate and different allowable sets"""
    seen = {}
    for sid, k in _final_kinds(_regs(case)).items():
        s = _spec_info(k)
        lo = 0.0 if k["t"] == "deadband" else (s["allowable"][0] if k["t"] == "cont" else ([v for v in s["allowable"] if v > 0] or [0.0])[0])
        key = (k["t"], lo, s["max"])
        if key in seen and seen[key] != s["allowable"]:
            return True
        seen.setdefault(key, s["allowable"])
    return False


def _restores(case):
    """(where, via) of every save / resume step of the case"""
    net = case.get("net") or {}
    out = [("regs", r["restore"]) for r in net.get("regs", []) if "restore" in r]
    out += [("cons", c["via"]) for c in net.get("cons", []) if c["op"] == "restore"]
    out += [("ops", o["via"]) for o in case["ops"] if o["op"] == "restore"]
    return out


def _order_matters(case):
    """the final registration order is not the sorted order of the ids and the permuted positions do not all
    carry the same description (what a save / resume that re-orders either side would mix up)"""
    kinds = _final_kinds(_regs(case))
    ids = list(kinds)
    return any(a != b and _spec_info(kinds[a]) != _spec_info(kinds[b]) for a, b in zip(ids, sorted(ids)))


def nontrivial(case, obs):
    kinds = _final_kinds(_regs(case))
    if _restores(case) and _order_matters(case):
        return True
    for o, st in zip(case["ops"], obs["steps"]):
        if o["op"] in ("valid", "set_pilot"):
            p = I.num(o["p"])
            if isinstance(p, float) and math.isnan(p):
                continue
            if any(abs(p - b) <= 2.5e-3 for b in _boundaries(kinds[o.get("at", _primary(case))])):
                return True
            if o["op"] == "set_pilot" and st.get("err") == "InvalidRate" and st["before"]["ev"] is not None:
                return True
    return _shared_minmax(case)


def features(case, obs):
    regs = _regs(case)
    kinds = _final_kinds(regs)
    out = ["kind:" + case["kind"]["t"], "net:stations=" + (str(len(kinds)) if len(kinds) < 8 else "8+")]
    for dg_k in kinds.values():
        dg_s = _spec_info(dg_k)
        if dg_s["max"] == 0:
            out.append("degenerate:max_rate_0:" + dg_k["t"])
        elif dg_k["t"] != "finite" and dg_s["allowable"][0] == dg_s["allowable"][1]:
            out.append("degenerate:min_eq_max:" + dg_k["t"])
        if dg_k.get("num"):
            out.append("bounds_as:" + dg_k["num"])
        if dg_k["t"] == "finite":
            out.append("rates_as:" + dg_k.get("as", "list"))
            if dg_k.get("as") in ("gen", "map", "iter") and len(set(float(I.num(r)) for r in dg_k["rates"]) - {0.0}) > 0:
                out.append("rates_as:one_shot_iterator_with_nonzero_levels")
    out = out[:2] + sorted(set(out[2:]))
    if len(kinds) > 1:
        out += sorted(set("net:other_kind:" + k["t"] for s, k in kinds.items() if s != _primary(case)))
        if _shared_minmax(case):
            out.append("net:same_class_minmax_other_set")
        specs = [_spec_info(k) for k in kinds.values()]
        if any(a["allowable"] == b["allowable"] and a["cont"] == b["cont"] for i, a in enumerate(specs) for b in specs[i + 1:]):
            out.append("net:same_description_twice")
        if list(kinds) != sorted(kinds):
            out.append("net:registration_order_not_sorted")
    if len(regs) != len(kinds):
        out.append("net:id_registered_twice")
    for c in (case.get("net") or {}).get("cons", []):
        out.append("net:constraint_" + c["op"])
    if any(q["id"] not in kinds for q in obs["post"]["iface"]):
        out.append("net:unknown_id_queried")
    if obs["post"]["infra"]["err"]:
        out.append("net:infrastructure_info_err:" + obs["post"]["infra"]["err"])
    net = case.get("net") or {}
    if net.get("site"):
        out.append("site:" + net["site"]["factory"] + ("(basic)" if net["site"].get("kwargs", {}).get("basic_evse") else ""))
    if any(r.get("json") for r in regs):
        out.append("reg:evse_through_json")
    rs = _restores(case)
    out.append("restores=" + str(min(len(rs), 3)))
    for where, via in rs:
        out.append("restore:in_" + where)
        out.append("restore:via:" + via)
    if rs and _order_matters(case):
        out.append("restore:order_not_sorted_and_stations_differ")
    if net.get("regs") and "restore" in net["regs"][0]:
        out.append("restore:of_empty_network")
    if any("restore" in r for r in net.get("regs", [])[1:-1]):
        out.append("restore:between_registrations")
    for o, st in zip(case["ops"], obs["steps"]):
        if o["op"] == "restore":
            out.append("op:restore")
            if any(x[1]["ev"] is not None for x in st["before"]):
                out.append("restore:with_ev_connected")
            if any(I.num(x[1]["pilot"]) != 0 for x in st["before"]):
                out.append("restore:with_pilot_applied")
            if st["err"]:
                out.append("restore_err:" + st["err"])
            continue
        if o["op"] == "set_pilot" and o["p"] == "inf":
            out.append("set_pilot_inf")
        out.append("op:" + o["op"] + (":same_" + o["same"] if o.get("same") else ""))
        if o.get("at", _primary(case)) != _primary(case):
            out.append("op_at_other_station")
        if "err" in st and st["err"]:
            out.append("err:" + st["err"])
        if o["op"] == "valid":
            out.append("valid:" + str(st["valid"]))
        if o["op"] == "set_pilot" and st["before"]["ev"] is not None:
            out.append("set_pilot_with_ev")
    return out
