"""C18 — analysis functions equal their first-principles definitions.

A case is a COMPLETE real simulation (real Simulator / ChargingNetwork / EVs / batteries /
scheduler) plus a list of analysis queries.  `run_impl` runs it and calls every analysis
function; the ORACLE recomputes every returned number from the recorded trajectory
(`charging_rates`, `ev_history`) and the network description BY STATION ID / CONSTRAINT NAME,
from the property statement, in exact rational / complex arithmetic; the MODEL (Lean,
`AcnModel/Analysis.lean`) is fed the raw arrays the code reads and must return the same numbers.

The network's constraint list has a HISTORY (`build` before the run, `post` after it: add / remove /
update / rename / JSON round trips); the oracle's constraint table is what that history says the network is
(`_spec_state`, from the API's documentation), never what the implementation's own index structures say.
"""
from __future__ import annotations

import cmath
import itertools
import math
import warnings
from datetime import datetime, timedelta
from fractions import Fraction

import numpy as np

from core.common import f2b, b2f, close
from core import impl as I
from core import simcase as S

ID = "C18"
LEAN_MODULES = ["AcnProofs.C18", "AcnProofs.C18Sim"]
TIE_MODULES = ["AcnProofs.Lemmas.CodeTieAnalysis"]
DRIVER = "drv_C18"
REQUIRED_THEOREMS = [
    "Acn.C18.aggregate_current_def", "Acn.C18.aggregate_power_def",
    "Acn.C18.constraint_current_rows", "Acn.C18.constraint_currents_named",
    "Acn.C18.constraint_currents_keys", "Acn.C18.constraint_currents_mag_named",
    "Acn.C18.energy_metrics_def", "Acn.C18.nema_def", "Acn.C18.energy_cost_def",
    "Acn.C18.demand_charge_def", "Acn.C18.datetimes_def", "Acn.C18.spec_defs_are_sums",
    # the analysis on the SIMULATED trajectory of the full simulator model (AcnProofs/C18Sim.lean)
    "Acn.C18Sim.sim_aggregate_current", "Acn.C18Sim.sim_peak_is_max_aggregate_current",
    "Acn.C18Sim.sim_aggregate_power", "Acn.C18Sim.sim_total_energy_eq_integral", "Acn.C18Sim.complete_run_facts",
    "Acn.C18Sim.sim_total_energy_complete", "Acn.C18Sim.proportion_le_one_of_le_requested",
    "Acn.C18Sim.sim_proportion_le_one", "Acn.C18Sim.sim_proportion_le_one_complete",
    "Acn.C18Sim.sim_demands_met_mono", "Acn.C18Sim.sim_datetimes", "Acn.C18Sim.sim_datetimes_complete",
    "Acn.C18Sim.sim_constraint_current_within_limit_partial",
    "Acn.C18Sim.sim_constraint_currents_within_limit_partial",
    "Acn.C18Sim.current_unbalance_keywords", "Acn.C18Sim.pick_tariff_spec",
]
BUDGET = {"quick": 100, "thorough": 900, "search": 400}
TRUSTED = [
    "numpy: ndarray.sum(axis), dot/@ (BLAS summation order), abs of complex (hypot), max/mean along an axis, "
    "fancy column indexing, vstack; datetime/timedelta/np.datetime64 arithmetic",
    "TimeOfUseTariff.get_tariff / get_demand_charge (C17's subject): the oracle prices each period with the "
    "scalar lookup, the model takes the vector the code obtained as an input",
    "cos/sin of the phase angles are inputs of the model (numpy exp(1j*deg2rad)); the oracle uses cmath",
    "the constraint limits used by the oracle's link `pilots within the linear bound => |constraint current| within the "
    "limit` are read from network.magnitudes (C12 owns the constraint table)",
]
ASSUMPTIONS = [
    "theorems are over an arbitrary linear ordered field with an uninterpreted sqrt; the implementation computes "
    "in doubles (1e-9 abs+rel slack)",
    "constraint names are pairwise distinct (add_constraint can produce a duplicate via a SECOND `_v2`, DESIGN §8; "
    "the generator rejects edits that would) and the constraint matrix has one row per name (C12); the MODEL is "
    "fed the matrix / name list the network holds after the whole edit history, the ORACLE derives the table "
    "name -> coefficients from the edit history itself (add appends, `None` -> `_const_<n>`, an existing name -> "
    "`_v2`, remove deletes, update = remove + add) and for shipped sites from the pristine matrix",
    "only valid edits are generated (removing / updating an unknown name is C12's error path); a network JSON "
    "round trip happens only before the run, a Simulator JSON round trip only after it",
    "networks have at least one constraint (two, in generated cases) when the analysis is called "
    "(constraint_matrix is None otherwise: F3's territory, C06)",
    "proportion_of_demands_met uses strict `<` as in the source; the oracle abstains when remaining == threshold",
    "simulator-model link: custom networks with the `simscript` scheduler (period -> schedule dict, EVSE(min 0, max), "
    "ideal / noise-free two-stage batteries) are inside the domain of lean/AcnModel/Sim.lean and are run through it; "
    "uncontrolled charging, the active-sessions-only scripted scheduler and the shipped sites are compared on the "
    "implementation's matrices only (as before)",
    "energy_cost / demand_charge without a tariff argument on a Simulator built WITHOUT `signals=`: sim.signals is None and "
    "the code's membership test raises TypeError (not the ValueError of its message); model and oracle accept that class "
    "there and insist on ValueError for a signals dict without a tariff",
    "a Simulator JSON round trip drops a tariff OBJECT in signals (simulator.py: only natively serialisable signals are "
    "kept; DESIGN §8), so after `simjson` the no-argument cost calls are expected to fail",
]
RULE = ("per case one completed real simulation: custom three-phase network (3-8 stations, heterogeneous voltages "
        "and phase angles, 2-7 named constraints with mixed-sign / fractional / zero coefficients, names added in "
        "non-sorted order) or a predefined site (caltech / jpl / office001) with few sessions; the constraint list "
        "has an EDIT HISTORY: 1 in 4 custom networks only ever add constraints, the others (and 6 in 10 sites) go "
        "through a random walk of add (fresh name / unnamed / duplicate name -> `_v2` / a previously removed name), "
        "remove (first, middle, last), update in place, update with rename, network JSON round trip, and the LAST "
        "edit before the run is drawn from {none, add, remove first / middle / last, update, rename, JSON} so every "
        "kind of edit is often the most recent one; 35 % of the cases edit the network again AFTER the run "
        "(add / remove / update / rename / Simulator JSON round trip) with constraint_currents called before and "
        "after those edits; ideal and two-stage "
        "batteries; uncontrolled or scripted pilots; 5-40 periods; periods of 0.5-60 min; naive and tz-aware "
        "summer starts; then: aggregate current/power, constraint_currents for EVERY subset of the constraint "
        "ids (custom) in shuffled order plus permutations, repeated ids, unknown ids (incl. names that were removed "
        "or renamed away), ids as a tuple, None, both flag values, "
        "network.constraint_current with time_indices (negative, repeated, out of range), NEMA for id triples "
        "(incl. repeated / unknown / wrong length), energy totals and proportions with thresholds at and around "
        "every session's remaining demand, energy cost and demand charge under four tariff files, datetimes. "
        "HALF of the custom cases use a scheduler inside the domain of the full simulator model (`simscript`: a schedule dict "
        "per period over any subset of the stations - vacant ones and fully charged EVs included - 1-3 periods long, "
        "max_recompute 1 / 3 / None); the scenario is then ALSO run through lean/AcnModel/Sim.lean by the driver and every "
        "analysis value is recomputed on the MODEL'S OWN trajectory and compared with the implementation's answer, "
        "together with rates, pilots, peak, iteration, ev_history and the model-side ledger equalities; in 45 % of them "
        "schedule() raises once (arrival periods, period 0, the last period): datetimes_array / aggregate_current / peak are "
        "observed on the UNFINISHED simulation (warning expected iff the queue is not empty), then run() is called again; "
        "datetimes_array is also called before run(); current_unbalance is called with the keywords unbalance_type / "
        "type in all five combinations of right and wrong values; energy_cost / demand_charge are called with and without "
        "a tariff argument on simulators built with signals = None / {} / {'tariff': one of five files}. "
        "non-trivial = at least two stations with different voltages AND different phase angles carry current "
        "in the same period and a mixed-sign constraint is queried in a non-index order; distinct by case hash")

SITES = ["caltech", "jpl", "office001"]
TARIFFS = ["sce_tou_ev_4_march_2019", "sce_tou_ev_8_june_2019", "sce_tou_ev_8_oct_2018",
           "sce_tou_ev_4_march_2019_tou_periods_shifted", "pge_a10_tou_aug_2019"]
NAME_POOL = ["A", "B", "C", "AB", "BC", "CA", "Pri A", "Sec B", "a", "AA", "all", "_const_0", "Z", "m1", "0"]


# ------------------------------------------------------------------ generation

def _gen_batt(rng):
    two = rng.random() < 0.35
    cap = rng.choice([8, 20, 40, 60.5, 100])
    b = {"two": two, "cap": cap, "init": round(rng.uniform(0, cap * 0.9), 3), "maxp": rng.choice([3.3, 6.6, 7, 20, 50])}
    if two:
        b.update({"noise": 0, "ts": rng.choice([0.8, 0.5, 0.9]), "calc": rng.choice(["continuous", "stepwise"])})
    return b


def _gen_sessions(rng, station_ids, horizon, max_sessions):
    k = rng.randint(1, max_sessions)
    sessions = []
    busy = {}
    mode = rng.random()
    if mode < 0.3 and len(station_ids) >= 2 and horizon >= 4:
        # front-/back-loaded: the aggregate peak sits strictly in the FIRST (resp. LAST charging) period
        front = mode < 0.15
        sts = rng.sample(station_ids, min(len(station_ids), max(2, k)))
        for j, st in enumerate(sts):
            if front:
                arr, dep = 0, (1 if j == 0 else rng.randint(2, horizon - 1))
            else:
                arr, dep = (horizon - 2 if j == 0 else rng.randint(0, horizon - 3)), horizon - 1
            sessions.append({"session": f"s{j}", "station": st, "arrival": arr, "departure": dep,
                             "requested": 60.0, "batt": {"two": False, "cap": 100, "init": 0, "maxp": 50}})
        return sessions
    for j in range(k):
        st = rng.choice(station_ids)
        a0 = busy.get(st, 0)
        if a0 >= horizon - 1:
            continue
        arr = rng.randint(a0, horizon - 2)
        dep = rng.randint(arr + 1, horizon - 1)
        busy[st] = dep
        req = rng.choice([round(rng.uniform(0.2, 30), 3), 0.5, 2.0, 10.0])
        if rng.random() < 0.3:
            # requests around the DEFAULT threshold of proportion_of_demands_met (0.1 kWh): a session that is never (or hardly)
            # charged then has its remaining demand just below / at / just above the default, and within a factor 2 of it
            req = rng.choice([0.03, 0.05, 0.0625, 0.07, 0.099, 0.1, 0.1000001, 0.101, 0.125, 0.15, 0.19, 0.2])
        sessions.append({"session": f"s{j}", "station": st, "arrival": arr, "departure": dep,
                         "requested": req, "batt": _gen_batt(rng)})
    if not sessions:
        sessions.append({"session": "s0", "station": station_ids[0], "arrival": 0, "departure": horizon - 1,
                         "requested": 5.0, "batt": _gen_batt(rng)})
    # make sure the horizon is reached by somebody (5-40 periods)
    return sessions


def _gen_start(rng):
    # summer dates only (one tariff file has a known winter defect, F10 / C17)
    return {"y": 2019, "mo": rng.choice([6, 7, 8, 9]), "d": rng.randint(1, 28), "h": rng.randint(0, 23),
            "mi": rng.choice([0, 0, 15, 30, 59, 7]), "s": rng.choice([0, 0, 0, 30]),
            "tz": rng.choice([None, None, "America/Los_Angeles", "UTC"])}


def _gen_queries(rng, names, T, sites_phases=None, ghosts=()):
    qs = []
    k = len(names)
    unknown = ["nope", "", "A ", "b"] + 3 * list(ghosts)   # ids that were removed / renamed away are unknown ids
    subsets = []
    if k <= 6:
        for r in range(0, k + 1):
            for comb in itertools.combinations(names, r):
                subsets.append(list(comb))
    else:
        for _ in range(12):
            subsets.append(rng.sample(names, rng.randint(1, min(6, k))))
    for sub in subsets:
        sub = list(sub)
        rng.shuffle(sub)
        qs.append({"q": "cc", "req": sub, "ti": None, "mag": rng.random() < 0.7})
    # permutations, multiplicities, unknown ids, None
    for _ in range(6):
        m = rng.randint(1, min(k, 5) + 2)
        req = [rng.choice(names) for _ in range(m)]
        if rng.random() < 0.3:
            req.insert(rng.randint(0, len(req)), rng.choice(unknown))
        qs.append({"q": "cc", "req": req, "ti": None, "mag": rng.random() < 0.5})
    # names that used to denote a constraint (removed / renamed away) are unknown ids now: alone, next to a few
    # live ids, and next to ALL live ids, at both levels
    gl = list(dict.fromkeys(ghosts))
    rng.shuffle(gl)
    for g in gl[:3]:
        req = rng.sample(names, rng.randint(1, min(k, 3)))
        req.insert(rng.randint(0, len(req)), g)
        qs.append({"q": "cc", "req": req, "ti": None, "mag": rng.random() < 0.5})
        req = list(names) + [g]
        rng.shuffle(req)
        qs.append({"q": "cc", "req": req, "ti": None, "mag": rng.random() < 0.5})
        qs.append({"q": "net", "req": [g] if rng.random() < 0.5 else [g, rng.choice(names)], "ti": None})
    full = list(names)
    rng.shuffle(full)
    qs.append({"q": "cc", "req": full, "ti": None, "mag": False, "as": "tuple"})
    qs.append({"q": "cc", "req": list(reversed(names)), "ti": None, "mag": True})
    qs.append({"q": "cc", "req": None, "ti": None, "mag": True})
    qs.append({"q": "cc", "req": None, "ti": None, "mag": False})
    # network-level with time indices
    for _ in range(5):
        req = None if rng.random() < 0.2 else [rng.choice(names) for _ in range(rng.randint(1, min(k, 4) + 1))]
        if req is not None and rng.random() < 0.35:
            req.insert(rng.randint(0, len(req)), rng.choice(unknown))
        r = rng.random()
        if r < 0.15:
            ti = None
        else:
            ti = [rng.randint(-T, T - 1) for _ in range(rng.randint(0, 6))]
            if r > 0.9:
                ti.insert(rng.randint(0, len(ti)), rng.choice([T, -T - 1, T + 3]))
        qs.append({"q": "net", "req": req, "ti": ti})
    # NEMA
    triples = []
    if sites_phases:
        triples.extend(sites_phases)
    for _ in range(4):
        triples.append([rng.choice(names) for _ in range(3)])
    if k >= 3:
        triples.append(rng.sample(names, 3))
    r = rng.random()
    if r < 0.3:
        triples.append([rng.choice(names), rng.choice(unknown), rng.choice(names)])
    elif r < 0.5:
        triples.append([rng.choice(names) for _ in range(rng.choice([1, 2, 4]))])
    elif r < 0.55:
        triples.append([])
    for tr in triples:
        qs.append({"q": "nema", "ids": tr})
    # the keywords of current_unbalance: `unbalance_type` (only "NEMA" is accepted) and the deprecated `type`, which
    # REPLACES unbalance_type when it is not None
    good = triples[0] if triples and len(triples[0]) == 3 else [rng.choice(names) for _ in range(3)]
    for ut, ty in [("NEMA", "NEMA"), ("NEMA", rng.choice(["IEC", "nema", "", "IEEE"])), ("IEC", "NEMA"),
                   (rng.choice(["IEC", "nema", "Nema "]), None), ("IEC", rng.choice(["IEEE", "x"]))]:
        qs.append({"q": "nema", "ids": list(good), "ut": ut, "type": ty})
    for tn in rng.sample(TARIFFS, 2):
        qs.append({"q": "cost", "tariff": tn})
        qs.append({"q": "dc", "tariff": tn})
    # no tariff argument: the tariff comes from sim.signals["tariff"] (or there is no pricing method)
    qs.append({"q": "cost", "tariff": None})
    qs.append({"q": "dc", "tariff": None})
    return qs


def _gen_signals(rng):
    """`signals=` of the Simulator: absent (None), a dict without a tariff, a dict with one"""
    r = rng.random()
    if r < 0.2:
        return None
    if r < 0.4:
        return {"tariff": None}
    return {"tariff": rng.choice(TARIFFS)}


def _gen_simscript(rng, stations, sessions):
    """a scheduler INSIDE the domain of the full simulator model (lean/AcnModel/Sim.lean): period -> schedule dict
    (any subset of the stations, occupied or not, active EV or not; 1-3 periods long; pilots the EVSEs accept),
    `default` in the other periods; in 45 % of the cases schedule() raises once in some period k: the analysis is
    called on the UNFINISHED simulation and run() is called again"""
    last = max(x["departure"] for x in sessions)

    def pilot(st):
        return rng.choice([0, st["max"], st["max"], round(rng.uniform(0, st["max"]), 2), 8, 6.5])

    def sched(n):
        sub = [st for st in stations if rng.random() < 0.8] or [rng.choice(stations)]
        rng.shuffle(sub)
        return [[st["id"], [pilot(st) for _ in range(n)]] for st in sub]

    script = [{"t": t, "sched": sched(rng.choice([1, 1, 2, 3]))} for t in range(last + 1) if rng.random() < 0.85]
    out = {"t": "simscript", "default": sched(rng.choice([1, 2])), "script": script,
           "max_recompute": rng.choice([1, 1, 1, None, 3])}
    if rng.random() < 0.45:
        k = rng.choice([x["arrival"] for x in sessions] + [rng.randint(0, last), last])
        ent = next((e for e in script if e["t"] == k), None)
        if ent is None:
            ent = {"t": k, "sched": sched(1)}
            script.append(ent)
            script.sort(key=lambda e: e["t"])
        ent["fail"] = True
    return out


COEFFS = [1, 1, 1, -1, -1, 2, -2, 0.5, -0.5, 0.25, 0, 3]


def _mixed(loads):
    return loads is not None and len({math.copysign(1, v) for v in loads.values() if v != 0}) == 2


def _gen_loads(rng, ids, mixed=False):
    members = rng.sample(ids, rng.randint(2 if mixed else 1, len(ids)))
    loads = {m: rng.choice(COEFFS) for m in members}
    if mixed and not _mixed(loads):
        a, b = rng.sample(members, 2)
        loads[a], loads[b] = 1, -1
    return loads


# ---- constraint-list history, at the level of the API's documentation (independent of the code):
#   add(name)     appends a constraint; name None -> "_const_<number of constraints>"; a name already
#                 present -> name + "_v2" (with a warning)
#   remove(name)  deletes it, the others keep their relative order
#   update(name, ..., new_name) = remove(name) then add(new_name or name)
#   json          the network is replaced by ChargingNetwork.from_json(network.to_json())   (before the run)
#   simjson       the simulator is replaced by Simulator.from_json(sim.to_json())           (after the run)
# state = list of [name, loads]; loads None = "as shipped by the site" (taken from the pristine matrix)

def _spec_apply(state, op):
    state = [list(x) for x in state]
    names = [x[0] for x in state]
    kind = op["op"]
    if kind in ("json", "simjson"):
        return state
    if kind in ("remove", "update"):
        if op["name"] not in names:
            raise KeyError(op["name"])
        del state[names.index(op["name"])]
        names = [x[0] for x in state]
        if kind == "remove":
            return state
        nm = op.get("new_name") if op.get("new_name") is not None else op["name"]
    else:
        nm = op.get("name")
    if nm is None:
        nm = "_const_{0}".format(len(names))
    if nm in names:
        nm += "_v2"
    state.append([nm, dict(op["loads"])])
    return state


def _spec_state(ops, init=None):
    state = [[n, None] for n in (init or [])]
    for op in ops:
        state = _spec_apply(state, op)
    return state


def _case_ops(case):
    """(initial names or None, ops before the run, ops after the run) — old-style cases have `constraints` only"""
    if "build" in case:
        pre = case["build"]
    elif case["kind"] == "custom":
        pre = [{"op": "add", "name": c["name"], "loads": c["loads"], "limit": c["limit"]} for c in case["constraints"]]
    else:
        pre = []
    return pre, case.get("post", [])


TAILS = ["none", "none", "add", "remove_first", "remove_mid", "remove_mid", "remove_last", "update", "rename", "json"]


def _gen_op(rng, state, ids, kind, ghosts):
    """one valid op of the given kind on `state` (None when impossible); never produces a duplicate name"""
    names = [x[0] for x in state]
    limit = rng.choice([50, 100, 1000, 20])
    if kind in ("json", "simjson"):
        return {"op": kind}
    if kind == "add":
        r = rng.random()
        free = [n for n in NAME_POOL if n not in names]
        if r < 0.12:
            nm = None
        elif r < 0.24 and names:
            nm = rng.choice(names)          # duplicate -> "_v2"
        elif r < 0.4 and [g for g in ghosts if g not in names]:
            nm = rng.choice([g for g in ghosts if g not in names])   # a name that was removed earlier comes back
        elif free:
            nm = rng.choice(free)
        else:
            return None
        op = {"op": "add", "name": nm, "loads": _gen_loads(rng, ids, rng.random() < 0.4), "limit": limit}
    elif kind.startswith("remove"):
        if not names:
            return None
        if kind == "remove_first":
            v = names[0]
        elif kind == "remove_last":
            v = names[-1]
        elif kind == "remove_mid":
            v = rng.choice(names[1:-1] if len(names) > 2 else names[:-1] if len(names) > 1 else names)
        else:
            v = rng.choice(names)
        op = {"op": "remove", "name": v}
    elif kind in ("update", "rename"):
        if not names:
            return None
        v = rng.choice(names[:-1] if len(names) > 1 and rng.random() < 0.7 else names)
        new = None
        if kind == "rename":
            cand = [n for n in NAME_POOL if n not in names] + [g for g in ghosts if g not in names]
            if rng.random() < 0.15 and len(names) > 1:
                cand = [n for n in names if n != v]   # renamed onto an existing name -> "_v2"
            if not cand:
                return None
            new = rng.choice(cand)
        op = {"op": "update", "name": v, "loads": _gen_loads(rng, ids, rng.random() < 0.4), "limit": limit, "new_name": new}
    else:
        raise ValueError(kind)
    try:
        after = [x[0] for x in _spec_apply(state, op)]
    except KeyError:
        return None
    if len(set(after)) != len(after):
        return None
    return op


def _gen_history(rng, ids, k, init=None, lo=2, hi=6):
    """ops that leave between lo and hi (about k) distinct constraints; the LAST op is drawn from TAILS so that
    every kind of edit is, often, the most recent thing that happened to the constraint list before the run"""
    state = [[n, None] for n in (init or [])]
    ops = []
    ghosts = []
    if init is not None:
        hi = len(init) + 3

    def push(kind):
        op = _gen_op(rng, state, ids, kind, ghosts)
        if op is None:
            return False
        before = {x[0] for x in state}
        state[:] = _spec_apply(state, op)
        ghosts.extend(sorted(before - {x[0] for x in state}))
        ops.append(op)
        return True

    if init is None:
        for _ in range(200):
            if len(state) >= k:
                break
            push("add")
        if rng.random() < 0.25:     # the plain case: constraints only ever added
            return ops, state, ghosts, "none"
    walk = rng.choice([0, 0, 1, 2, 3, 5]) if init is None else rng.choice([0, 1, 2, 3])
    for _ in range(walk):
        n = len(state)
        kinds = ["update", "rename"]
        if n < hi + 1:
            kinds += ["add", "add"]
        if n > lo:
            kinds += ["remove", "remove", "remove_first"]
        if rng.random() < 0.1:
            kinds = ["json"]
        push(rng.choice(kinds))
    if init is None and not any(_mixed(x[1]) for x in state):
        ops_before = len(ops)
        if len(state) < hi:
            op = {"op": "add", "name": rng.choice([n for n in NAME_POOL if n not in [x[0] for x in state]]),
                  "loads": _gen_loads(rng, ids, True), "limit": 100}
        else:
            op = {"op": "update", "name": state[0][0], "loads": _gen_loads(rng, ids, True), "limit": 100, "new_name": None}
        state[:] = _spec_apply(state, op)
        ops.append(op)
        assert len(ops) == ops_before + 1
    tail = rng.choice(TAILS)
    if tail.startswith("remove"):
        for _ in range(200):
            if len(state) >= max(lo + 1, 3):
                break
            push("add")
    for _ in range(200):
        if len(state) <= (hi + 1 if tail.startswith("remove") else hi):
            break
        push("remove")
    if tail == "add" and len(state) >= hi:
        tail = "update"
    if tail != "none":
        push(tail)
    return ops, state, ghosts, tail


def _gen_post(rng, state, ids, ghosts, lo=2, hi=7):
    """0-2 edits AFTER the run (the analysis describes the network as it is when it is called)"""
    ops = []
    state = [list(x) for x in state]
    ghosts = list(ghosts)
    if rng.random() < 0.65:
        return ops, state, ghosts
    for _ in range(rng.choice([1, 1, 2])):
        kinds = ["update", "rename", "simjson", "simjson"]
        if len(state) > lo:
            kinds += ["remove_first", "remove_mid", "remove_mid", "remove_last"]
        if len(state) < hi:
            kinds += ["add"]
        op = _gen_op(rng, state, ids, rng.choice(kinds), ghosts)
        if op is None:
            continue
        before = {x[0] for x in state}
        state = _spec_apply(state, op)
        ghosts.extend(sorted(before - {x[0] for x in state}))
        ops.append(op)
    return ops, state, ghosts


def _gen_early(rng, names):
    """a few constraint_currents calls made after the run but BEFORE the post-run edits"""
    out = [{"req": None, "mag": True}]
    for _ in range(3):
        req = rng.sample(names, rng.randint(1, min(len(names), 4)))
        out.append({"req": req, "mag": rng.random() < 0.5})
    return out


def _gen_custom(rng, tier):
    n = rng.randint(3, 8)
    horizon = rng.randint(5, 40)
    volt_pool = [208, 240, 120, 277, 207.84609690826528, 480, 208]
    ang_pool = [30, -90, 150, 0, 120, -120, 45.5, 30, -90, 150]
    stations = []
    for i in range(n):
        stations.append({"id": f"S{i}" if rng.random() < 0.8 else f"ev-{i:02d}",
                         "V": rng.choice(volt_pool), "angle": rng.choice(ang_pool),
                         "max": rng.choice([32, 32, 16, 80])})
    # guarantee heterogeneity
    stations[0]["V"], stations[1]["V"] = 208, 240
    stations[0]["angle"], stations[1]["angle"], stations[2]["angle"] = 30, -90, 150
    rng.shuffle(stations)
    ids = [s["id"] for s in stations]
    k = rng.randint(2, 6)
    build, state, ghosts, tail = _gen_history(rng, ids, k)
    sessions = _gen_sessions(rng, ids, horizon, min(n, 8))
    r = rng.random()
    if r < 0.3:
        sched = {"t": "uncontrolled"}
    elif r < 0.8:
        sched = _gen_simscript(rng, stations, sessions)
    else:
        sched = {"t": "scripted", "pilots": {s["id"]: [rng.choice([0, s["max"], round(rng.uniform(0, s["max"]), 2), 8, 6.5])
                                                      for _ in range(horizon)] for s in stations}}
    post, final, ghosts2 = _gen_post(rng, state, ids, ghosts)
    T = max(s["departure"] for s in sessions) + 1
    names = [x[0] for x in final]
    return {"kind": "custom", "stations": stations, "build": build, "post": post,
            "early": _gen_early(rng, [x[0] for x in state]) if post else [],
            "sessions": sessions, "signals": _gen_signals(rng),
            "period": rng.choice([1, 5, 5, 15, 3, 60, 0.5, 2.5]), "start": _gen_start(rng), "sched": sched,
            "thresholds": [0.1, 0, 1e-3, rng.choice([0.5, 5, 50, -1])],
            "queries": _gen_queries(rng, names, T, ghosts=[g for g in ghosts2 if g not in names])}


_SITE_CACHE = {}


def _site_info(site, voltage):
    key = (site, voltage)
    if key not in _SITE_CACHE:
        net = _make_site(site, voltage)
        _SITE_CACHE[key] = (list(net.station_ids), list(net.constraint_index))
    return _SITE_CACHE[key]


def _gen_site(rng, tier):
    site = rng.choice(SITES)
    voltage = rng.choice([208, 208, 220, 240])
    st_ids, names0 = _site_info(site, voltage)
    horizon = rng.randint(5, 20)
    used = rng.sample(st_ids, min(len(st_ids), 6))
    sessions = _gen_sessions(rng, used, horizon, 5)
    T = max(s["departure"] for s in sessions) + 1
    build, state, ghosts, post = [], [[n, None] for n in names0], [], []
    if rng.random() < 0.6:
        # the shipped constraint list edited before the run (a panel removed / re-rated / added)
        pool = used + rng.sample(st_ids, min(len(st_ids), 4))
        build, state, ghosts, _ = _gen_history(rng, sorted(set(pool)), len(names0), init=names0, lo=len(names0) - 3)
        if rng.random() < 0.4:
            post, state2, ghosts = _gen_post(rng, state, sorted(set(pool)), ghosts, lo=len(names0) - 3, hi=len(names0) + 4)
        else:
            state2 = state
    else:
        state2 = state
    names = [x[0] for x in state2]
    phases = []
    for cand in (["Secondary A", "Secondary B", "Secondary C"], ["Primary A", "Primary B", "Primary C"],
                 ["Third Floor Primary A", "Third Floor Primary B", "Third Floor Primary C"]):
        if all(c in names for c in cand):
            phases.append(cand)
            phases.append(list(reversed(cand)))
    return {"kind": "site", "site": site, "voltage": voltage, "build": build, "post": post,
            "early": _gen_early(rng, [x[0] for x in state]) if post else [],
            "sessions": sessions, "signals": _gen_signals(rng),
            "period": rng.choice([5, 5, 1, 15]), "start": _gen_start(rng), "sched": {"t": "uncontrolled"},
            "thresholds": [0.1, 0, rng.choice([0.5, 5, 50])],
            "queries": _gen_queries(rng, names, T, phases, ghosts=[g for g in ghosts if g not in names])}


def corpus():
    """targeted scenarios: equal-looking rows under different names requested in reverse order;
    an all-zero period (NEMA 0/0); a zero-request total; a single period."""
    base_start = {"y": 2019, "mo": 7, "d": 1, "h": 8, "mi": 0, "s": 0, "tz": None}
    st = [{"id": "S0", "V": 208, "angle": 30, "max": 32}, {"id": "S1", "V": 240, "angle": -90, "max": 32},
          {"id": "S2", "V": 120, "angle": 150, "max": 32}, {"id": "S3", "V": 277, "angle": 0, "max": 32}]
    cons = [{"name": "BC", "loads": {"S1": 1, "S2": -1, "S3": 0.5}, "limit": 50},
            {"name": "AB", "loads": {"S0": 1, "S1": -1}, "limit": 50},
            {"name": "all", "loads": {"S0": 1, "S1": 1, "S2": 1, "S3": 1}, "limit": 500}]
    sess = [{"session": "s0", "station": "S0", "arrival": 0, "departure": 6, "requested": 5.0, "batt": {"two": False, "cap": 40, "init": 0, "maxp": 7}},
            {"session": "s1", "station": "S1", "arrival": 1, "departure": 4, "requested": 2.0, "batt": {"two": False, "cap": 40, "init": 0, "maxp": 7}},
            {"session": "s3", "station": "S3", "arrival": 2, "departure": 8, "requested": 30.0, "batt": {"two": False, "cap": 40, "init": 0, "maxp": 7}}]
    qs = [{"q": "cc", "req": ["all", "AB"], "ti": None, "mag": True}, {"q": "cc", "req": ["AB", "BC"], "ti": None, "mag": False},
          {"q": "cc", "req": ["all", "BC", "all"], "ti": None, "mag": True}, {"q": "cc", "req": None, "ti": None, "mag": True},
          {"q": "net", "req": ["AB", "BC"], "ti": [3, -1, 3]}, {"q": "net", "req": ["all"], "ti": [9]},
          {"q": "nema", "ids": ["AB", "BC", "all"]}, {"q": "nema", "ids": ["all", "AB", "BC"]}, {"q": "nema", "ids": ["AB", "x", "all"]},
          {"q": "cost", "tariff": "sce_tou_ev_4_march_2019"}, {"q": "dc", "tariff": "sce_tou_ev_4_march_2019"},
          {"q": "cost", "tariff": "pge_a10_tou_aug_2019"}, {"q": "dc", "tariff": "pge_a10_tou_aug_2019"}]
    c1 = {"kind": "custom", "stations": st, "constraints": cons, "sessions": sess, "period": 5, "start": base_start,
          "sched": {"t": "uncontrolled"}, "thresholds": [0.1, 0, 1.6720000000000002, 28], "queries": qs}
    c2 = dict(c1)
    c2["sessions"] = [{"session": "z", "station": "S2", "arrival": 0, "departure": 1, "requested": 0.0,
                       "batt": {"two": False, "cap": 40, "init": 0, "maxp": 7}}]
    c2["queries"] = qs[:4] + [{"q": "nema", "ids": ["AB", "BC", "all"]}, {"q": "dc", "tariff": "sce_tou_ev_8_june_2019"}]
    c2["period"] = 15
    c2["start"] = {"y": 2019, "mo": 8, "d": 31, "h": 23, "mi": 59, "s": 30, "tz": "America/Los_Angeles"}
    # constraint lists with a HISTORY: the last thing that happened before the run is the removal of the first
    # constraint (every later one moves up a row); edits after the run with calls before and after them;
    # a re-used name; JSON round trips of the network and of the finished simulation
    hq = [{"q": "cc", "req": ["all"], "ti": None, "mag": True}, {"q": "cc", "req": ["all", "AB"], "ti": None, "mag": False},
          {"q": "cc", "req": ["AB"], "ti": None, "mag": True}, {"q": "cc", "req": ["BC", "AB"], "ti": None, "mag": True},
          {"q": "cc", "req": None, "ti": None, "mag": True}, {"q": "net", "req": ["all"], "ti": [3, -1]},
          {"q": "nema", "ids": ["AB", "all", "AB"]}, {"q": "cc", "req": ["all", "BC"], "ti": None, "mag": True, "as": "tuple"}]
    adds = [{"op": "add", "name": c["name"], "loads": c["loads"], "limit": c["limit"]} for c in cons]
    c3 = {k: v for k, v in c1.items() if k != "constraints"}
    c3.update({"build": adds + [{"op": "remove", "name": "BC"}], "post": [], "early": [], "queries": hq})
    c4 = dict(c3)
    c4.update({"build": adds + [{"op": "json"}],
               "post": [{"op": "remove", "name": "AB"}, {"op": "simjson"}],
               "early": [{"req": None, "mag": True}, {"req": ["all", "AB"], "mag": False}],
               "queries": [q for q in hq if q["q"] != "nema"] + [{"q": "nema", "ids": ["BC", "all", "BC"]}]})
    c5 = dict(c3)
    c5.update({"build": adds + [{"op": "update", "name": "BC", "loads": {"S0": -1, "S3": 2}, "limit": 40, "new_name": None},
                                {"op": "remove", "name": "AB"},
                                {"op": "add", "name": "AB", "loads": {"S2": 1, "S3": -0.5}, "limit": 30},
                                {"op": "add", "name": None, "loads": {"S1": 1}, "limit": 30},
                                {"op": "add", "name": "all", "loads": {"S0": 0.25, "S1": -2}, "limit": 30},
                                {"op": "remove", "name": "all"}],
               "post": [{"op": "update", "name": "BC", "loads": {"S1": 1, "S2": -1}, "limit": 40, "new_name": "Z"}],
               "early": [{"req": ["BC", "all_v2"], "mag": True}],
               "queries": [{"q": "cc", "req": ["Z", "all_v2", "BC", "_const_3", "all"], "ti": None, "mag": True},
                           {"q": "cc", "req": ["AB", "Z"], "ti": None, "mag": False},
                           {"q": "cc", "req": None, "ti": None, "mag": False},
                           {"q": "net", "req": ["_const_3", "AB"], "ti": None},
                           {"q": "nema", "ids": ["Z", "AB", "all_v2"]}, {"q": "nema", "ids": ["Z", "BC", "AB"]}]})
    return [c1, c2, c3, c4, c5]


def generate(rng, n, tier):
    out = []
    for i in range(n):
        if i % 10 == 9:
            out.append(_gen_site(rng, tier))
        else:
            out.append(_gen_custom(rng, tier))
    return out


# ------------------------------------------------------------------ implementation

def _make_site(site, voltage):
    from acnportal.acnsim.network import sites
    if site == "caltech":
        return sites.caltech_acn(basic_evse=True, voltage=voltage)
    if site == "jpl":
        return sites.jpl_acn(basic_evse=True, voltage=voltage)
    return sites.office001_acn(basic_evse=True, voltage=voltage)


def _start_dt(s):
    dt = datetime(s["y"], s["mo"], s["d"], s["h"], s["mi"], s["s"])
    if s.get("tz"):
        import pytz
        dt = pytz.timezone(s["tz"]).localize(dt)
    return dt


def _c(z):
    return [float(np.real(z)), float(np.imag(z))]


def _signals_after(case):
    """`sim.signals` when the analysis is called: what the case passed as `signals=`; a Simulator JSON round trip keeps
    natively serialisable signals only (simulator.py:372-404: a tariff OBJECT is dropped, with a warning, and the
    attribute comes back as None)"""
    sg = case.get("signals")
    if sg is None:
        return None
    if sg.get("tariff") and any(op["op"] == "simjson" for op in case.get("post", [])):
        return None
    return sg


def _err(e):
    if isinstance(e, IndexError):
        return "IndexError"
    if isinstance(e, ZeroDivisionError):
        return "ZeroDivision"
    return I.err_name(e)


def _undef(x):
    """a zero total divided by zero: ZeroDivisionError (Python numbers) or inf/nan (numpy scalars)"""
    x = float(x)
    return {"err": "ZeroDivision"} if not math.isfinite(x) else {"ok": x}


def run_impl(case):
    from acnportal.acnsim import Simulator, EventQueue, PluginEvent, analysis
    from acnportal.acnsim.network import ChargingNetwork, Current
    from acnportal.acnsim.models import EVSE
    from acnportal.algorithms import UncontrolledCharging, BaseAlgorithm
    from acnportal.signals.tariffs import TimeOfUseTariff

    if case["kind"] == "custom":
        net = ChargingNetwork()
        for s in case["stations"]:
            net.register_evse(EVSE(s["id"], max_rate=s["max"]), s["V"], s["angle"])
    else:
        net = _make_site(case["site"], case["voltage"])
    names0 = list(net.constraint_index)
    M0 = None if net.constraint_matrix is None else np.array(net.constraint_matrix, dtype=float).tolist()
    pre_ops, post_ops = _case_ops(case)

    def edit(net, op):
        if op["op"] == "add":
            net.add_constraint(Current(dict(op["loads"])), op["limit"], name=op["name"])
        elif op["op"] == "remove":
            net.remove_constraint(op["name"])
        elif op["op"] == "update":
            net.update_constraint(op["name"], Current(dict(op["loads"])), op["limit"], new_name=op.get("new_name"))
        elif op["op"] == "json":
            net = ChargingNetwork.from_json(net.to_json())
        else:
            raise RuntimeError(op["op"])
        return net

    for op in pre_ops:
        net = edit(net, op)

    evs = [I.make_ev(s) for s in case["sessions"]]
    queue = EventQueue([PluginEvent(e.arrival, e) for e in evs])

    if case["sched"]["t"] == "uncontrolled":
        sch = UncontrolledCharging()
    elif case["sched"]["t"] == "scripted":
        pilots = case["sched"]["pilots"]

        class Scripted(BaseAlgorithm):
            def __init__(self):
                super().__init__()
                self.max_recompute = 1

            def schedule(self, active_sessions):
                t = self.interface.current_time
                return {s.station_id: [pilots[s.station_id][t % len(pilots[s.station_id])]] for s in active_sessions}

        sch = Scripted()
    if case["sched"]["t"] == "simscript":
        sch = S.ScriptedAlgo(case["sched"]["script"], case["sched"]["default"])
        sch.max_recompute = case["sched"].get("max_recompute")
    start = _start_dt(case["start"])
    tariffs = {}

    def tariff(tn):
        if tn not in tariffs:
            tariffs[tn] = TimeOfUseTariff(tn)
        return tariffs[tn]

    sg = case.get("signals")
    kw = {}
    if sg is not None:
        kw["signals"] = {"tariff": tariff(sg["tariff"])} if sg.get("tariff") else {}
    sim = Simulator(net, sch, queue, start, period=case["period"], verbose=False, **kw)
    epoch = np.datetime64("1970-01-01T00:00:00.000000")

    def dt_call():
        """datetimes_array(sim) with its warning recorded"""
        with warnings.catch_warnings(record=True) as w:
            warnings.simplefilter("always")
            d = analysis.datetimes_array(sim)
        return {"us": [int((x - epoch) / np.timedelta64(1, "us")) for x in d],
                "warned": any(issubclass(x.category, UserWarning) and "incomplete" in str(x.message) for x in w),
                "iter": int(sim.iteration), "queue_empty": bool(sim.event_queue.empty())}

    pre = dt_call()                       # before run(): nothing simulated yet
    unfinished = None
    try:
        sim.run()
    except S.SchedulerFailure:
        # the analysis of an UNFINISHED simulation, then run() is called again (C02 / C09: it resumes)
        unfinished = dt_call()
        unfinished["agg_current"] = [float(x) for x in analysis.aggregate_current(sim)]
        unfinished["peak"] = float(sim.peak)
        # EVERY analysis function is asked once on the unfinished simulation (whatever it answers now, what it answers
        # after the run has been completed is judged from first principles below: nothing may be remembered per simulator)
        unfinished["agg_power"] = [float(x) for x in analysis.aggregate_power(sim)]
        unfinished["rates"] = [[float(x) for x in row] for row in sim.charging_rates]
        touched = []
        for fn, args in ((analysis.total_energy_delivered, ()), (analysis.total_energy_requested, ()),
                         (analysis.proportion_of_energy_delivered, ()), (analysis.proportion_of_demands_met, ()),
                         (analysis.constraint_currents, ()), (analysis.constraint_currents, (True,)),
                         (analysis.energy_cost, ()), (analysis.demand_charge, ())):
            try:
                with warnings.catch_warnings():
                    warnings.simplefilter("ignore")
                    fn(sim, *args)
                touched.append(fn.__name__)
            except Exception:  # noqa: BLE001  (no tariff, 0/0 …: the answer on the unfinished run is not judged)
                pass
        unfinished["touched"] = touched
        sim.run()
    assert sim.event_queue.empty()
    peak = float(sim.peak)
    P = np.array(sim.pilot_signals, dtype=float).tolist()

    def cc_call(req, mag, as_tuple=False):
        # NOTE the flag's polarity is inverted in the code (DESIGN §8): True -> complex
        ids_arg = None if req is None else (tuple(req) if as_tuple else list(req))
        d = analysis.constraint_currents(sim, return_magnitudes=not mag, constraint_ids=ids_arg)
        if mag:
            return {"ok": sorted([k, [float(x) for x in v]] for k, v in d.items()),
                    "dtype_complex": bool(any(np.iscomplexobj(v) for v in d.values()))}
        return {"ok": sorted([k, [_c(x) for x in v]] for k, v in d.items())}

    # calls made BEFORE the post-run edits (they must not influence what is answered after the edits)
    early = []
    for q in case.get("early", []):
        try:
            early.append(cc_call(q["req"], q["mag"]))
        except (KeyError, IndexError, ValueError, ZeroDivisionError, TypeError) as e:
            early.append({"err": _err(e)})
    for op in post_ops:
        if op["op"] == "simjson":
            sim = Simulator.from_json(sim.to_json())
        else:
            edit(sim.network, op)
    net = sim.network

    R = np.array(sim.charging_rates, dtype=float)
    ang = np.exp(1j * np.deg2rad(net._phase_angles))
    hist = list(sim.ev_history.values())
    raw = {
        "station_ids": list(net.station_ids), "R": R.tolist(), "T": int(R.shape[1]),
        "V": [float(v) for v in net._voltages], "angles": [float(a) for a in net._phase_angles],
        "cos": [float(z.real) for z in ang], "sin": [float(z.imag) for z in ang],
        "M": np.array(net.constraint_matrix, dtype=float).tolist(), "names": list(net.constraint_index),
        "evs": [[ev.session_id, float(ev.requested_energy), float(ev.energy_delivered), float(ev.remaining_demand)] for ev in hist],
        "iteration": int(sim.iteration), "period": case["period"],
        "M_dtype": str(np.asarray(net.constraint_matrix).dtype),
        "names0": names0, "M0": M0,
    }
    naive = start.replace(tzinfo=None)
    raw["peak"], raw["P"] = peak, P
    raw["limits"] = [float(x) for x in net.magnitudes]
    raw["start_us"] = int((np.datetime64(naive) - epoch) / np.timedelta64(1, "us"))

    obs = {"raw": raw, "early": early, "pre": pre, "unfinished": unfinished}
    obs["agg_current"] = [float(x) for x in analysis.aggregate_current(sim)]
    obs["agg_power"] = [float(x) for x in analysis.aggregate_power(sim)]
    obs["tot_req"] = float(analysis.total_energy_requested(sim))
    obs["tot_del"] = float(analysis.total_energy_delivered(sim))
    try:
        obs["prop"] = _undef(analysis.proportion_of_energy_delivered(sim))
    except Exception as e:  # noqa
        obs["prop"] = {"err": _err(e)}
    # thresholds: the case's, plus each session's remaining demand and its neighbours
    thr = [float(t) for t in case["thresholds"]]
    for ev in hist[:4]:
        r = float(ev.remaining_demand)
        thr.extend([r, r + 1e-6, r - 1e-6])
    obs["thresholds"] = thr
    met = []
    for t in thr:
        try:
            met.append(_undef(analysis.proportion_of_demands_met(sim, t)))
        except Exception as e:  # noqa
            met.append({"err": _err(e)})
    obs["met"] = met
    try:
        obs["met_default"] = _undef(analysis.proportion_of_demands_met(sim))
    except Exception as e:  # noqa
        obs["met_default"] = {"err": _err(e)}
    fin = dt_call()
    obs["datetimes_us"] = fin["us"]
    obs["datetimes_warned"] = fin["warned"]

    answers = []
    for q in case["queries"]:
        kind = q["q"]
        try:
            if kind == "cc":
                a = cc_call(q["req"], q["mag"], q.get("as") == "tuple")
            elif kind == "net":
                m = net.constraint_current(sim.charging_rates, constraints=None if q["req"] is None else list(q["req"]),
                                           time_indices=None if q["ti"] is None else list(q["ti"]))
                a = {"ok": [[_c(x) for x in row] for row in np.asarray(m)]}
            elif kind == "nema":
                kws = {}
                if "ut" in q:
                    kws["unbalance_type"] = q["ut"]
                if q.get("type") is not None:
                    kws["type"] = q["type"]
                with warnings.catch_warnings(record=True) as w:
                    warnings.simplefilter("always")
                    try:
                        u = analysis.current_unbalance(sim, list(q["ids"]), **kws)
                        a = {"ok": [I.enc(float(x)) for x in u]}
                    except (KeyError, IndexError, ValueError, ZeroDivisionError, TypeError) as e:
                        a = {"err": _err(e)}
                a["deprecation"] = any(issubclass(x.category, DeprecationWarning) for x in w)
            elif kind in ("cost", "dc"):
                # the model's inputs: what the argument's tariff and the signal's tariff say (by NAME, fresh lookups)
                sga = _signals_after(case)
                names_ = {"arg": q["tariff"], "sig": (sga or {}).get("tariff")}
                a = {}
                for tag, tn in names_.items():
                    if tn:
                        a["prices_" + tag] = [float(p) for p in tariff(tn).get_tariffs(start, R.shape[1], case["period"])]
                        a["dc_" + tag] = float(tariff(tn).get_demand_charge(start))
                eff = names_["arg"] or names_["sig"]
                if eff:
                    a["prices_scalar"] = [float(tariff(eff).get_tariff(start + timedelta(minutes=case["period"] * t)))
                                          for t in range(R.shape[1])]
                    a["dc"] = a["dc_arg"] if names_["arg"] else a["dc_sig"]
                arg = tariff(q["tariff"]) if q["tariff"] else None
                try:
                    if kind == "cost":
                        a["ok"] = float(analysis.energy_cost(sim, arg) if arg is not None else analysis.energy_cost(sim))
                    else:
                        a["ok"] = float(analysis.demand_charge(sim, arg) if arg is not None else analysis.demand_charge(sim))
                except (KeyError, IndexError, ValueError, ZeroDivisionError, TypeError) as e:
                    a["err"] = _err(e)
            else:
                raise RuntimeError(kind)
        except (KeyError, IndexError, ValueError, ZeroDivisionError, TypeError) as e:
            a = {"err": _err(e)}
        answers.append(a)
    obs["answers"] = answers
    # default-argument call (no ids, default flag): magnitudes for every constraint
    try:
        d = analysis.constraint_currents(sim)
        obs["cc_default"] = sorted([k, [float(x) for x in v]] for k, v in d.items())
    except (KeyError, IndexError, ValueError, ZeroDivisionError, TypeError) as e:
        obs["cc_default"] = {"err": _err(e)}
    return obs


# ------------------------------------------------------------------ model

def model_request(case, obs):
    if "raw" not in obs:
        return None
    raw = obs["raw"]
    qs = []
    for q, a in zip(case["queries"], obs["answers"]):
        if q["q"] == "cc":
            qs.append({"q": "cc", "req": q["req"], "ti": q["ti"], "mag": q["mag"]})
        elif q["q"] == "net":
            qs.append({"q": "net", "req": q["req"], "ti": q["ti"]})
        elif q["q"] == "nema":
            qs.append({"q": "nema", "ids": q["ids"], "ut": q.get("ut", "NEMA"), "type": q.get("type")})
        elif q["q"] == "cost":
            qs.append({"q": "cost", "signals": _signals_after(case) is not None,
                       "prices_arg": [f2b(p) for p in a["prices_arg"]] if "prices_arg" in a else None,
                       "prices_sig": [f2b(p) for p in a["prices_sig"]] if "prices_sig" in a else None})
        elif q["q"] == "dc":
            qs.append({"q": "dc", "signals": _signals_after(case) is not None,
                       "dc_arg": f2b(a["dc_arg"]) if "dc_arg" in a else None,
                       "dc_sig": f2b(a["dc_sig"]) if "dc_sig" in a else None})
    return {
        "sim": _sim_request(case),
        "T": raw["T"], "R": [[f2b(x) for x in row] for row in raw["R"]], "V": [f2b(x) for x in raw["V"]],
        "c": [f2b(x) for x in raw["cos"]], "s": [f2b(x) for x in raw["sin"]],
        "M": [[f2b(x) for x in row] for row in raw["M"]], "names": raw["names"],
        "evs": [[f2b(e[1]), f2b(e[2])] for e in raw["evs"]],
        "start": f2b(raw["start_us"] / 6e7), "period": f2b(raw["period"]), "iters": raw["iteration"],
        "thresholds": [f2b(t) for t in obs["thresholds"]], "queries": qs,
    }


def _sim_case(case):
    """the scenario in the vocabulary of core.simcase (None when it lies outside the domain of the simulator model:
    real algorithms, shipped sites)"""
    if case["kind"] != "custom" or case["sched"]["t"] != "simscript":
        return None
    return {"stations": [{"id": st["id"], "kind": {"t": "cont", "min": 0, "max": st["max"]}, "V": st["V"]}
                         for st in case["stations"]],
            "sessions": case["sessions"], "recomputes": [], "period": case["period"],
            "max_recompute": case["sched"].get("max_recompute"), "noise": [],
            "sched": {"type": "scripted", "default": case["sched"]["default"], "script": case["sched"]["script"]}}


def _sim_request(case):
    sc = _sim_case(case)
    if sc is None:
        return None
    return S.model_request(sc, resume=any(e.get("fail") for e in sc["sched"]["script"]))


def _cl(a, b):
    return len(a) == len(b) and all(close(x, y) for x, y in zip(a, b))


def _clc(a, b):
    return len(a) == len(b) and all(close(x[0], y[0]) and close(x[1], y[1]) for x, y in zip(a, b))


def _mres(m, conv):
    if "err" in m:
        return {"err": m["err"]}
    return {"ok": conv(m["ok"])}


def compare(case, obs, model):
    out = _compare_analysis(case, obs, model, "")
    ms = model.get("sim")
    if (ms is None) != (_sim_case(case) is None):
        out.append(f"simulator model: answer {'missing' if ms is None else 'unexpected'}")
    if ms is None:
        return out
    # ---- the scenario through the FULL SIMULATOR MODEL: its trajectory against the implementation's ...
    raw = obs["raw"]
    if ms["err"] is not None or not ms["queue_empty"]:
        out.append(f"simulator model: run ended with err={ms['err']} queue_empty={ms['queue_empty']}; the implementation completed")
        return out
    if ms["iter"] != raw["iteration"] or ms["width"] != raw["T"]:
        out.append(f"simulator model: iteration/width impl={raw['iteration']}/{raw['T']} model={ms['iter']}/{ms['width']}")
    mr = [[b2f(x) for x in row] for row in ms["rates"]]
    if len(mr) != len(raw["R"]) or not all(_cl(a, b) for a, b in zip(raw["R"], mr)):
        out.append("simulator model: charging_rates differ from the implementation's")
    mp = [[b2f(x) for x in row] for row in ms["pilots"]]
    if len(mp) != len(raw["P"]) or not all(_cl(a, b) for a, b in zip(raw["P"], mp)):
        out.append("simulator model: pilot_signals differ from the implementation's")
    if not close(raw["peak"], b2f(ms["peak"])):
        out.append(f"simulator model: peak impl={raw['peak']} model={b2f(ms['peak'])}")
    if sorted(ms["ev_history"]) != sorted(e[0] for e in raw["evs"]):
        out.append(f"simulator model: ev_history keys impl={[e[0] for e in raw['evs']]} model={ms['ev_history']}")
    if ms["warns"] != obs["datetimes_warned"]:
        out.append(f"datetimes_array warning on the finished run: impl={obs['datetimes_warned']} model={ms['warns']}")
    # ... the model-side ledger equalities, executed (C02 through the analysis functions) ...
    led = ms["ledger"]
    if not close(b2f(led["sum_delivered"]), b2f(led["integral"])):
        out.append(f"simulator model: sum of delivered energies {b2f(led['sum_delivered'])} != integral of aggregate power {b2f(led['integral'])}")
    if not close(b2f(led["peak_spec"]), b2f(ms["peak"])):
        out.append(f"simulator model: peak {b2f(ms['peak'])} != running maximum of the aggregate current {b2f(led['peak_spec'])}")
    if not close(b2f(ms["analysis"]["tot_del"]), b2f(led["integral"])):
        out.append(f"simulator model: total_energy_delivered {b2f(ms['analysis']['tot_del'])} != integral {b2f(led['integral'])}")
    # ... the unfinished simulation ...
    un, mf = obs.get("unfinished"), ms.get("first")
    if (un is None) != (mf is None):
        out.append(f"interrupted run: impl={'raised' if un else 'did not raise'} model={'raised' if mf else 'did not raise'}")
    elif un is not None:
        if mf["err"] != "SchedulerFailed" or mf["iter"] != un["iter"] or mf["queue_empty"] != un["queue_empty"]:
            out.append(f"interrupted run: impl iter={un['iter']} queue_empty={un['queue_empty']} model={mf['err']} iter={mf['iter']} queue_empty={mf['queue_empty']}")
        if mf["warns"] != un["warned"]:
            out.append(f"datetimes_array on the unfinished simulation: warning impl={un['warned']} model={mf['warns']}")
        md = [b2f(x) * 6e7 for x in mf["datetimes"]]
        if len(md) != len(un["us"]) or any(abs(x - y) > 60 for x, y in zip(md, un["us"])):
            out.append(f"datetimes_array on the unfinished simulation: impl {len(un['us'])} entries {un['us'][:3]}… model {len(md)} entries {md[:3]}…")
        if not _cl(un["agg_current"], [b2f(x) for x in mf["agg_current"]]) or not close(un["peak"], b2f(mf["peak"])):
            out.append("unfinished simulation: aggregate_current / peak differ")
    # ... and every analysis value on the MODEL'S OWN trajectory against the implementation's answers
    out.extend(_compare_analysis(case, obs, ms["analysis"], "[on the simulator model's trajectory] "))
    return out[:20]


def _compare_analysis(case, obs, model, tag):
    out = []
    for key in ("agg_current", "agg_power"):
        mv = [b2f(x) for x in model[key]]
        sv = [b2f(x) for x in model["spec_" + key]]
        if not _cl(obs[key], mv):
            out.append(f"{key}: impl={obs[key]} model={mv}")
        if not _cl(obs[key], sv):
            out.append(f"{key}: impl={obs[key]} statement-level model={sv}")
    for key in ("tot_req", "tot_del"):
        if not close(obs[key], b2f(model[key])):
            out.append(f"{key}: impl={obs[key]} model={b2f(model[key])}")
    mp = _mres(model["prop"], b2f)
    if ("err" in mp) != ("err" in obs["prop"]) or ("ok" in mp and not close(mp["ok"], obs["prop"]["ok"])) or \
            ("err" in mp and mp["err"] != obs["prop"]["err"]):
        out.append(f"proportion_of_energy_delivered impl={obs['prop']} model={mp}")
    raw = obs["raw"]
    for i, (a, m) in enumerate(zip(obs["met"], model["met"])):
        mm = _mres(m, b2f)
        # abstain on the razor edge remaining == threshold ± rounding of the subtraction
        edge = any(abs(e[3] - obs["thresholds"][i]) < 1e-12 and e[3] != obs["thresholds"][i] for e in raw["evs"])
        if edge:
            continue
        if ("err" in mm) != ("err" in a) or ("ok" in mm and mm["ok"] != a["ok"]) or ("err" in mm and mm["err"] != a["err"]):
            out.append(f"proportion_of_demands_met(thr={obs['thresholds'][i]!r}) impl={a} model={mm}")
    md = [b2f(x) * 6e7 for x in model["datetimes"]]
    if len(md) != len(obs["datetimes_us"]) or any(abs(x - y) > 60 for x, y in zip(md, obs["datetimes_us"])):
        out.append(f"datetimes impl={obs['datetimes_us'][:5]}… model={md[:5]}…")
    for i, (q, a, m) in enumerate(zip(case["queries"], obs["answers"], model["answers"])):
        res = m.get("res")
        if res is None:
            continue
        where = f"query {i} {q}"
        if ("err" in res) != ("err" in a):
            out.append(f"{where}: impl={str(a)[:200]} model={str(res)[:200]}")
            continue
        if "err" in res:
            if res["err"] != a["err"]:
                out.append(f"{where}: error impl={a['err']} model={res['err']}")
            continue
        if q["q"] == "cc":
            for tag, val in (("model", res["ok"]), ("statement-level model", m["spec"]["ok"])):
                val = sorted(val)
                if [k for k, _ in val] != [k for k, _ in a["ok"]]:
                    out.append(f"{where}: keys impl={[k for k, _ in a['ok']]} {tag}={[k for k, _ in val]}")
                    continue
                for (k, iv), (_, mv) in zip(a["ok"], val):
                    if q["mag"]:
                        ok = _cl(iv, [b2f(x) for x in mv])
                    else:
                        ok = _clc(iv, [[b2f(x[0]), b2f(x[1])] for x in mv])
                    if not ok:
                        out.append(f"{where}: value under {k!r} impl={iv[:4]}… {tag} differs")
        elif q["q"] == "net":
            mv = [[[b2f(x[0]), b2f(x[1])] for x in row] for row in res["ok"]]
            if len(mv) != len(a["ok"]) or not all(_clc(x, y) for x, y in zip(a["ok"], mv)):
                out.append(f"{where}: impl={str(a['ok'])[:200]} model={str(mv)[:200]}")
        elif q["q"] == "nema":
            iv = [I.num(x) for x in a["ok"]]
            mv = [b2f(x) for x in res["ok"]]
            if not _cl(iv, mv):
                out.append(f"{where}: impl={iv} model={mv}")
            if m.get("spec") is not None and len(q["ids"]) == 3:
                sv = [b2f(x) for x in m["spec"]]
                if not _cl(iv, sv):
                    out.append(f"{where}: impl={iv} statement-level model={sv}")
        elif q["q"] == "cost":
            if not close(a["ok"], b2f(res["ok"])) or not close(a["ok"], b2f(m["spec"])):
                out.append(f"{where}: impl={a['ok']} model={b2f(res['ok'])} statement-level={b2f(m['spec'])}")
        elif q["q"] == "dc":
            if not close(a["ok"], b2f(res["ok"])):
                out.append(f"{where}: impl={a['ok']} model={b2f(res['ok'])}")
    return [tag + x for x in out]


# ------------------------------------------------------------------ property oracle

def _F(x):
    return Fraction(x)


def _net_by_name(case, raw, early=False):
    """station id -> (voltage, angle); constraint name -> {station id: coefficient}.

    The constraint table is what the case's edit history SAYS the network is (`_spec_state`): the constraints
    that were added / updated and not removed since, under the names the API documents; for a shipped site the
    untouched constraints are read off the pristine matrix (before any edit) by name."""
    ids = raw["station_ids"]
    if case["kind"] == "custom":
        st = {s["id"]: (s["V"], s["angle"]) for s in case["stations"]}
    else:
        st = {sid: (raw["V"][i], raw["angles"][i]) for i, sid in enumerate(ids)}
    names0 = raw.get("names0") or []
    if case["kind"] == "site" and "names0" not in raw:   # replays recorded before histories existed
        names0 = raw["names"]
        raw = dict(raw, M0=raw["M"])
    shipped = {}
    for k, nm in enumerate(names0):
        shipped.setdefault(nm, {sid: raw["M0"][k][j] for j, sid in enumerate(ids) if raw["M0"][k][j] != 0})
    pre, post = _case_ops(case)
    cons = {}
    for nm, loads in _spec_state(pre if early else pre + post, names0):
        cons.setdefault(nm, shipped[nm] if loads is None else dict(loads))
    return st, cons


def _phasor(cons, st, rate_of, name, t):
    """aggregate phasor current under constraint `name` in period t: Σ a_j r_j(t) e^{iφ_j}"""
    re = []
    im = []
    for sid, a in cons[name].items():
        r = rate_of(sid, t)
        z = cmath.exp(1j * math.radians(st[sid][1]))
        re.append(a * r * z.real)
        im.append(a * r * z.imag)
    return complex(math.fsum(re), math.fsum(im))


def _norm_ti(ti, T):
    out = []
    for i in ti:
        if not (-T <= i < T):
            return None
        out.append(i % T)
    return out


def oracle(case, obs):
    fails = []
    if "raw" not in obs:
        return fails
    raw = obs["raw"]
    ids = raw["station_ids"]
    T = raw["T"]
    R = raw["R"]
    row_of = {sid: i for i, sid in enumerate(ids)}
    st, cons = _net_by_name(case, raw)

    def rate_of(sid, t):
        return R[row_of[sid]][t]

    if T < raw["iteration"]:
        fails.append({"kind": "trajectory_shorter_than_run", "detail": f"T={T} iteration={raw['iteration']}"})
    # aggregate current / power
    for t in range(T):
        want = float(sum(_F(rate_of(s, t)) for s in ids))
        if t >= len(obs["agg_current"]) or not close(obs["agg_current"][t], want):
            fails.append({"kind": "aggregate_current_wrong", "detail": f"t={t} got={obs['agg_current'][t:t+1]} expected={want}"})
            break
    for t in range(T):
        want = float(sum(_F(st[s][0]) * _F(rate_of(s, t)) for s in ids) / 1000)
        if t >= len(obs["agg_power"]) or not close(obs["agg_power"][t], want):
            fails.append({"kind": "aggregate_power_wrong", "detail": f"t={t} got={obs['agg_power'][t:t+1]} expected={want}"})
            break
    if len(obs["agg_current"]) != T or len(obs["agg_power"]) != T:
        fails.append({"kind": "aggregate_length_wrong", "detail": f"{len(obs['agg_current'])},{len(obs['agg_power'])} vs T={T}"})
    # energy metrics
    evs = raw["evs"]
    treq = float(sum(_F(e[1]) for e in evs))
    tdel = float(sum(_F(e[2]) for e in evs))
    if not close(obs["tot_req"], treq) or not close(obs["tot_del"], tdel):
        fails.append({"kind": "energy_totals_wrong", "detail": f"got={obs['tot_req']},{obs['tot_del']} expected={treq},{tdel}"})
    if treq != 0:
        if "ok" not in obs["prop"] or not close(obs["prop"]["ok"], tdel / treq):
            fails.append({"kind": "proportion_delivered_wrong", "detail": f"got={obs['prop']} expected={tdel / treq}"})
    for thr, a in list(zip(obs["thresholds"], obs["met"])) + [(0.1, obs["met_default"])]:
        rem = [_F(e[1]) - _F(e[2]) for e in evs]
        if not evs:
            continue
        if any(abs(r - _F(thr)) < Fraction(1, 10 ** 9) for r in rem):
            continue  # razor edge (and `<` vs `<=` is not fixed by the statement)
        want = sum(1 for r in rem if r < _F(thr)) / len(evs)
        if "ok" not in a or not close(a["ok"], want):
            fails.append({"kind": "demands_met_wrong", "detail": f"threshold={thr} got={a} expected={want}"})
    # datetimes: one per simulated period, element t = start + t*period
    want = [raw["start_us"] + _F(raw["period"]) * t * 60_000_000 for t in range(raw["iteration"])]
    got = obs["datetimes_us"]
    if len(got) != len(want) or any(abs(g - w) > 1 for g, w in zip(got, want)):
        fails.append({"kind": "datetimes_wrong", "detail": f"len={len(got)} expected len={len(want)}; first={got[:3]} expected={[float(w) for w in want[:3]]}"})

    # ---- the analysis against the SIMULATED trajectory (C02's ledger, C01's horizon, through the analysis functions)
    it = raw["iteration"]
    if obs.get("datetimes_warned"):
        fails.append({"kind": "datetimes_warns_on_finished_run", "detail": "event queue empty, UserWarning raised"})
    pre = obs.get("pre")
    if pre is not None and (pre["us"] or pre["iter"] != 0 or pre["warned"] != (not pre["queue_empty"])):
        fails.append({"kind": "datetimes_before_run_wrong", "detail": f"before run(): {pre}"})
    un = obs.get("unfinished")
    if un is not None:
        kf = [e["t"] for e in case["sched"]["script"] if e.get("fail")]
        wantu = [raw["start_us"] + _F(raw["period"]) * t * 60_000_000 for t in range(un["iter"])]
        if un["iter"] not in kf:
            fails.append({"kind": "interrupted_in_wrong_period", "detail": f"schedule() raised in period {kf}, iteration={un['iter']}"})
        if len(un["us"]) != len(wantu) or any(abs(g - w) > 1 for g, w in zip(un["us"], wantu)):
            fails.append({"kind": "datetimes_unfinished_wrong",
                          "detail": f"unfinished simulation, {un['iter']} periods simulated so far: {len(un['us'])} datetimes {un['us'][:3]}…"})
        if un["warned"] != (not un["queue_empty"]):
            fails.append({"kind": "datetimes_unfinished_warning_wrong",
                          "detail": f"queue_empty={un['queue_empty']} warned={un['warned']}"})
        if not close(un["peak"], max([0.0] + un["agg_current"][:un["iter"]])):
            fails.append({"kind": "peak_not_max_aggregate_current",
                          "detail": f"unfinished simulation at iteration {un['iter']}: sim.peak={un['peak']} aggregate_current={un['agg_current'][:un['iter']]}"})
        if any(x != 0 for x in un["agg_current"][un["iter"]:]):
            fails.append({"kind": "unfinished_future_current_nonzero", "detail": f"iteration={un['iter']} agg={un['agg_current']}"})
        if un.get("agg_power") is not None and obs.get("raw"):
            un_volts = [float(v) for v in obs["raw"]["V"]] if "V" in obs["raw"] else None
            if un_volts is not None:
                un_R = un["rates"]
                un_want = [sum(un_volts[j] * un_R[j][t] for j in range(len(un_R))) / 1000 for t in range(len(un_R[0]) if un_R else 0)]
                if len(un_want) != len(un["agg_power"]) or any(not close(a, b) for a, b in zip(un["agg_power"], un_want)):
                    fails.append({"kind": "aggregate_power_wrong", "detail": f"unfinished simulation: {un['agg_power'][:6]} expected {un_want[:6]}"})
    if "peak" in raw:
        # Simulator.peak = max(0, max over the simulated periods of aggregate_current)       (C02.peak_eq_max)
        wantp = max([0.0] + [float(x) for x in obs["agg_current"][:it]])
        if not close(raw["peak"], wantp):
            fails.append({"kind": "peak_not_max_aggregate_current", "detail": f"sim.peak={raw['peak']} max aggregate_current={wantp}"})
        # total_energy_delivered = sum_t aggregate_power[t] * period / 60                     (C02.total_energy_eq_integral)
        integ = float(sum(_F(x) for x in obs["agg_power"]) * _F(raw["period"]) / 60)
        if not close(obs["tot_del"], integ, 1e-8):
            fails.append({"kind": "energy_delivered_not_integral_of_power",
                          "detail": f"total_energy_delivered={obs['tot_del']} integral of aggregate_power={integ}"})
        # each session: delivered = its station's row over [arrival, departure)              (C02.session_energy_interval_complete)
        by_id = {e[0]: e for e in raw["evs"]}
        for x in case["sessions"]:
            if x["session"] in by_id and x["station"] in row_of:
                wantd = float(sum(_F(rate_of(x["station"], t)) for t in range(x["arrival"], min(x["departure"], T)))
                              * _F(st[x["station"]][0]) / 1000 * _F(raw["period"]) / 60)
                if not close(by_id[x["session"]][2], wantd, 1e-8):
                    fails.append({"kind": "session_energy_not_row_sum",
                                  "detail": f"{x['session']}: energy_delivered={by_id[x['session']][2]} row sum={wantd}"})
                    break
        if any(R[i][t] != 0 for i in range(len(R)) for t in range(it, T)):
            fails.append({"kind": "rates_recorded_beyond_iteration", "detail": f"iteration={it} T={T}"})
    if len(got) != it:
        fails.append({"kind": "datetimes_wrong", "detail": f"{len(got)} datetimes, {it} periods simulated"})
    # proportion delivered within [0, 1] when no session got more than it asked for; = 1 iff every request was met
    if treq > 0 and "ok" in obs["prop"] and all(e[2] <= e[1] for e in evs) and all(e[2] >= 0 for e in evs):
        pr = obs["prop"]["ok"]
        if not (-1e-12 <= pr <= 1 + 1e-12) or ((abs(pr - 1) < 1e-15) != all(close(e[1], e[2], 1e-15) for e in evs)
                                               and not any(0 < abs(e[1] - e[2]) < 1e-9 * max(1, treq) for e in evs)):
            fails.append({"kind": "proportion_delivered_out_of_range", "detail": f"proportion={pr} evs={evs[:5]}"})
    # proportion_of_demands_met is monotone in the threshold
    pts = sorted((t, a["ok"]) for t, a in zip(obs["thresholds"], obs["met"]) if "ok" in a)
    for (t1, m1), (t2, m2) in zip(pts, pts[1:]):
        if m2 < m1 - 1e-12:
            fails.append({"kind": "demands_met_not_monotone", "detail": f"threshold {t1} -> {m1}, {t2} -> {m2}"})
            break

    names = raw["names"]
    if sorted(names) != sorted(cons):
        fails.append({"kind": "constraint_set_not_as_edited",
                      "detail": f"network.constraint_index={names} but the edit history leaves {list(cons)}"})
        return fails

    def check_dict(where, got_pairs, req, mag, cons=cons):
        known = set(cons)
        want_keys = sorted(known if req is None else set(n for n in req if n in known))
        if [k for k, _ in got_pairs] != want_keys:
            fails.append({"kind": "constraint_currents_keys_wrong", "detail": f"{where}: keys={[k for k, _ in got_pairs]} expected={want_keys}"})
            return
        for k, v in got_pairs:
            if len(v) != T:
                fails.append({"kind": "constraint_currents_length_wrong", "detail": f"{where}: {k}: {len(v)} vs {T}"})
                return
            for t in range(T):
                z = _phasor(cons, st, rate_of, k, t)
                ok = close(v[t], abs(z)) if mag else (close(v[t][0], z.real) and close(v[t][1], z.imag))
                if not ok:
                    fails.append({"kind": "constraint_current_under_wrong_name",
                                  "detail": f"{where}: result[{k!r}][{t}]={v[t]} expected={abs(z) if mag else z}"})
                    return

    if isinstance(obs["cc_default"], dict):
        fails.append({"kind": "constraint_currents_raised", "detail": f"constraint_currents(sim): {obs['cc_default']}"})
    elif len(set(names)) == len(names):
        check_dict("constraint_currents(sim)", obs["cc_default"], None, True)
    if "P" in raw and not isinstance(obs["cc_default"], dict) and len(set(names)) == len(names):
        # C06/C07 link: wherever the APPLIED pilots respect a constraint's linear bound (sum |a_j| pilot_j <= limit) the
        # magnitude of the constraint current of the RECORDED rates is within the limit (0 <= rate <= pilot)
        Pm = raw["P"]
        for k, v in obs["cc_default"]:
            lim = raw["limits"][names.index(k)]
            for t in range(min(raw["iteration"], len(v), len(Pm[0]) if Pm else 0)):
                lin = sum(abs(a) * Pm[row_of[sid]][t] for sid, a in cons[k].items())
                if lin <= lim and v[t] > lim * (1 + 1e-9) + 1e-9:
                    fails.append({"kind": "constraint_current_exceeds_limit_under_feasible_pilots",
                                  "detail": f"constraint {k!r} period {t}: pilots' linear aggregate {lin} <= limit {lim} but |I| = {v[t]}"})
                    break
    if case.get("early"):
        _, cons_early = _net_by_name(case, raw, early=True)
        for i, (q, a) in enumerate(zip(case["early"], obs.get("early", []))):
            where = f"before the post-run edits: constraint_currents({q['req']})"
            if "err" in a:
                fails.append({"kind": "constraint_currents_raised", "detail": f"{where}: {a}"})
                continue
            check_dict(where, a["ok"], q["req"], q["mag"], cons_early)
    for i, (q, a) in enumerate(zip(case["queries"], obs["answers"])):
        where = f"query {i} {q}"
        if q["q"] == "cc":
            if "err" in a:
                fails.append({"kind": "constraint_currents_raised", "detail": f"{where}: {a}"})
                continue
            if q["mag"] and a.get("dtype_complex"):
                fails.append({"kind": "constraint_currents_dtype", "detail": f"{where}: magnitudes are complex"})
            check_dict(where, a["ok"], q["req"], q["mag"])
        elif q["q"] == "net":
            ti = list(range(T)) if q["ti"] is None else _norm_ti(q["ti"], T)
            if ti is None:
                if a.get("err") != "IndexError":
                    fails.append({"kind": "time_index_out_of_range_accepted", "detail": f"{where}: {str(a)[:200]}"})
                continue
            if "err" in a:
                fails.append({"kind": "constraint_current_raised", "detail": f"{where}: {a}"})
                continue
            sel = [n for n in names if (q["req"] is None or n in q["req"])]
            if len(a["ok"]) != len(sel):
                fails.append({"kind": "constraint_current_rows_wrong", "detail": f"{where}: {len(a['ok'])} rows, expected {len(sel)}"})
                continue
            for nm, row in zip(sel, a["ok"]):
                if len(row) != len(ti) or any(
                        not (close(row[u][0], _phasor(cons, st, rate_of, nm, t).real) and
                             close(row[u][1], _phasor(cons, st, rate_of, nm, t).imag)) for u, t in enumerate(ti)):
                    fails.append({"kind": "constraint_current_rows_wrong", "detail": f"{where}: row for {nm!r} = {row[:4]}…"})
                    break
        elif q["q"] == "nema":
            idsq = q["ids"]
            eff = q["type"] if q.get("type") is not None else q.get("ut", "NEMA")
            if a.get("deprecation", False) != (q.get("type") is not None):
                fails.append({"kind": "nema_deprecation_warning_wrong", "detail": f"{where}: DeprecationWarning={a.get('deprecation')}"})
            if eff != "NEMA":
                if a.get("err") != "ValueError":
                    fails.append({"kind": "unbalance_type_not_refused", "detail": f"{where}: effective type {eff!r}: {str(a)[:160]}"})
                continue
            if any(p not in names for p in idsq):
                if "err" not in a:
                    fails.append({"kind": "nema_unknown_phase_accepted", "detail": f"{where}: {str(a)[:200]}"})
                continue
            if len(idsq) != 3:
                continue  # outside the documented domain (List of length 3)
            if "err" in a:
                idle = [t for t in range(T) if all(abs(_phasor(cons, st, rate_of, p, t)) == 0 for p in idsq)]
                if a["err"] == "ZeroDivision" and idle and raw.get("M_dtype") == "object":
                    # F16: an object-dtype constraint matrix (jpl_acn: `Current([])` is an object Series)
                    # turns numpy's 0/0 -> nan into Python's ZeroDivisionError for the WHOLE series
                    fails.append({"kind": "nema_zero_division_object_matrix",
                                  "detail": f"{where}: ZeroDivisionError because period(s) {idle[:5]} carry no current and "
                                            f"constraint_matrix.dtype is object; other networks return nan there and "
                                            f"the formula's value elsewhere"})
                else:
                    fails.append({"kind": "nema_raised", "detail": f"{where}: {a}"})
                continue
            got = [I.num(x) for x in a["ok"]]
            if len(got) != T:
                fails.append({"kind": "nema_wrong", "detail": f"{where}: length {len(got)} vs {T}"})
                continue
            for t in range(T):
                mags = [abs(_phasor(cons, st, rate_of, p, t)) for p in idsq]
                mean = math.fsum(mags) / 3
                if mean < 1e-9:
                    if mean == 0 and not math.isnan(got[t]):
                        fails.append({"kind": "nema_zero_convention", "detail": f"{where}: t={t} all currents zero, got {got[t]} (code convention: nan)"})
                        break
                    continue
                want = (max(mags) - mean) / mean
                if not close(got[t], want, 1e-7):
                    fails.append({"kind": "nema_wrong", "detail": f"{where}: t={t} got={got[t]} expected={want} magnitudes={mags}"})
                    break
        elif q["q"] in ("cost", "dc") and q["tariff"] is None and not (_signals_after(case) or {}).get("tariff"):
            # no tariff argument and none in sim.signals: "No pricing method is specified" (a Simulator built without
            # `signals=` has signals None; the code's membership test then raises TypeError — accepted, reported as a feature)
            want_err = ["ValueError"] if _signals_after(case) is not None else ["ValueError", "TypeError"]
            if a.get("err") not in want_err:
                fails.append({"kind": "cost_without_pricing_method_accepted", "detail": f"{where}: {str(a)[:160]}"})
        elif q["q"] == "cost":
            if "err" in a:
                fails.append({"kind": "energy_cost_raised", "detail": f"{where}: {a}"})
                continue
            hours = _F(raw["period"]) / 60
            want = float(sum(_F(p) * (sum(_F(st[s][0]) * _F(rate_of(s, t)) for s in ids) / 1000) * hours
                             for t, p in enumerate(a["prices_scalar"])))
            if not close(a["ok"], want):
                fails.append({"kind": "energy_cost_wrong", "detail": f"{where}: got={a['ok']} expected={want}"})
        elif q["q"] == "dc":
            if "err" in a:
                fails.append({"kind": "demand_charge_raised", "detail": f"{where}: {a}"})
                continue
            peak = max(sum(_F(st[s][0]) * _F(rate_of(s, t)) for s in ids) / 1000 for t in range(T))
            want = float(_F(a["dc"]) * peak)
            if not close(a["ok"], want):
                fails.append({"kind": "demand_charge_wrong", "detail": f"{where}: got={a['ok']} expected={want}"})
    return fails


def nontrivial(case, obs):
    if "raw" not in obs:
        return False
    raw = obs["raw"]
    R = raw["R"]
    hetero = False
    for t in range(raw["T"]):
        act = [i for i in range(len(R)) if R[i][t] > 0]
        if len({raw["V"][i] for i in act}) >= 2 and len({raw["angles"][i] for i in act}) >= 2:
            hetero = True
            break
    mixed = {nm for k, nm in enumerate(raw["names"])
             if any(x > 0 for x in raw["M"][k]) and any(x < 0 for x in raw["M"][k])}
    reordered = False
    for q in case["queries"]:
        if q["q"] == "cc" and q["req"]:
            pos = [raw["names"].index(n) for n in q["req"] if n in raw["names"]]
            if pos != sorted(pos) and (mixed & set(q["req"])):
                reordered = True
    return hetero and reordered


def features(case, obs):
    out = ["kind:" + case["kind"], "sched:" + case["sched"]["t"], "period:" + str(case["period"]),
           "tz:" + str(case["start"].get("tz"))]
    if case["kind"] == "site":
        out.append("site:" + case["site"])
    pre, post = _case_ops(case)
    for tag, ops in (("pre", pre), ("post", post)):
        state = _spec_state([], (obs.get("raw") or {}).get("names0") or []) if tag == "pre" else state
        last = "none"
        for op in ops:
            kind = op["op"]
            if kind == "remove":
                nm = [x[0] for x in state]
                pos = nm.index(op["name"])
                kind = "remove-last" if pos == len(nm) - 1 else "remove-first" if pos == 0 else "remove-middle"
            elif kind == "update" and op.get("new_name") is not None:
                kind = "rename"
            elif kind == "add" and (op["name"] is None or op["name"] in [x[0] for x in state]):
                kind = "add-unnamed" if op["name"] is None else "add-duplicate"
            state = _spec_apply(state, op)
            if not (tag == "pre" and kind == "add" and "build" not in case):
                out.append(f"hist:{tag}:{kind}")
            last = kind
        # the most recent edit of the constraint list before the run / before the analysis
        out.append(f"hist:{tag}:last=" + (last if ops and ("build" in case or tag == "post") else "none"))
    if "raw" not in obs:
        return out + ["impl_exception"]
    raw = obs["raw"]
    sg = _signals_after(case)
    out.append("signals:" + ("None" if sg is None else "tariff" if sg.get("tariff") else "{}"))
    out.append("sim-model:" + ("yes" if _sim_case(case) is not None else "no"))
    if case["sched"]["t"] == "simscript":
        out.append("max_recompute:" + str(case["sched"].get("max_recompute")))
        un = obs.get("unfinished")
        out.append("interrupted:" + ("no" if un is None else "last-period" if un["queue_empty"] else
                                     "period-0" if un["iter"] == 0 else "mid-run"))
    out.append("peak:" + ("0" if raw.get("peak") == 0 else "first-period" if raw.get("peak") == (obs["agg_current"] or [None])[0]
                          else "later"))
    out.append("stations:" + (str(len(raw["station_ids"])) if len(raw["station_ids"]) <= 8 else ">8"))
    out.append("constraints:" + (str(len(raw["names"])) if len(raw["names"]) <= 6 else ">6"))
    out.append("periods:" + str(10 * (raw["T"] // 10)) + "+")
    out.append("sessions:" + str(len(raw["evs"])))
    if any(b["batt"]["two"] for b in case["sessions"]):
        out.append("battery:two-stage")
    for q, a in zip(case["queries"], obs["answers"]):
        tag = "q:" + q["q"]
        if "err" in a:
            tag += ":" + a["err"]
        elif q["q"] == "cc":
            req = q["req"]
            if req is None:
                tag += ":None"
            else:
                pos = [raw["names"].index(n) for n in req if n in raw["names"]]
                tag += ":" + ("empty" if not pos else "index-order" if pos == sorted(set(pos)) else
                              "repeated" if len(pos) != len(set(pos)) else "reordered")
                if any(n not in raw["names"] for n in req):
                    tag += "+unknown"
            tag += ":mag" if q["mag"] else ":complex"
        elif q["q"] == "nema":
            tag += ":nan" if any(x == "nan" for x in a["ok"]) else ""
            if "ut" in q:
                tag += f":kw(ut={'NEMA' if q['ut'] == 'NEMA' else 'other'},type={'None' if q.get('type') is None else 'NEMA' if q['type'] == 'NEMA' else 'other'})"
        elif q["q"] in ("cost", "dc"):
            tag += ":argument" if q["tariff"] else ":from-signals"
        out.append(tag)
    if "err" in obs["prop"]:
        out.append("prop:" + obs["prop"]["err"])
    out.append("met:" + ",".join(sorted({str(m.get("ok", m.get("err"))) for m in obs["met"]}))[:40])
    return out
