"""C20 — the ACN-Data client yields every session exactly once and converts times faithfully.

The real `acnportal.acndata.DataClient` runs in-process against a fake transport (`requests.get` /
`requests.head` are patched inside the harness process only).  The same fake server (as a
url -> response table), the same arguments and the zone tables of pytz are given to the Lean model.
"""
from __future__ import annotations

import calendar
import email.utils
import math
import random
import zoneinfo
from datetime import datetime, timedelta, timezone
from unittest import mock

import pytz
import requests

from acnportal.acndata import DataClient
from acnportal.acndata import utils as U

ID = "C20"
LEAN_MODULES = ["AcnProofs.C20"]
DRIVER = "drv_C20"
REQUIRED_THEOREMS = [
    "Acn.C20.collect_chain", "Acn.C20.collect_fuel_adequate", "Acn.C20.collect_no_extra_request",
    "Acn.C20.collect_each_once", "Acn.C20.collect_fault", "Acn.C20.query_has_params",
    "Acn.C20.site_in_path", "Acn.C20.invalid_site_before_request", "Acn.C20.valid_site_requests_query",
    "Acn.C20.time_query_params", "Acn.C20.civil_roundtrip", "Acn.C20.days_roundtrip",
    "Acn.C20.calendar_succ", "Acn.C20.weekday_spec", "Acn.C20.parse_format", "Acn.C20.same_instant",
    "Acn.C20.parse_http_date_same_instant", "Acn.C20.http_date_roundtrip", "Acn.C20.parse_dates_faithful",
    "Acn.C20.zone_off_spec", "Acn.C20.domain_years", "Acn.C20.parse_sound", "Acn.C20.parse_unpadded_day",
    "Acn.C20.parse_length",
]
BUDGET = {"quick": 1500, "thorough": 30000, "search": 8000}
TRUSTED = [
    "pytz zone data (the model receives pytz's own transition tables; the conversion arithmetic "
    "fromutc/astimezone is NOT trusted: the model recomputes it, and the oracle cross-checks offsets "
    "with zoneinfo for 1970-2037)",
    "strftime/strptime in the C locale; float formatting of min_energy (str())",
    "requests (replaced by a page table: url -> response)",
]
ASSUMPTIONS = [
    "whole seconds; formatting domain = UTC years 1000-9999 (glibc %Y does not pad smaller years)",
    "the model's parser accepts the RFC-1123 grammar with case-insensitive names in two shapes: the canonical 29 characters "
    "and the 28 characters with a ONE-digit day of month (RFC 822/1123 `1*2DIGIT`; strptime's %d); what CPython's strptime "
    "accepts beyond that (measured on 3.12: a one-digit hour / minute / second; a run of one or more white-space characters — "
    "blank, TAB, LF, NBSP ... — wherever the format has a blank; non-ASCII decimal digits where the pattern is \\d) is OUTSIDE "
    "the model: such strings are generated (`outside` items of the date batches, `lenient` request cases, top-level fields "
    "only) and judged by the oracle alone — whatever the client accepts must denote the instant an independent token-wise "
    "reading gives; the year is four digits on both sides",
    "a `next` cycle never ends in Python; it is exercised with a transport cut-off = model fuel",
    "a `timestamps` value is a list of strings in a dict at the top level of the document (what ACN-Data serves); "
    "non-list / non-string stamps and time series nested deeper are not generated; the sample values next to a "
    "`timestamps` list are checked by the oracle only (the model sees the stamps)",
]
RULE = ("per case one client call: get_sessions / get_sessions_by_time (count on/off) / count_sessions with random "
        "argument combinations (cond strings incl. '&', '=', quotes, empty; project; sort; timeseries; start/end as "
        "aware datetimes in 16 zones incl. DST-transition instants and microseconds; min_energy int/float) against a "
        "fake server of 0-6 chained pages (empty pages, duplicate-looking sessions, repeated ids, decoy pages, missing "
        "_links, next without href, dangling next, next cycle with cut-off, error documents, non-JSON bodies, "
        "transport errors, invalid/missing time zones; with timeseries (and 15% of the other documents) 1-4 "
        "`timestamps`-bearing fields per document, each of 0-12 samples on a regular / irregular / unordered clock "
        "with steps of 1 s - 1 h, 15% moved so that a zone transition falls inside the series; a further series "
        "of a document is derived from an earlier one: identical, same length and same first and last stamp but "
        "different (or malformed) interior, constant lag, sub-sampled, common prefix / suffix, one shared end, "
        "reversed, shuffled, every sample twice, empty, or unrelated; 12% of the documents of a server reuse the "
        "series of an earlier document (under their own zone, half of them with one series changed inside); "
        "independently malformed stamps; on 25% of the request cases the stamps with a day of month 01..09 — top-level "
        "fields and time-series stamps — are written without the leading zero, all of them or each with probability 1/2; "
        "on 4% some top-level stamps are written in a form only strptime's leniency accepts), or a batch of "
        "http_date/parse_http_date round trips, un-padded days, malformed date strings and their neighbours (two blanks for "
        "the zero, a lone 0, TAB / NBSP / double blanks, one-digit hour / minute / second, 3- and 5-digit years), or a sweep of the calendar model against "
        "datetime.date (quick: both ends of the datetime range + random 20 000-day windows; thorough: every day of "
        "years 1-9999); non-trivial = at least two pages or an "
        "empty page or a fault on the chain, or a by_time call with a bound, or a date batch touching a DST "
        "transition; the evidence histogram reports per document the number of series, their lengths and the "
        "relation of every pair of series (series-pair:*); distinct by hash of the case")

BASE = "https://ev.caltech.edu/api/v1/"
SITES = ["caltech", "jpl", "office001"]
BAD_SITES = ["Caltech", "caltech ", "", "jpl2", "office01", "JPL", "sessions", "caltech/ts", None]
ZONES = ["America/Los_Angeles", "UTC", "Europe/London", "Australia/Lord_Howe", "Asia/Kolkata", "Asia/Kathmandu",
         "Pacific/Apia", "America/St_Johns", "Africa/Casablanca", "Europe/Dublin", "Etc/GMT+12",
         "Pacific/Kiritimati", "America/Sao_Paulo", "Asia/Tehran", "America/New_York", "Antarctica/Troll"]
BAD_ZONES = ["Mars/Olympus", "", "America/Los Angeles", "PST8"]
T_MIN = -30610224000       # 1000-01-01T00:00:00Z
T_MAX = 253402300800       # 10000-01-01T00:00:00Z
DAY = 86400

# ------------------------------------------------------------------ zone tables (pytz data, for the model)

_ZT = {}


def _secs(td):
    return td.days * 86400 + td.seconds


def zone_table(name):
    """pytz's own table: offset before the first transition, then (utc transition, offset)."""
    if name in _ZT:
        return _ZT[name]
    tz = pytz.timezone(name)
    if hasattr(tz, "_utc_transition_times"):
        times = [calendar.timegm(t.timetuple()) for t in tz._utc_transition_times]
        offs = [_secs(i[0]) for i in tz._transition_info]
        tab = {"init": offs[0], "trans": [[t, o] for t, o in zip(times, offs)]}
    else:
        tab = {"init": _secs(tz._utcoffset), "trans": []}
    _ZT[name] = tab
    return tab


def known_zone(name):
    if not isinstance(name, str):
        return False
    try:
        pytz.timezone(name)
        return True
    except Exception:
        return False


def zones_wire(names):
    return [[n, zone_table(n)] for n in sorted(set(n for n in names if known_zone(n)))]


def rfc(t):
    """RFC-1123 string of an epoch second, computed without the code under test."""
    return email.utils.formatdate(t, usegmt=True)


def epoch_of_rfc(s):
    """Independent reading of a canonical RFC-1123 string; None if it is not one."""
    if isinstance(s, str) and len(s) == 28 and s[3:5] == ", " and s[5:6].isdigit() and s[6:7] == " ":
        s = s[:5] + "0" + s[5:]      # RFC 822 / 1123: date = 1*2DIGIT month 2*4DIGIT — an un-padded day of month is legal
    if not isinstance(s, str) or len(s) != 29 or not s.endswith(" GMT"):
        return None
    try:
        tt = email.utils.parsedate(s)
        if tt is None:
            return None
        t = calendar.timegm(tt)
        return t if rfc(t).lower() == s.lower() or _same_but_weekday(rfc(t), s) else None
    except Exception:
        return None


def unpad(s):
    """the stamp without the first digit of its day of month (for a day 01..09: the un-padded RFC-1123 form)"""
    return s[:5] + s[6:]


def lenient_epoch(s):
    """Independent token-wise reading of the strings OUTSIDE the model that strptime's pattern still matches: runs of
    white space where the format has a blank, a one-digit day / hour / minute / second, non-ASCII digits.  None if the
    tokens are not those of an RFC-1123 date."""
    if not isinstance(s, str):
        return None
    p = s.split()
    if len(p) != 6 or len(p[0]) != 4 or p[0][3] != "," or p[5].upper() != "GMT" or len(p[3]) != 4:
        return None
    hms = p[4].split(":")
    try:
        if len(hms) != 3 or not all(1 <= len(x) <= 2 and x.isdecimal() for x in hms + [p[1]]) or not p[3].isdecimal():
            return None
        canon = "%s %02d %s %04d %02d:%02d:%02d GMT" % (p[0], int(p[1]), p[2], int(p[3]), int(hms[0]), int(hms[1]), int(hms[2]))
    except ValueError:
        return None
    return epoch_of_rfc(canon)


def _same_but_weekday(a, b):
    return a[3:].lower() == b[3:].lower() and b[:3].lower() in ("mon", "tue", "wed", "thu", "fri", "sat", "sun")


# ------------------------------------------------------------------ generation


def _gen_instant(rng, zone=None):
    r = rng.random()
    if r < 0.45:
        return rng.randint(1514764800, 1640995200)          # 2018-2021, where ACN-Data lives
    if r < 0.75 and zone and known_zone(zone):
        tr = zone_table(zone)["trans"]
        cand = [t for t, _ in tr if T_MIN + 10 * DAY < t < T_MAX - 800 * DAY]
        if cand:
            return rng.choice(cand) + rng.choice([0, -1, 1, -3600, 3600, -1800, 1799, -86400, 59, 60])
    if r < 0.85:
        return rng.randint(0, 2 ** 31)
    if r < 0.93:
        return rng.randint(T_MIN + 2 * DAY, T_MAX - 800 * DAY)
    return rng.choice([0, -1, 1, 951782400, 951868799, 951868800, 1709164800, 4107542400, -2208988800,
                       T_MIN + 2 * DAY, 68169600 - 1, 2 ** 31 - 1, 2 ** 31, 1e9, 915148800 - 1, 978307200 - 1])


SERIES_FIELDS = ["chargingCurrent", "pilotSignal", "voltage", "power"]
SERIES_VALUE_KEY = {"chargingCurrent": "current", "pilotSignal": "pilot", "voltage": "volts", "power": "kW"}
# how the stamps of a further series of the same document relate to those of an earlier one
RELATIONS = (["same"] * 5 + ["inner"] * 5 + ["inner-bad"] + ["lag"] * 2 + ["sub"] * 2 + ["prefix", "suffix", "first-only",
             "last-only", "reversed", "shuffled", "dup", "fresh", "fresh", "empty"])


def _bad_stamp(rng, good):
    return rng.choice(["", "2020-01-01 00:00:00", good[:-4], good.replace("GMT", "UTC")])


def _gen_epochs(rng, t0, zone):
    """Sample instants of one time series: regular or irregular clocks, 0-12 samples, steps from seconds to
    hours (so that a series can straddle a zone transition), sometimes repeated or out-of-order samples."""
    n = rng.choice([0, 1, 1, 2, 2, 3, 3, 3, 4, 4, 5, 6, 8, 12])
    step = rng.choice([10, 10, 1, 60, 300, 300, 1800, 3600])
    start = t0 + rng.choice([0, 0, 0, 1, 37, -step])
    mode = rng.random()
    if mode < 0.55:
        ep = [start + step * i for i in range(n)]
    elif mode < 0.9:
        ep, t = [], start
        for _ in range(n):
            ep.append(t)
            t += rng.choice([0, 1, 1, step, step, step + 7, 3 * step, rng.randint(1, 4000)])
    else:
        ep = [start + rng.randint(0, max(1, step * n)) for _ in range(n)]     # unordered
    if zone and known_zone(zone) and n >= 2 and rng.random() < 0.15:
        # put a transition of the zone strictly inside the series
        tr = [t for t, _ in zone_table(zone)["trans"] if T_MIN + 10 * DAY < t < T_MAX - 800 * DAY]
        if tr:
            shift = rng.choice(tr) - ep[rng.randrange(1, n)] + rng.choice([0, 0, -1, 1])
            ep = [e + shift for e in ep]
    return ep


def _derive_stamps(rng, stamps, t0, rel):
    """Stamps of another series of the same document, related to `stamps` by `rel`.  The relations cover
    what a per-document or per-process shortcut could confuse: equal lists, lists that agree in length and
    at both ends but not inside, a constant lag, sub-sampling, a common prefix/suffix, a different order."""
    n = len(stamps)
    ep = [epoch_of_rfc(x) for x in stamps]
    if any(e is None for e in ep):
        return list(stamps)
    if rel == "same":
        return list(stamps)
    if rel in ("inner", "inner-bad"):
        if n < 3:
            return [rfc(e + 3) for e in ep] if rel == "inner" else list(stamps)
        out = list(ep)
        idx = [i for i in range(1, n - 1) if rng.random() < 0.5] or [rng.randrange(1, n - 1)]
        if rel == "inner-bad":
            res = [rfc(e) for e in out]
            res[idx[0]] = _bad_stamp(rng, res[idx[0]])
            return res
        for i in idx:
            out[i] += rng.choice([1, -1, 7, 60, -300, 3600, rng.randint(1, 5000), -rng.randint(1, 5000)])
        return [rfc(e) for e in out]
    if rel == "lag":
        lag = rng.choice([1, 4, 60, 3600, 86400])
        return [rfc(e + lag) for e in ep]
    if rel == "sub":
        return [rfc(e) for e in ep[::2]]
    if rel == "prefix":
        return [rfc(e) for e in ep[:-1]] + ([rfc(ep[-1] + 5)] if n and rng.random() < 0.5 else [])
    if rel == "suffix":
        return ([rfc(ep[0] - 5)] if n and rng.random() < 0.5 else []) + [rfc(e) for e in ep[1:]]
    if rel == "first-only":
        return [rfc(ep[0])] + [rfc(e + 11) for e in ep[1:]] if n else []
    if rel == "last-only":
        return [rfc(e + 11) for e in ep[:-1]] + [rfc(ep[-1])] if n else []
    if rel == "reversed":
        return [rfc(e) for e in reversed(ep)]
    if rel == "shuffled":
        out = list(ep)
        rng.shuffle(out)
        return [rfc(e) for e in out]
    if rel == "dup":
        return [rfc(e) for e in ep for _ in range(2)]
    if rel == "empty":
        return []
    return None     # "fresh": the caller draws an unrelated series


def _gen_series_fields(rng, t0, zone):
    """1-4 `timestamps`-bearing fields of one document.  ACN-Data serves `chargingCurrent` and `pilotSignal`;
    their clocks are usually the same but need not be (pilot logged on change, a delayed sample)."""
    k = rng.choice([1, 1, 1, 2, 2, 2, 2, 3, 3, 4])
    names = SERIES_FIELDS[:k]
    if rng.random() < 0.2:
        names = rng.sample(SERIES_FIELDS, k)
    out = []
    for name in names:
        stamps = None
        if out:
            stamps = _derive_stamps(rng, rng.choice(out)[1]["timestamps"], t0, rng.choice(RELATIONS))
        if stamps is None:
            stamps = [rfc(e) for e in _gen_epochs(rng, t0, zone)]
        if stamps and rng.random() < 0.025:
            i = rng.randrange(len(stamps))
            stamps[i] = _bad_stamp(rng, stamps[i])
        vals = [rng.choice([0, 1.5, 8, 16.0, 31.99]) for _ in stamps]
        out.append([name, {SERIES_VALUE_KEY[name]: vals, "timestamps": stamps}])
    return out


def _gen_doc(rng, k, timeseries, pool=None):
    zone = rng.choice(ZONES[:1] * 3 + ZONES)
    t0 = int(_gen_instant(rng, zone))
    t1 = t0 + rng.randint(0, 20 * 3600)
    doc = [["_id", f"id{k}"], ["clusterID", "0039"], ["connectionTime", rfc(t0)],
           ["disconnectTime", rfc(t1)],
           ["doneChargingTime", rng.choice([rfc(t0 + rng.randint(0, 3600 * 8)), None, None])],
           ["kWhDelivered", rng.choice([7.25, 0, 13, 0.5])], ["sessionID", f"2_39_{k}_{rfc(t0)[5:16]}"],
           ["siteID", "0002"], ["spaceID", "CA-303"], ["stationID", "2-39-78-362"], ["timezone", zone],
           ["userID", rng.choice([None, "000123"])],
           ["userInputs", rng.choice([None, [{"userID": 12, "modifiedAt": rfc(t0)}]])]]
    # the server's own bookkeeping fields (Eve: _created / _updated / _etag) are top-level fields like any other: their RFC-1123
    # stamps are timestamp fields of the document too.  Private sub-generator: the main stream is not shifted.
    _sub = random.Random(repr(("eve", k, t0, zone)))
    if _sub.random() < 0.4:
        doc.append(["_created", rfc(t0 - _sub.randint(0, 86400))])
        doc.append(["_updated", rfc(t1 + _sub.randint(0, 86400))])
        doc.append(["_etag", "5d41402abc4b2a76b9719d911017c592"])
        if _sub.random() < 0.3:
            doc.append(["_links", {"self": {"title": "session", "href": f"sessions/x/{k}"}}])
    r = rng.random()
    if r < 0.015:
        doc = [f for f in doc if f[0] != "timezone"]                   # KeyError
    elif r < 0.03:
        doc = [[k_, (rng.choice(BAD_ZONES + [None]) if k_ == "timezone" else v)] for k_, v in doc]
    elif r < 0.2:
        # a string that only looks like a date / other non-date strings
        bad = rng.choice(_malformed(rng, t0))
        doc.append(["note", bad])
    if pool is not None and pool and rng.random() < 0.12:
        # the series of an earlier document again, under this document's zone (and sometimes with one
        # series changed inside): nothing converted for one document may leak into another
        fields = [[name, _copy(v)] for name, v in rng.choice(pool)]
        if rng.random() < 0.5:
            f = rng.choice(fields)
            f[1]["timestamps"] = _derive_stamps(rng, f[1]["timestamps"], t0, "inner")
        doc.extend(fields)
    elif timeseries or rng.random() < 0.15:
        fields = _gen_series_fields(rng, t0, zone)
        doc.extend(fields)
        if pool is not None and fields:
            pool.append([[name, _copy(v)] for name, v in fields])
        if rng.random() < 0.2:
            doc.append(["meta", {"x": 1}])                             # dict without timestamps
    if rng.random() < 0.3:
        rng.shuffle(doc)
    return doc


def _malformed(rng, t):
    s = rfc(t)
    out = [s.lower(), s.upper(), "Mon" + s[3:], "Xyz" + s[3:], s[:-3] + "UTC", s[:-3] + "gmt", s[:-4], s + " ", " " + s,
           s[:5] + "30 Feb" + s[11:], s[:5] + "29 Feb 2023" + s[16:], s[:5] + "31 Apr" + s[11:], s[:5] + "00" + s[7:],
           s[:5] + "32" + s[7:], s[:17] + "24" + s[19:], s[:20] + "60" + s[22:], s[:23] + "60" + s[25:],
           s[:23] + "61" + s[25:], s[:23] + "62" + s[25:], s[:12] + "0000" + s[16:], s[:12] + "0999" + s[16:],
           s.replace(",", ";"), s.replace(":", "."), s[:8] + "Foo" + s[11:], "", "GMT", "2020-05-01T10:00:00Z",
           "Tue, 01 May 2018 10:00:00 +0000", s.replace(" ", "-"), s[:12] + "20x8" + s[16:], s[:8] + "May" + s[11:],
           s[:5] + "29 Feb 2000" + s[16:], s[:5] + "29 Feb 1900" + s[16:], s[:5] + "29 Feb 2100" + s[16:]]
    # neighbours of the un-padded day of month (all decided by the model as by strptime): the 28-character form itself (a
    # day 01..09 loses its zero, a day 10..31 its first digit: another valid date), in other letter case, with a lone 0, a
    # letter, nothing or a third digit for the day, with an impossible day / time, truncated or prolonged, and the other
    # 28-character strings (a 3-digit year, no blank before GMT, a two-letter weekday) and the 5-digit year
    u = unpad(s)
    out += [u, u, u.lower(), u.upper(), s[:5] + "0" + s[7:], s[:5] + "x" + s[7:], s[:5] + s[7:], s[:5] + "0" + s[5:],
            s[:4] + u[5:], u[:4] + "0" + u[4:], u[:10] + "2023" + u[14:] if u[7:10] == "Feb" else u[:7] + "Feb" + u[10:],
            u[:16] + "24" + u[18:], u[:22] + "60" + u[24:], u[:-1], u + " ", u[:-3] + "UTC", "Mon" + u[3:], "Xyz" + u[3:],
            s[:12] + s[13:], s[:12] + "1" + s[12:], s[:25] + s[26:], s[1:], u[:7] + "Foo" + u[10:], u.replace(",", ";")]
    return out


def _outside(rng, t):
    """Strings strptime's pattern accepts but the model does not (ASSUMPTIONS): never given to the model's verdict."""
    s = rfc(t)
    u = unpad(s)
    out = [s[:5] + " " + s[6:],                    # two blanks for the first digit of the day ("Wed,  1 Jan": %d matches " 1")
           s[:5] + "  " + s[6:], s[:4] + "\t" + s[5:], s[:4] + "  " + s[5:], s[:7] + "  " + s[8:], s[:11] + "\t" + s[12:],
           s[:16] + "  " + s[17:], s[:25] + "  " + s[26:], s[:25] + "\n" + s[26:], s[:4] + "\xa0" + s[5:], u[:6] + "  " + u[7:],
           s.replace(" ", "  "), u.replace(" ", " \t")]
    if s[17] == "0":
        out += [s[:17] + s[18:], u[:16] + u[17:]]    # one-digit hour
    if s[20] == "0":
        out += [s[:20] + s[21:]]
    if s[23] == "0":
        out += [s[:23] + s[24:], u[:22] + u[23:]]
    if s[17] == "0" and s[20] == "0" and s[23] == "0":
        out += [u[:16] + u[17:19] + u[20:22] + u[23:]]
    if s[5] in "12":
        out += [s[:6] + "\u0663" + s[7:]]           # ARABIC-INDIC DIGIT THREE as the second digit of the day
    out += [s[:15] + "\u0968" + s[16:]]             # DEVANAGARI DIGIT TWO as the last digit of the year
    return out


def _gen_pages(rng, timeseries):
    """A fake server: the chain from the first URL plus decoys."""
    n = rng.choice([0, 1, 1, 2, 2, 3, 3, 4, 5, 6])
    pages = []
    k = 0
    pool = []          # time series of earlier documents of this server, for reuse across documents
    hrefs = [None] + [rng.choice([f"sessions/caltech?page={i + 1}&max_results=100",
                                  f"sessions/jpl?where=x&page={i + 1}", f"p{i + 1}", f"sessions/caltech/ts/?page={i + 1}"]) + f"#{rng.randint(0, 999)}"
                      for i in range(1, 8)]
    if n == 0:
        # the very first request already fails
        pages.append({"kind": rng.choice(["errdoc", "notjson", "transport"])})
        return pages, k
    for i in range(n):
        m = rng.choice([0, 0, 1, 1, 2, 3, 5])
        items = []
        for _ in range(m):
            d = _gen_doc(rng, k, timeseries, pool)
            k += 1
            items.append(d)
            if rng.random() < 0.15:          # duplicate-looking: same content, new id
                d2 = [[a, (f"id{k}" if a == "_id" else b)] for a, b in d]
                k += 1
                items.append(d2)
            if rng.random() < 0.05:          # the server really holds it twice
                items.append([list(f) for f in d])
        nxt = "next" if i < n - 1 else "last"
        pages.append({"kind": "page", "items": items, "next": nxt, "href": hrefs[i + 1] if i < n - 1 else None})
    # the `_meta` block of every page is the server's own bookkeeping, not part of the paging contract ("follow the
    # next links until none remains"): it may be accurate, stale in either direction (sessions inserted or deleted while
    # the result set is being paged), of another type, or absent
    held = sum(len(pg["items"]) for pg in pages if pg.get("kind") == "page")
    style = rng.choice(["accurate", "accurate", "understated", "first_page_only", "zero", "overstated", "string", "absent", "mixed"])
    seen = 0
    for i, pg in enumerate(pages):
        if pg.get("kind") != "page":
            continue
        seen += len(pg["items"])
        st = rng.choice(["accurate", "understated", "zero", "overstated", "absent"]) if style == "mixed" else style
        total = {"accurate": held, "understated": max(0, min(held - 1, seen)), "first_page_only": len(pages[0]["items"]),
                 "zero": 0, "overstated": held + rng.choice([1, 7, 999]), "string": str(held)}.get(st)
        pg["meta"] = None if st == "absent" else {"page": rng.choice([i + 1, 1]), "max_results": rng.choice([1, len(pg["items"]), 25, 100]), "total": total}
    r = rng.random()
    last = pages[-1]
    if r < 0.08:
        last["next"] = "nolinks"
    elif r < 0.14:
        last["next"] = "nohref"
    elif r < 0.22:
        last["next"] = "next"
        last["href"] = "nowhere/404"          # dangling: the server answers with an error document
    elif r < 0.3:
        last["next"] = "next"
        last["href"] = hrefs[n]
        pages.append({"kind": rng.choice(["errdoc", "notjson", "transport"])})
    elif r < 0.36 and n >= 2:
        last["next"] = "cycle"                 # back to an earlier page (never ends; cut-off applies)
        last["href"] = pages[rng.randrange(0, n - 1)]["href"]
    return pages, k


def _gen_aware(rng):
    zone = rng.choice(ZONES)
    t = int(_gen_instant(rng, zone))
    r = rng.random()
    if r < 0.15:
        z = {"fixed": rng.choice([0, 3600, -3600 * 7, 19800, -16200, 45 * 60 + 5 * 3600, 50400, -43200, 1, -59])}
    else:
        z = zone
    return {"t": t, "us": rng.choice([0, 0, 1, 999999, 500000]), "zone": z}


COND = [None, "", "kWhDelivered > 5", 'connectionTime >= "Tue, 01 May 2018 00:00:00 GMT"', "a==1&b==2", "x=y",
        'userID=="000123" and siteID=="0002"', "sessionID == \"2_39_78\"", "  ", "where=1", "%20?#", "é>1"]


def _gen_case(rng):
    r = rng.random()
    if r < 0.17:
        return _gen_dates(rng)
    site = rng.choice(SITES) if rng.random() < 0.88 else rng.choice(BAD_SITES)
    base = BASE if rng.random() < 0.8 else rng.choice(["http://localhost:5000/", "https://h/api", ""])
    if r < 0.55:
        ts = rng.random() < 0.35
        pages, _ = _gen_pages(rng, ts)
        return {"kind": "sessions", "base": base, "site": site,
                "args": {"cond": rng.choice(COND), "project": rng.choice([None, None, '{"kWhDelivered":1}', "_id"]),
                         "sort": rng.choice([None, None, "connectionTime", "-kWhDelivered"]), "timeseries": ts},
                "pages": pages, "cutoff": len(pages) + rng.choice([2, 3, 5])}
    if r < 0.9:
        ts = rng.random() < 0.35
        count = rng.random() < 0.25
        pages, _ = _gen_pages(rng, ts)
        return {"kind": "by_time", "base": base, "site": site,
                "args": {"start": _gen_aware(rng) if rng.random() < 0.65 else None,
                         "end": _gen_aware(rng) if rng.random() < 0.55 else None,
                         "min_energy": rng.choice([None, None, 0, 5, 2.5, 1e-07, 10.0, 1e22, -1]),
                         "timeseries": ts, "count": count},
                "pages": pages, "cutoff": len(pages) + rng.choice([2, 3, 5]),
                "total": rng.choice(["0", "57", "31424", None])}
    return {"kind": "count", "base": base, "site": site, "args": {"cond": rng.choice(COND)},
            "total": rng.choice(["0", "57", "31424", None])}


def _gen_dates(rng):
    items = []
    for _ in range(rng.randint(1, 8)):
        if rng.random() < 0.6:
            a = _gen_aware(rng)
            if rng.random() < 0.12:     # edges of the formatting domain, UTC only
                a = {"t": rng.choice([T_MIN, T_MAX - 1, T_MIN + 1, T_MAX - DAY]), "us": 0, "zone": "UTC"}
                items.append({"dt": a, "zone": "UTC"})
                continue
            items.append({"dt": a, "zone": rng.choice(ZONES)})
        else:
            t = int(_gen_instant(rng, None))
            if rng.random() < 0.4:                  # a day of month 1..9
                t -= DAY * max(0, int(rfc(t)[5:7]) - rng.randint(1, 9))
            if rng.random() < 0.12:
                items.append({"s": rng.choice(_outside(rng, t)), "zone": rng.choice(ZONES), "outside": True})
                continue
            items.append({"s": rng.choice(_malformed(rng, t) + [rfc(t)] * 6 + [unpad(rfc(t))] * 8), "zone": rng.choice(ZONES)})
    return {"kind": "dates", "items": items}


def corpus():
    d = lambda i, t, z="America/Los_Angeles": [["_id", f"c{i}"], ["connectionTime", rfc(t)], ["disconnectTime", rfc(t + 3600)],
                                               ["doneChargingTime", None], ["timezone", z]]
    reg = list(range(0, 3600, 300))
    ser = lambda name, t, offs: [name, {SERIES_VALUE_KEY[name]: [0.5 * (i % 7) for i in range(len(offs))],
                                        "timestamps": [rfc(t + o) for o in offs]}]
    on_change = [0, 12, 47, 1290, 1300, 1800, 1805, 2400, 2950, 3000, 3290, 3300]
    delayed = reg[:5] + [reg[5] + 7] + reg[6:]
    tA, tB = 1572222660, 1552207500          # 2019-10-28 (plain day), 2019-03-10 08:45Z (US spring forward at 10:00Z)
    series_case = {
        # several time series per document whose clocks agree in length and at both ends but not inside
        # (pilot logged on change, one delayed sample), a third series, a malformed stamp inside a
        # series that otherwise looks like its neighbour comes last; the same series under two zones
        "kind": "sessions", "base": BASE, "site": "jpl",
        "args": {"cond": None, "project": None, "sort": None, "timeseries": True},
        "pages": [
            {"kind": "page", "items": [d(0, tA) + [ser("chargingCurrent", tA, reg), ser("pilotSignal", tA, on_change)]],
             "next": "next", "href": "sessions/jpl/ts/?max_results=1&page=2"},
            {"kind": "page", "items": [d(1, tB) + [ser("pilotSignal", tB, delayed), ser("chargingCurrent", tB, reg),
                                                  ser("voltage", tB, reg)]],
             "next": "next", "href": "sessions/jpl/ts/?max_results=1&page=3"},
            {"kind": "page", "items": [d(2, tB, "Australia/Lord_Howe") + [ser("chargingCurrent", tB, reg), ser("pilotSignal", tB, delayed)]],
             "next": "next", "href": "sessions/jpl/ts/?max_results=1&page=4"},
            {"kind": "page", "items": [d(3, tA, "UTC") + [ser("chargingCurrent", tA, [0, 10, 20]), ser("pilotSignal", tA, [0, 20, 10]),
                                                         ser("power", tA, [0, 10, 10, 20])]],
             "next": "last", "href": None}],
        "cutoff": 7}
    bad_inside = {
        "kind": "sessions", "base": BASE, "site": "caltech",
        "args": {"cond": None, "project": None, "sort": None, "timeseries": True},
        "pages": [{"kind": "page", "items": [d(0, tA) + [ser("chargingCurrent", tA, [0, 10, 20]),
                                                        ["pilotSignal", {"pilot": [8, 8, 8], "timestamps": [rfc(tA), rfc(tA + 10)[:-4], rfc(tA + 20)]}]]],
                   "next": "last", "href": None}],
        "cutoff": 3}
    tC = 1523111840                          # Sat, 07 Apr 2018 14:37:20 GMT — a one-digit day of month
    du = lambda i, t, z="America/Los_Angeles": [[k, unpad(v) if isinstance(v, str) and len(v) == 29 else v] for k, v in d(i, t, z)]
    seru = lambda name, t, offs, which: [name, {SERIES_VALUE_KEY[name]: [1.0] * len(offs),
                                                "timestamps": [unpad(rfc(t + o)) if j in which else rfc(t + o) for j, o in enumerate(offs)]}]
    unpadded_case = {
        # a server that does not pad the day of month (RFC 1123 `1*2DIGIT`): top-level stamps and time-series stamps, all of
        # a series / only an interior one / across the change from the 9th to the 10th; next to a lone-zero day (a string)
        "kind": "sessions", "base": BASE, "site": "caltech", "unpadded": 9,
        "args": {"cond": None, "project": None, "sort": None, "timeseries": True},
        "pages": [{"kind": "page", "items": [
            du(0, tC) + [seru("chargingCurrent", tC, [0, 10, 20], {0, 1, 2}), seru("pilotSignal", tC, [0, 10, 20], {1})],
            du(1, tC + 2 * DAY, "Australia/Lord_Howe") + [seru("chargingCurrent", tC + 2 * DAY, [0, 40000, 80000], {0, 1, 2}),
                                                          ["note", "Sat, 0 Apr 2018 14:37:20 GMT"]]],
                   "next": "last", "href": None}],
        "cutoff": 3}
    return [
        series_case, bad_inside, unpadded_case,
        {"kind": "dates", "items": [{"s": "Sat, 7 Apr 2018 14:37:20 GMT", "zone": "America/Los_Angeles"},
                                    {"s": "sat, 7 apr 2018 14:37:20 gmt", "zone": "UTC"},
                                    {"s": "Sat, 0 Apr 2018 14:37:20 GMT", "zone": "UTC"},
                                    {"s": "Thu, 1 Jan 1000 00:00:00 GMT", "zone": "UTC"},
                                    {"s": "Fri, 9 Feb 2024 23:59:60 GMT", "zone": "UTC"},
                                    {"s": "Sat,  7 Apr 2018 14:37:20 GMT", "zone": "Asia/Kolkata", "outside": True},
                                    {"s": "Sat, 07 Apr 2018 4:37:20 GMT", "zone": "Asia/Kolkata", "outside": True},
                                    {"s": "Sat, 7 Apr 2018 4:7:2 GMT", "zone": "Asia/Kolkata", "outside": True},
                                    {"s": "Sat, 07 Apr 218 14:37:20 GMT", "zone": "UTC"},
                                    {"s": "Sat, 07 Apr 20180 14:37:20 GMT", "zone": "UTC"}]},
        # three pages, the middle one empty, identical-looking sessions, spring-forward instants
        {"kind": "sessions", "base": BASE, "site": "caltech",
         "args": {"cond": None, "project": None, "sort": None, "timeseries": False},
         "pages": [{"kind": "page", "items": [d(0, 1710064799), d(1, 1710064800)], "next": "next", "href": "sessions/caltech?page=2"},
                   {"kind": "page", "items": [], "next": "next", "href": "sessions/caltech?page=3"},
                   {"kind": "page", "items": [d(2, 1710064799), d(3, 1730624399, "Australia/Lord_Howe")], "next": "last", "href": None}],
         "cutoff": 6},
        {"kind": "sessions", "base": BASE, "site": "caltec",
         "args": {"cond": "x", "project": None, "sort": None, "timeseries": True},
         "pages": [{"kind": "page", "items": [d(0, 0)], "next": "last", "href": None}], "cutoff": 3},
        {"kind": "by_time", "base": BASE, "site": "jpl",
         "args": {"start": {"t": 1541322000, "us": 999999, "zone": "America/Los_Angeles"},
                  "end": {"t": 1541325600, "us": 0, "zone": {"fixed": 19800}}, "min_energy": 2.5, "timeseries": True,
                  "count": False},
         "pages": [{"kind": "page", "items": [], "next": "last", "href": None}], "cutoff": 3, "total": "5"},
        {"kind": "dates", "items": [{"dt": {"t": T_MIN, "us": 0, "zone": "UTC"}, "zone": "UTC"},
                                    {"dt": {"t": T_MAX - 1, "us": 0, "zone": "UTC"}, "zone": "Etc/GMT+12"},
                                    {"dt": {"t": 951868799, "us": 5, "zone": "Pacific/Apia"}, "zone": "Asia/Kathmandu"},
                                    {"s": "Tue, 29 Feb 2000 23:59:59 GMT", "zone": "Pacific/Kiritimati"},
                                    {"s": "Thu, 29 Feb 1900 23:59:59 GMT", "zone": "UTC"}]},
    ]


Z_FIRST = -719162          # date(1, 1, 1)
Z_END = 2932897            # one past date(9999, 12, 31)


def _calendar_cases(rng, tier):
    """Sweeps of the calendar model against `datetime.date`: the whole range of the datetime module in
    the thorough tier, both ends plus random windows in the quick tier."""
    if tier == "quick":
        out = [{"kind": "calendar", "from": Z_FIRST, "n": 3000}, {"kind": "calendar", "from": Z_END - 3000, "n": 3000},
               {"kind": "calendar", "from": -1500, "n": 3000}]
        for _ in range(4):
            out.append({"kind": "calendar", "from": rng.randint(Z_FIRST, Z_END - 20000), "n": 20000})
        return out
    out = []
    z = Z_FIRST
    while z < Z_END:
        n = min(100000, Z_END - z)
        out.append({"kind": "calendar", "from": z, "n": n})
        z += n
    return out


DEFAULTS = {"cond": None, "project": None, "sort": None, "timeseries": False, "count": False, "start": None, "end": None,
            "min_energy": None}


def _unpad_days(rng, case):
    """RFC 1123 writes the day of month as 1*2DIGIT: on ~25 % of the request cases the stamps whose day is 01..09 — top-level
    fields AND time-series stamps — are written WITHOUT the leading zero, as a server or proxy that does not pad would send
    them (all of them, or each with probability 1/2).  The model reads both shapes.  On a further ~4 % some top-level stamps
    are rewritten into a form only strptime's leniency accepts (`lenient`: outside the model, judged by the oracle alone)."""
    if case.get("kind") not in ("sessions", "by_time"):
        return case
    r = rng.random()
    if r < 0.25:
        p = rng.choice([1.0, 0.5])
        can = lambda v: isinstance(v, str) and len(v) == 29 and v[5] == "0" and epoch_of_rfc(v) is not None and rng.random() < p
        n = 0
        for pg in case.get("pages", []):
            for d in pg.get("items", []) if pg.get("kind") == "page" else []:
                for f in d:
                    v = f[1]
                    if can(v):
                        f[1] = unpad(v)
                        n += 1
                    elif isinstance(v, dict) and isinstance(v.get("timestamps"), list):
                        st = v["timestamps"]
                        for k in range(len(st)):
                            if can(st[k]):
                                st[k] = unpad(st[k])
                                n += 1
        if n:
            case["unpadded"] = n
    elif r < 0.29:
        hit = False
        for pg in case.get("pages", []):
            for d in pg.get("items", []) if pg.get("kind") == "page" else []:
                for f in d:
                    v = f[1]
                    if isinstance(v, str) and len(v) == 29 and epoch_of_rfc(v) is not None and rng.random() < 0.4:
                        f[1] = rng.choice(_outside(rng, epoch_of_rfc(v)))
                        hit = True
        if hit:
            case["lenient"] = True
    return case


def _with_omissions(rng, case):
    """on ~40 % of the request cases the optional arguments whose value IS the documented default (None / False) are left out
    of the call (each with probability 1/2): the expectation and the model are unchanged, the call relies on the defaults"""
    if case.get("kind") in ("sessions", "by_time", "count") and rng.random() < 0.4:
        names = [k for k, v in case["args"].items() if k in DEFAULTS and v is DEFAULTS[k]]
        omit = [k for k in names if rng.random() < 0.5]
        if omit:
            case["omit"] = sorted(omit)
    return case


def generate(rng, n, tier):
    return _calendar_cases(rng, tier) + [_unpad_days(rng, _with_omissions(rng, _gen_case(rng))) for _ in range(n)]


# ------------------------------------------------------------------ the fake server (shared description)


def _first_url(case):
    """What the first request must look like — written from the API description, not from the client."""
    a = case["args"]
    site = case["site"]
    base = case["base"]
    if case["kind"] == "count" or (case["kind"] == "by_time" and a["count"]):
        cond = a["cond"] if case["kind"] == "count" else _expected_cond(a)
        ps = ([("where", cond)] if cond is not None else []) + [("limit", "1")]
        return base + "sessions/" + str(site) + "?" + "&".join(k + "=" + v for k, v in ps)
    if case["kind"] == "by_time":
        ps = [("where", _expected_cond(a)), ("sort", "connectionTime")]
        ts = a["timeseries"]
    else:
        ps = [(k, a[f]) for k, f in (("where", "cond"), ("project", "project"), ("sort", "sort")) if a[f] is not None]
        ts = a["timeseries"]
    ps.append(("max_results", "1" if ts else "100"))
    return base + "sessions/" + str(site) + ("/ts/" if ts else "") + "?" + "&".join(k + "=" + v for k, v in ps)


def _mk_dt(spec):
    z = spec["zone"]
    tz = timezone(timedelta(seconds=z["fixed"])) if isinstance(z, dict) else pytz.timezone(z)
    return datetime.fromtimestamp(spec["t"], pytz.utc).astimezone(tz).replace(microsecond=spec["us"])


def _expected_cond(a):
    cl = []
    if a["start"] is not None:
        cl.append('connectionTime >= "%s"' % rfc(a["start"]["t"]))
    if a["end"] is not None:
        cl.append('connectionTime <= "%s"' % rfc(a["end"]["t"]))
    if a["min_energy"] is not None:
        cl.append("kWhDelivered > %s" % (a["min_energy"],))
    return " and ".join(cl)


def _server(case):
    """[(url, page-spec)] — the page table both sides see. The first page sits at the expected URL."""
    out = []
    url = _first_url(case)
    for p in case.get("pages", []):
        out.append((url, p))
        if p.get("kind") == "page" and p.get("next") in ("next", "cycle") and p.get("href") is not None:
            url = case["base"] + p["href"]
        else:
            url = None
    # decoys: pages nobody links to
    out.append((case["base"] + "sessions/decoy", {"kind": "page", "items": [[["_id", "decoy"], ["timezone", "UTC"]]], "next": "last", "href": None}))
    seen = {}
    for u, p in out:
        if u is not None and u not in seen:
            seen[u] = p
    return seen


class _StopServer(requests.exceptions.ConnectionError):
    pass


class _Resp:
    def __init__(self, payload=None, notjson=False, status=200, headers=None):
        self._p = payload
        self._nj = notjson
        self.status_code = status
        self.headers = headers or {}

    def json(self):
        if self._nj:
            raise requests.exceptions.JSONDecodeError("Expecting value", "<html>", 0)
        return self._p


def _payload(p):
    items = [dict((k, _copy(v)) for k, v in d) for d in p["items"]]
    pl = {"_items": items}
    if "meta" not in p:
        pl["_meta"] = {"page": 1, "max_results": 100, "total": 999}
    elif p["meta"] is not None:
        pl["_meta"] = dict(p["meta"])
    nx = p["next"]
    if nx == "last":
        pl["_links"] = {"parent": {"title": "home", "href": "/"}, "self": {"title": "s", "href": "x"}}
    elif nx in ("next", "cycle"):
        pl["_links"] = {"self": {"href": "x"}, "next": {"title": "next page", "href": p["href"]}, "last": {"href": "zz"}}
    elif nx == "nohref":
        pl["_links"] = {"next": {"title": "next page"}}
    return pl


def _copy(v):
    if isinstance(v, dict):
        return {k: _copy(x) for k, x in v.items()}
    if isinstance(v, list):
        return [_copy(x) for x in v]
    return v


# ------------------------------------------------------------------ implementation

_ERR = {"ConnectionError": "Transport", "_StopServer": "Transport"}


def _err(e):
    n = type(e).__name__
    return _ERR.get(n, n)


def _obs_dt(dt):
    off = dt.utcoffset()
    return [calendar.timegm(dt.utctimetuple()), _secs(off), dt.year, dt.month, dt.day, dt.hour, dt.minute, dt.second]


def _zone_name(dt):
    return getattr(dt.tzinfo, "zone", None)


def _obs_val(v, extra):
    if isinstance(v, datetime):
        extra.append(["zone", _zone_name(dt=v), v.microsecond])
        return {"d": _obs_dt(v)}
    if isinstance(v, str):
        return {"s": v}
    if isinstance(v, dict) and "timestamps" in v:
        ts = []
        for x in v["timestamps"]:
            if isinstance(x, datetime):
                extra.append(["zone", _zone_name(x), x.microsecond])
                ts.append(_obs_dt(x))
            else:
                ts.append(["not-a-datetime", repr(x)])
        return {"ts": ts}
    return {"o": True}


def _plain(v):
    """JSON-able rendering of the sample values that travel next to a `timestamps` list."""
    if isinstance(v, (list, tuple)):
        return [_plain(x) for x in v]
    if isinstance(v, dict):
        return {str(k): _plain(x) for k, x in v.items()}
    if v is None or isinstance(v, (bool, int, float, str)):
        return v
    return ["object", type(v).__name__]


def _obs_doc(doc):
    extra = []
    fields = [[k, _obs_val(v, extra)] for k, v in doc.items()]
    # what else a time-series dict holds (the sample values); not part of the model's view
    rest = [[k, _plain({a: b for a, b in v.items() if a != "timestamps"})] for k, v in doc.items()
            if isinstance(v, dict) and "timestamps" in v]
    return {"fields": fields, "zones": sorted(set(str(e[1]) for e in extra)), "us": sorted(set(e[2] for e in extra)),
            "series_rest": rest}


def _run_calendar(case):
    from datetime import date
    h = 0
    z0 = case["from"]
    for z in range(z0, z0 + case["n"]):
        d = date.fromordinal(z + 719163)
        h = (h * 1000003 + ((d.year * 100 + d.month) * 100 + d.day) * 7 + d.weekday()) % 2305843009213693951
    d0 = date.fromordinal(z0 + 719163)
    return {"hash": h, "first": [d0.year, d0.month, d0.day]}


def run_impl(case):
    if case["kind"] == "dates":
        return _run_dates(case)
    if case["kind"] == "calendar":
        return _run_calendar(case)
    # the fake server matches URLs up to the order of the query parameters (as a real one does)
    srv = {_ckey(u): p for u, p in _server(case).items()}
    first = _first_url(case)
    log = []
    heads = []

    def fake_get(url, *a, **kw):
        log.append({"url": url, "auth": list(kw.get("auth") or ()), "extra": sorted(k for k in kw if k != "auth") + [len(a)]})
        if len(log) > case.get("cutoff", 50):
            raise _StopServer("cut-off")
        p = srv.get(_ckey(url))
        if p is None or p["kind"] == "errdoc":
            return _Resp({"_status": "ERR", "_error": {"code": 404, "message": "not found"}}, status=404)
        if p["kind"] == "notjson":
            return _Resp(notjson=True, status=502)
        if p["kind"] == "transport":
            raise requests.exceptions.ConnectionError("refused")
        return _Resp(_payload(p))

    def fake_head(url, *a, **kw):
        heads.append({"url": url, "headers": dict(kw.get("headers") or {})})
        h = {}
        if _ckey(url) == _ckey(first) and case.get("total") is not None:
            h["x-total-count"] = case["total"]
        return _Resp(None, headers=h)

    a = case["args"]
    client = DataClient("tok3n", case["base"])
    obs = {"pre": None, "items": [], "stop": None, "count": None,
           "is_count": case["kind"] == "count" or (case["kind"] == "by_time" and bool(a["count"]))}
    with mock.patch.object(requests, "get", fake_get), mock.patch.object(requests, "head", fake_head):
        try:
            # case["omit"]: optional arguments NOT passed (the call relies on the documented defaults, which are the values
            # the case carries for them); the others are passed by keyword
            omit = set(case.get("omit") or [])
            if case["kind"] == "sessions" and not omit:
                it = client.get_sessions(case["site"], a["cond"], a["project"], a["sort"], a["timeseries"])
            elif case["kind"] == "sessions":
                it = client.get_sessions(case["site"], **{k: a[k] for k in ("cond", "project", "sort", "timeseries") if k not in omit})
            elif case["kind"] == "by_time" and not omit:
                it = client.get_sessions_by_time(case["site"], _mk_dt(a["start"]) if a["start"] else None,
                                                 _mk_dt(a["end"]) if a["end"] else None, a["min_energy"],
                                                 a["timeseries"], a["count"])
            elif case["kind"] == "by_time":
                kw = {"start": _mk_dt(a["start"]) if a["start"] else None, "end": _mk_dt(a["end"]) if a["end"] else None,
                      "min_energy": a["min_energy"], "timeseries": a["timeseries"], "count": a["count"]}
                it = client.get_sessions_by_time(case["site"], **{k: v for k, v in kw.items() if k not in omit})
            elif "cond" in omit:
                it = client.count_sessions(case["site"])
            else:
                it = client.count_sessions(case["site"], a["cond"])
            if obs["is_count"]:
                obs["count"] = it
            else:
                obs["calls_before_iteration"] = len(log)
                n_before = 0
                for s in it:
                    obs["items"].append(_obs_doc(s))
                    n_before += 1
                    if n_before > 400:
                        obs["stop"] = "harness-cap"
                        break
        except Exception as e:  # noqa
            if not log and not heads:
                obs["pre"] = _err(e)
            else:
                obs["stop"] = _err(e)
    obs["gets"] = log
    obs["heads"] = heads
    return obs


def _run_dates(case):
    res = []
    for it in case["items"]:
        tz = pytz.timezone(it["zone"])
        r = {"s": None, "r": None, "err": None}
        try:
            if "dt" in it:
                dt = _mk_dt(it["dt"])
                r["dt"] = _obs_dt(dt)
                s = U.http_date(dt)
            else:
                s = it["s"]
            r["s"] = s
            try:
                back = U.parse_http_date(s, tz)
                r["r"] = _obs_dt(back)
                r["rzone"] = _zone_name(back)
                r["rus"] = back.microsecond
            except ValueError:
                r["r"] = None
        except Exception as e:  # noqa
            r["err"] = _err(e)
        res.append(r)
    return {"results": res}


# ------------------------------------------------------------------ model


def _wire_val(v):
    if isinstance(v, str):
        return {"s": v}
    if isinstance(v, dict) and "timestamps" in v:
        return {"ts": list(v["timestamps"])}
    return {"o": True}


def _wire_doc(d):
    # a JSON object keeps the last value of a repeated key; the generated documents have none
    return [[k, _wire_val(v)] for k, v in d]


def _wire_resp(p):
    k = p["kind"]
    if k == "errdoc":
        return {"kind": "fail", "err": "KeyError"}
    if k == "notjson":
        return {"kind": "fail", "err": "JSONDecodeError"}
    if k == "transport":
        return {"kind": "fail", "err": "Transport"}
    nx = p["next"]
    if nx in ("next", "cycle"):
        n = {"t": "next", "href": p["href"]}
    elif nx == "last":
        n = {"t": "last"}
    else:
        n = {"t": "broken"}
    return {"kind": "page", "items": [_wire_doc(d) for d in p["items"]], "next": n}


def _aware_wire(spec):
    dt = _mk_dt(spec)
    return {"f": [dt.year, dt.month, dt.day, dt.hour, dt.minute, dt.second], "off": _secs(dt.utcoffset())}


def _doc_zones(case):
    names = set()
    for p in case.get("pages", []):
        for d in p.get("items", []):
            for k, v in d:
                if k == "timezone" and isinstance(v, str):
                    names.add(v)
    names.add("UTC")
    return names


def model_request(case):
    if case.get("lenient"):
        return None          # oracle only: top-level stamps in a form outside the model (ASSUMPTIONS) that strptime accepts
    if case["kind"] == "calendar":
        return {"op": "calendar", "from": case["from"], "n": case["n"]}
    if case["kind"] == "dates":
        items = []
        for it in case["items"]:
            if "dt" in it:
                items.append({"dt": _aware_wire(it["dt"]), "zone": it["zone"]})
            else:
                items.append({"s": it["s"], "zone": it["zone"]})
        return {"op": "dates", "zones": zones_wire([it["zone"] for it in case["items"]]), "items": items}
    site = case["site"]
    if site is None:
        site = "None"   # `None not in {...}` -> ValueError, like any unknown name
    a = case["args"]
    first = _first_url(case)
    req = {"base": case["base"], "site": site, "fuel": case.get("cutoff", 50),
           "zones": zones_wire(_doc_zones(case)),
           "server": [[u, _wire_resp(p)] for u, p in _server(case).items()],
           "head": [[first, case.get("total")]]}
    if case["kind"] == "sessions":
        req.update({"op": "sessions", "cond": a["cond"], "project": a["project"], "sort": a["sort"],
                    "timeseries": a["timeseries"]})
    elif case["kind"] == "by_time":
        req.update({"op": "by_time", "start": _aware_wire(a["start"]) if a["start"] else None,
                    "end": _aware_wire(a["end"]) if a["end"] else None,
                    "min_energy": None if a["min_energy"] is None else str(a["min_energy"]),
                    "timeseries": a["timeseries"], "count": a["count"]})
    else:
        req.update({"op": "count", "cond": a["cond"]})
    return req


def _canon_url(u):
    """path + sorted query parameters (parameter order is not part of the property)."""
    if "?" not in u:
        return [u, []]
    path, q = u.split("?", 1)
    return [path, sorted(q.split("&"))]


def _ckey(u):
    import json as _j
    return _j.dumps(_canon_url(u))


def compare(case, obs, model):
    out = []
    if case["kind"] == "calendar":
        if model["bad"] != 0:
            out.append(f"daysFromCivil(civilFromDays z) != z on {model['bad']} days of the window")
        if model["first"] != obs["first"] or model["hash"] != obs["hash"]:
            out.append(f"calendar window from {case['from']} ({case['n']} days): datetime.date and the model differ "
                       f"(first day impl={obs['first']} model={model['first']})")
        return out
    if case["kind"] == "dates":
        for i, (a, m) in enumerate(zip(obs["results"], model["results"])):
            if a["err"]:
                out.append(f"item {i}: implementation raised {a['err']}")
                continue
            if not m["domain"]:
                out.append(f"item {i}: generated outside the formatting domain")
                continue
            if case["items"][i].get("outside"):
                continue         # a form outside the model that strptime's leniency may accept: the oracle judges it
            if a["s"] != m["s"]:
                out.append(f"item {i}: http_date impl={a['s']!r} model={m['s']!r}")
            if a["r"] != m["r"]:
                out.append(f"item {i}: parse_http_date({a['s']!r}) impl={a['r']} model={m['r']}")
            if "dt" in a and m["instant"] != a["dt"][0]:
                out.append(f"item {i}: instant impl={a['dt'][0]} model={m['instant']}")
        return out
    if model.get("domain") is False:
        return ["generated outside the formatting domain"]
    if obs["pre"] != model.get("pre"):
        out.append(f"exception before any request: impl={obs['pre']} model={model.get('pre')}")
        return out
    if obs["pre"] is not None:
        return out
    if obs["is_count"]:
        iu = [_canon_url(h["url"]) for h in obs["heads"]]
        mu = [_canon_url(u) for u in model["urls"]]
        if iu != mu:
            out.append(f"HEAD urls impl={iu} model={mu}")
        if obs["gets"]:
            out.append("count made GET requests")
        if obs["count"] != model["count"] or obs["stop"] != model["stop"]:
            out.append(f"count impl={obs['count']}/{obs['stop']} model={model['count']}/{model['stop']}")
        return out
    iu = [_canon_url(g["url"]) for g in obs["gets"]]
    mu = [_canon_url(u) for u in model["urls"]]
    mstop = model["stop"]
    if mstop == "OutOfFuel":
        # the model ran out of fuel exactly where the harness transport cuts the cycle off
        if obs["stop"] != "Transport" or iu[:-1] != mu:
            out.append(f"cut-off: impl stop={obs['stop']} urls={iu} model urls={mu}")
    else:
        if iu != mu:
            out.append(f"request sequence impl={iu} model={mu}")
        if obs["stop"] != mstop:
            out.append(f"generator end impl={obs['stop']} model={mstop}")
    ii = [sorted(d["fields"], key=lambda f: f[0]) for d in obs["items"]]
    mi = [sorted(d, key=lambda f: f[0]) for d in model["items"]]
    if len(ii) != len(mi):
        out.append(f"yielded {len(ii)} sessions, model {len(mi)}")
    for k, (a, b) in enumerate(zip(ii, mi)):
        if a != b:
            diff = [(x, y) for x, y in zip(a, b) if x != y][:2]
            out.append(f"session {k} differs: {diff}")
            break
    return out


# ------------------------------------------------------------------ property oracle (independent of the model)


def _zi_offset(zone, t):
    """UTC offset from the stdlib zoneinfo database (independent of pytz); None outside 1970-2037."""
    if not (0 <= t < 2145916800):
        return None
    try:
        return _secs(datetime.fromtimestamp(t, zoneinfo.ZoneInfo(zone)).utcoffset())
    except Exception:
        return None


def _table_offset(zone, t):
    import bisect
    tab = zone_table(zone)
    times = [x for x, _ in tab["trans"]]
    i = bisect.bisect_right(times, t) - 1
    return tab["init"] if i < 0 else tab["trans"][i][1]


def _check_dt(fails, where, s, got, zone, zones_seen=None):
    """got = [epoch, off, y, mo, d, h, mi, s] observed for the RFC string s in `zone`."""
    t = epoch_of_rfc(s)
    if t is None:
        t = lenient_epoch(s)     # accepted by the client although outside the model: it must still be THAT instant
    if t is None:
        return
    if got[0] != t:
        fails.append({"kind": "time_not_same_instant", "detail": f"{where}: {s!r} is {t}, parsed datetime is {got[0]}"})
        return
    # wall clock = instant + offset, as plain arithmetic
    lt = datetime(1970, 1, 1) + timedelta(seconds=t + got[1])
    if [lt.year, lt.month, lt.day, lt.hour, lt.minute, lt.second] != got[2:]:
        fails.append({"kind": "time_not_same_instant", "detail": f"{where}: fields {got[2:]} are not instant+offset {lt}"})
    if known_zone(zone):
        # pytz's DATA is trusted (its tables stop in 2037 or earlier, e.g. Africa/Casablanca in 2026, after
        # which the last offset is kept); the conversion arithmetic is not: the offset must be the table's
        # entry for the instant, looked up here by plain bisection, and where the stdlib zoneinfo
        # database has the same data all three agree.
        to = _table_offset(zone, t)
        if to != got[1]:
            zo = _zi_offset(zone, t)
            fails.append({"kind": "time_wrong_zone", "detail": f"{where}: offset {got[1]} but {zone} is at {to} at {t} (zoneinfo: {zo})"})


def _must_parse(s):
    """s is exactly the RFC-1123 rendering of an instant of the years 1-9999, or that rendering without the leading
    zero of a day of month 01..09"""
    t = epoch_of_rfc(s)
    if t is None:
        return False
    c = rfc(t)
    return (s == c or (c[5] == "0" and s == unpad(c))) and 1 <= int(c[12:16])


def _walk(case):
    """The property's right-hand side: what a faithful client must request and yield."""
    srv = _server(case)
    url = _first_url(case)
    urls, ids, stop = [], [], None
    docs = []
    n = 0
    while True:
        n += 1
        if n > case.get("cutoff", 50):
            urls.append(url)
            stop = "Transport"
            break
        urls.append(url)
        p = srv.get(url)
        if p is None or p["kind"] == "errdoc":
            stop = "KeyError"
            break
        if p["kind"] == "notjson":
            stop = "JSONDecodeError"
            break
        if p["kind"] == "transport":
            stop = "Transport"
            break
        bad = None
        for d in p["items"]:
            dd = dict(d)
            if "timezone" not in dd:
                bad = "KeyError"
            elif not known_zone(dd["timezone"]):
                bad = "UnknownTimeZoneError"
            else:
                for k, v in d:
                    if isinstance(v, dict) and "timestamps" in v and any(epoch_of_rfc(x) is None for x in v["timestamps"]):
                        bad = "ValueError"
            if bad:
                break
            ids.append(dd.get("_id"))
            docs.append(d)
        if bad:
            stop = bad
            break
        if p["next"] == "last":
            break
        if p["next"] in ("nolinks", "nohref"):
            stop = "KeyError"
            break
        url = case["base"] + p["href"]
    return urls, ids, docs, stop


def oracle(case, obs):
    fails = []
    if case["kind"] == "calendar":
        return fails      # the calendar sweep ties the model to `datetime.date` (trusted); nothing of /repo runs
    if case["kind"] == "dates":
        for i, (it, r) in enumerate(zip(case["items"], obs["results"])):
            if r["err"]:
                fails.append({"kind": "unexpected_exception", "detail": f"item {i}: {r['err']}"})
                continue
            if "dt" in it:
                t = it["dt"]["t"]
                if r["dt"][0] != t:
                    continue   # harness construction, not the code under test
                if r["s"] != rfc(t):
                    fails.append({"kind": "http_date_wrong", "detail": f"item {i}: http_date({t} in {it['dt']['zone']}) = {r['s']!r}, expected {rfc(t)!r}"})
                    continue
                if r["r"] is None or r["r"][0] != t or r["rus"] != 0:
                    fails.append({"kind": "roundtrip_not_identity", "detail": f"item {i}: parse(http_date({t})) = {r['r']}"})
                    continue
            if r["r"] is not None:
                _check_dt(fails, f"item {i}", r["s"], r["r"], it["zone"])
                if r["rzone"] != it["zone"]:
                    fails.append({"kind": "time_wrong_zone", "detail": f"item {i}: result zone {r['rzone']} requested {it['zone']}"})
            elif _must_parse(r["s"]):
                fails.append({"kind": "rfc1123_string_not_parsed", "detail": f"item {i}: {r['s']!r}"})
        return fails

    site_ok = case["site"] in SITES
    if not site_ok:
        if obs["pre"] != "ValueError" or obs["gets"] or obs["heads"] or obs["items"]:
            fails.append({"kind": "invalid_site_not_rejected_first",
                          "detail": f"site {case['site']!r}: pre={obs['pre']} stop={obs['stop']} requests={len(obs['gets']) + len(obs['heads'])}"})
        return fails
    if obs["pre"] is not None:
        fails.append({"kind": "unexpected_exception", "detail": f"{obs['pre']} before any request for valid site"})
        return fails
    first = _first_url(case)
    if obs["is_count"]:
        if [_ckey(h["url"]) for h in obs["heads"]] != [_ckey(first)] or obs["gets"]:
            fails.append({"kind": "wrong_query", "detail": f"count requests {obs['heads']} {obs['gets']}, expected one HEAD {first}"})
        for h in obs["heads"]:
            if h["headers"] != {"Authorization": "Bearer tok3n"}:
                fails.append({"kind": "wrong_query", "detail": f"count request headers {h['headers']}"})
        exp = case.get("total")
        if exp is not None and obs["count"] != exp:
            fails.append({"kind": "count_wrong", "detail": f"count={obs['count']} header={exp}"})
        return fails
    if obs.get("calls_before_iteration"):
        pass  # laziness is not part of the property
    urls, ids, docs, stop = _walk(case)
    got_urls = [g["url"] for g in obs["gets"]]
    if got_urls and _canon_url(got_urls[0]) != _canon_url(first):
        fails.append({"kind": "wrong_query", "detail": f"first request {got_urls[0]!r}, expected {first!r}"})
        return fails
    got_ids = []
    for d in obs["items"]:
        f = dict((k, v) for k, v in d["fields"])
        got_ids.append(f.get("_id", {}).get("s"))
    if sorted(map(str, got_ids)) != sorted(map(str, ids)):
        fails.append({"kind": "session_lost_or_duplicated", "detail": f"yielded {got_ids} server chain holds {ids}"})
    elif got_ids != ids:
        fails.append({"kind": "wrong_order", "detail": f"yielded {got_ids} server order {ids}"})
    if [_canon_url(u) for u in got_urls] != [_canon_url(u) for u in urls]:
        k = "request_after_last_page" if len(got_urls) > len(urls) else "extra_or_missing_request"
        fails.append({"kind": k, "detail": f"requested {got_urls} expected {urls}"})
    if obs["stop"] != stop:
        fails.append({"kind": "unexpected_exception" if stop is None else "fault_not_surfaced",
                      "detail": f"generator ended with {obs['stop']}, expected {stop}"})
    for g in obs["gets"]:
        if g["auth"] != ["tok3n", ""]:
            fails.append({"kind": "wrong_query", "detail": f"auth {g['auth']}"})
            break
    # times
    for k, (d, o) in enumerate(zip(docs, obs["items"])):
        dd = dict(d)
        zone = dd["timezone"]
        of = dict((a, b) for a, b in o["fields"])
        if o["zones"] not in ([], [zone]):
            fails.append({"kind": "time_wrong_zone", "detail": f"session {k}: datetimes in {o['zones']}, document says {zone}"})
        if o["us"] not in ([], [0]):
            fails.append({"kind": "time_not_same_instant", "detail": f"session {k}: microseconds {o['us']}"})
        for key, v in d:
            ov = of.get(key)
            if isinstance(v, str):
                t = epoch_of_rfc(v)
                if t is not None and (rfc(t) == v or (rfc(t)[5] == "0" and unpad(rfc(t)) == v)):
                    if ov is None or "d" not in ov:
                        fails.append({"kind": "rfc1123_string_not_parsed", "detail": f"session {k} field {key}: {v!r} stayed {ov}"})
                    else:
                        _check_dt(fails, f"session {k} field {key}", v, ov["d"], zone)
                elif ov is not None and "d" in ov:
                    _check_dt(fails, f"session {k} field {key}", v, ov["d"], zone)
                elif ov != {"s": v}:
                    fails.append({"kind": "field_damaged", "detail": f"session {k} field {key}: {v!r} became {ov}"})
            elif isinstance(v, dict) and "timestamps" in v:
                if ov is None or "ts" not in ov or len(ov["ts"]) != len(v["timestamps"]):
                    fails.append({"kind": "timeseries_stamps_lost", "detail": f"session {k} field {key}: {ov}"})
                else:
                    for j, (s, g) in enumerate(zip(v["timestamps"], ov["ts"])):
                        if g and g[0] == "not-a-datetime":
                            fails.append({"kind": "rfc1123_string_not_parsed", "detail": f"session {k} {key}: stamp {j} {s!r} not converted"})
                        else:
                            _check_dt(fails, f"session {k} {key} stamp {j}", s, g, zone)
                want = _plain({a: b for a, b in v.items() if a != "timestamps"})
                got = dict((a, b) for a, b in o.get("series_rest", [])).get(key)
                if got != want:
                    fails.append({"kind": "field_damaged", "detail": f"session {k} field {key}: sample values {want} became {got}"})
            elif ov != {"o": True}:
                fails.append({"kind": "field_damaged", "detail": f"session {k} field {key}: {v!r} became {ov}"})
    return fails


# ------------------------------------------------------------------ bookkeeping


def _near_transition(zone, t):
    if not known_zone(zone):
        return False
    return any(abs(t - x) <= 3600 for x, _ in zone_table(zone)["trans"])


def nontrivial(case, obs):
    if case["kind"] == "calendar":
        return True
    if case["kind"] == "dates":
        for it in case["items"]:
            if "dt" in it and (_near_transition(it["zone"], it["dt"]["t"]) or
                               (isinstance(it["dt"]["zone"], str) and _near_transition(it["dt"]["zone"], it["dt"]["t"]))):
                return True
        return False
    if case["site"] not in SITES:
        return False
    if case["kind"] == "count":
        return case["args"]["cond"] is not None
    a = case["args"]
    if case["kind"] == "by_time" and (a["start"] or a["end"] or a["min_energy"] is not None):
        return True
    pages = case["pages"]
    return len(pages) >= 2 or any(p["kind"] != "page" or not p["items"] or p["next"] != "last" for p in pages)


def features(case, obs):
    out = ["kind:" + case["kind"]]
    if case["kind"] == "calendar":
        return out + [f"calendar-days:{case['n']}"]
    if case["kind"] == "dates":
        for it, r in zip(case["items"], obs["results"]):
            out.append("date:" + ("roundtrip" if "dt" in it else ("parsed" if r["r"] is not None else "rejected")))
            if it.get("outside"):
                out.append("date:outside-model-" + ("accepted" if r["r"] is not None else "rejected"))
            elif "s" in it and len(it["s"]) == 28:
                out.append("date:28-chars-" + ("parsed" if r["r"] is not None else "rejected"))
            if "dt" in it and _near_transition(it["zone"], it["dt"]["t"]):
                out.append("date:dst-transition")
        return out
    out.append("site:" + ("valid" if case["site"] in SITES else "invalid"))
    a = case["args"]
    for k in ("cond", "project", "sort", "start", "end", "min_energy"):
        if k in a:
            out.append(f"arg:{k}:" + ("none" if a[k] is None else "given"))
    if "timeseries" in a:
        out.append(f"timeseries:{a['timeseries']}")
    if a.get("count"):
        out.append("count:True")
    for k in case.get("omit") or []:
        out.append(f"omitted:{k}")
    if case.get("unpadded"):
        out.append("stamp:unpadded-day")
        for p in case.get("pages", []):
            for d in p.get("items", []):
                for k, v in d:
                    if isinstance(v, str) and len(v) == 28 and epoch_of_rfc(v) is not None:
                        out.append("stamp:unpadded-day:top-level")
                    elif isinstance(v, dict) and any(isinstance(x, str) and len(x) == 28 and epoch_of_rfc(x) is not None
                                                     for x in v.get("timestamps", [])):
                        out.append("stamp:unpadded-day:time-series")
    if case.get("lenient"):
        out.append("stamp:outside-model")
    if "pages" in case and not obs["is_count"] and case["site"] in SITES:
        chain = len(obs["gets"])
        out.append(f"requests:{min(chain, 7)}")
        out.append("end:" + str(obs["stop"]))
        out.append(f"yielded:{min(len(obs['items']), 10) // 2 * 2}+")
        if any(p["kind"] == "page" and not p["items"] for p in case["pages"]):
            out.append("empty-page")
        for p in case["pages"]:
            if p["kind"] == "page":
                out.append("next:" + p["next"])
                if "meta" in p:
                    held = sum(len(q["items"]) for q in case["pages"] if q["kind"] == "page")
                    mt = p["meta"]
                    out.append("meta:" + ("absent" if mt is None else "string" if isinstance(mt["total"], str) else
                                          "accurate" if mt["total"] == held else "understated" if mt["total"] < held else "overstated"))
            else:
                out.append("resp:" + p["kind"])
        for d in obs["items"]:
            for k, v in d["fields"]:
                if "d" in v:
                    out.append("field:datetime")
                    z = dict((a_, b_) for a_, b_ in d["fields"]).get("timezone", {}).get("s")
                    if z and _near_transition(z, v["d"][0]):
                        out.append("field:datetime-at-dst-transition")
                    if z and known_zone(z):
                        zo = _zi_offset(z, v["d"][0])
                        if zo is not None:
                            out.append("offset:zoneinfo-" + ("agrees" if zo == v["d"][1] else "has-newer-data"))
                elif "ts" in v:
                    out.append("field:timeseries")
        for p in case["pages"]:
            for d in p.get("items", []):
                out.extend(_series_features(d))
    return out


def _series_relation(a, b):
    """How two `timestamps` lists of one document relate (computed from the case, not from the generator)."""
    if a == b:
        return "identical" if a else "both-empty"
    if not a or not b:
        return "one-empty"
    if len(a) == len(b):
        if a[0] == b[0] and a[-1] == b[-1]:
            return "same-length-and-ends-differ-inside"
        if sorted(a) == sorted(b):
            return "same-stamps-other-order"
        if a[0] == b[0] or a[-1] == b[-1]:
            return "same-length-one-end-shared"
        return "same-length-differ"
    if set(a) <= set(b) or set(b) <= set(a):
        return "sub-series"
    return "different-length"


def _series_features(d):
    out = []
    ser = [v["timestamps"] for _, v in d if isinstance(v, dict) and "timestamps" in v]
    if not ser:
        return out
    zone = dict(d).get("timezone")
    out.append(f"series:fields:{len(ser)}")
    for a in ser:
        n = len(a)
        out.append("series:len:" + (str(n) if n < 3 else "3-5" if n <= 5 else "6+"))
        ep = [epoch_of_rfc(x) for x in a]
        if any(e is None for e in ep):
            out.append("series:malformed-stamp")
            continue
        if len(set(ep)) < n:
            out.append("series:repeated-stamp")
        if ep != sorted(ep):
            out.append("series:not-ascending")
        if n >= 2 and known_zone(zone) and len({_table_offset(zone, e) for e in ep}) > 1:
            out.append("series:straddles-zone-transition")
    for i in range(len(ser)):
        for j in range(i + 1, len(ser)):
            out.append("series-pair:" + _series_relation(ser[i], ser[j]))
    return out


def shrink(case, kind):
    """Drop pages / items while the failure kind persists."""
    if case["kind"] == "calendar":
        return case
    if case["kind"] == "dates":
        best = case
        for i in range(len(case["items"])):
            c = {"kind": "dates", "items": [case["items"][i]]}
            if any(f["kind"] == kind for f in oracle(c, run_impl(c))):
                return c
        return best

    def fails(c):
        try:
            return any(f["kind"] == kind for f in oracle(c, run_impl(c)))
        except Exception:
            return False

    import copy
    best = case
    changed = True
    while changed:
        changed = False
        for pi, p in enumerate(best.get("pages", [])):
            if p["kind"] != "page":
                continue
            for ii in range(len(p["items"])):
                c = copy.deepcopy(best)
                del c["pages"][pi]["items"][ii]
                if fails(c):
                    best = c
                    changed = True
                    break
            if changed:
                break
            # drop whole fields of a document (time series first) while the failure persists
            for ii, d in enumerate(p["items"]):
                for fi, (name, v) in enumerate(d):
                    if name in ("_id", "timezone"):
                        continue
                    c = copy.deepcopy(best)
                    del c["pages"][pi]["items"][ii][fi]
                    if fails(c):
                        best = c
                        changed = True
                        break
                if changed:
                    break
            if changed:
                break
    return best
