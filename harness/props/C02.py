"""C02 — the energy ledger: recorded rates, each EV's delivered energy and its battery's charge gain agree;
rates are 0 at vacant stations; peak = max aggregate current; total energy = integral of aggregate power."""
from __future__ import annotations

import copy
import itertools
import json
import warnings

import numpy as np

from core import simcase as S
from core import impl as I
from core.common import close

ID = "C02"
LEAN_MODULES = ["AcnProofs.C02", "AcnProofs.C02Json"]
TIE_MODULES = ["AcnProofs.Lemmas.CodeTieBattery"]
DRIVER = "drv_C02"          # the shared `Acn.Sim` model + the spec sums of the theorems evaluated on the model (+ two-run chain)
REQUIRED_THEOREMS = [
    "Acn.C02.ledger_ideal", "Acn.C02.ledger_stepwise", "Acn.C02.ledger_continuous", "Acn.C02.ledger_zero_pilot",
    "Acn.C02.ev_charge_step", "Acn.C02.ev_energy_eq_battery_gain", "Acn.C02.ledger_invariant",
    "Acn.C02.sim_energy_eq_battery_gain", "Acn.C02.session_energy_all", "Acn.C02.session_energy_eq_sum",
    "Acn.C02.rate_zero_when_vacant", "Acn.C02.peak_eq_max", "Acn.C02.total_energy_eq_integral",
    "Acn.C02.session_energy_interval", "Acn.C02.session_energy_interval_complete", "Acn.C02.rates_zero_outside_interval", "Acn.C02.exec_sums_eq_spec", "Acn.C02.sim_rate_le_pilot",
    "Acn.C02.rerun_session_energy", "Acn.C02.run_keeps_sessions", "Acn.C02.rerun_session_energy_interval_of_sessions",
    "Acn.C02.rerun_session_energy_interval",
    # interrupted and resumed simulations (in place: C02.lean; through JSON: C02Json.lean)
    "Acn.C02.ledger_invariant_aborted", "Acn.C02.ledger_invariant_resume", "Acn.C02.ledger_invariant_resumed",
    "Acn.C02.ledger_invariant_resume_crash", "Acn.C02.sim_energy_eq_battery_gain_resumed",
    "Acn.C02.session_energy_eq_sum_resumed", "Acn.C02.rate_zero_when_vacant_resumed", "Acn.C02.peak_eq_max_resumed",
    "Acn.C02.total_energy_eq_integral_resumed", "Acn.C02.session_energy_interval_resumed",
    "Acn.C02.session_energy_interval_complete_resumed", "Acn.C02.rates_zero_outside_interval_resumed",
    "Acn.C02Json.crash_state_json_roundtrip", "Acn.C02Json.loaded_is_resumed", "Acn.C02Json.ledger_invariant_resume_json",
    "Acn.C02Json.ledger_invariant_resume_json_crash", "Acn.C02Json.resumed_calls", "Acn.C02Json.calls_json_roundtrip",
    "Acn.C02Json.resumedJ_resumed", "Acn.C02Json.resumedJ_json_exists", "Acn.C02Json.ledger_invariant_resumed_json",
]
BUDGET = {"quick": 900, "thorough": 6000, "search": 6000}
TRUSTED = ["numpy: zeros / column assignment / sum(axis=0) / dot as used by simulator.py and analysis.py",
           "numpy.random.normal draws are inputs of the model (patched in the harness process, same stream fed to the model)",
           "session ids identify EV objects; a network keeps its EVSEs in a dict (station ids distinct)",
           "IEEE-754 rounding: the ledger equalities hold exactly over an ordered field, within 1e-9 in doubles "
           "(exactly on the dyadic stream V=1000, period=60)"]
ASSUMPTIONS = ["the theorems and the model cover the plain ChargingNetwork; for the contrib StochasticNetwork (waiting queue, random "
               "space assignment, early departure in the post-charging hook) the ledger is checked by the implementation-only oracle, "
               "not proved: lean/AcnModel/StochasticLoop.lean (C19) has the loop without energies",
               "station ids pairwise distinct (StationsNodup); the run has not raised (a raise inside update_pilots "
               "leaves earlier stations charged but nothing recorded — outside the property, covered by the correspondence)",
               "interrupted and resumed simulations: the interruption is a raise out of _process_event, scheduler.run() or "
               "_update_schedules (Ledger.ApplyErr excludes a raise out of update_pilots / _store_actual_charging_rates: there the "
               "ledger really is broken, C02.lean has the counterexample); any number of interruptions, any scheduler at each "
               "resumed call (Ledger.Resumed); through JSON: Valid scenario, to_json / from_json (model: Registry.dump / load + "
               "RegistrySim.encode / decode of C09, any lawful scalar codec) at ANY point, any number of times (C02Json.ResumedJ) — "
               "C02Json.lean, a module of its own because Lemmas/ResumeRun (C09) and Lemmas/EventCoreSim (C01/C02) declare the "
               "same lemma names and cannot be imported together: C02Json proves that JSON steps add no new states "
               "(resumedJ_resumed: every ResumedJ state is a `Ledger.Resumed` state) and states the occupancy-snapshot clauses for "
               "them; the arrival <= t < departure form (session_energy_interval_resumed, ..._complete_resumed) is proved in "
               "C02.lean for every `Resumed` state",
               "occupancy is what the network shows at post_charging_update (the model's occLog); under C01's Valid this is "
               "arrival <= t < departure, which the oracle uses directly",
               "'station voltage' and 'period' are the values the station was REGISTERED with / the simulator was constructed with "
               "(inputs of the scenario; the oracle never reads them back from the network after the run, and reports a network that "
               "shows anything else); a scheduler may do what it likes with the objects the Interface hands it (active_sessions, "
               "infrastructure_info, active_evs copies, getter results) and with the schedule arrays it returned earlier — it may not "
               "reach into the simulator through private attributes or get_constraints() (live by design, C05)",
               "EV objects may have been through an earlier simulation: the theorems hold for arbitrary initial EV state, and for EVs put "
               "back with the public EV.reset() (model: lean/AcnModel/Rerun.lean — delivered energy and battery back, last charging rate "
               "kept) they give the absolute equalities (rerun_session_energy, rerun_session_energy_interval)"]
RULE = ("whole simulations through core.simcase: 1-6 stations of mixed EVSE classes with heterogeneous voltages "
        "(120/208/240/277.5 V), 0-25 sessions (half of all reuse back-to-back, simultaneous events), both battery classes "
        "(ideal, two-stage continuous/stepwise, noise 0/0.5/2 with the draws fed to both sides), capacity up to 100 kWh for "
        "requests <= 12 kWh, scripted multi-period schedules over random station subsets (vacant stations addressed, pilots "
        "above the battery's maximum power), real algorithms (oracle only), malformed stream (aborting runs: correspondence "
        "only); periods 0.5/1/5/15/60 min and on a quarter of the non-exact scenarios one that does not divide the hour or exceeds it "
        "(7, 8, 9, 11, 13, 25, 40, 45, 0.7, 3.5, 0.3, 61, 90, 120); "
        "on ~45 % of the scenarios of EVERY stream the scheduler is a VANDAL: it returns exactly the prescribed schedule (the model "
        "is unchanged) but, before and/or after deciding, scribbles in place over everything it was handed — the SessionInfo list, "
        "fresh active_sessions(), every array of infrastructure_info() (voltages, phases, limits, matrix, pilot bounds; styles: "
        "/1000 'kV', x1.25, roll, -777, 0, NaN), the deprecated active_evs copies (a what-if charge() on each, or charge / reset / attribute and "
        "battery overwrites), the dicts and lists of the other getters — and optionally returns its schedule as numpy arrays which it "
        "overwrites at its next invocation; the ledger is judged against the REGISTERED voltages of the case; "
        "on ~20 % of the valid scripted scenarios the SAME EV objects go through EV.reset() and a second simulation (fresh network "
        "and queue, the same or a late-starting scheduler, noise stream continued): both runs are judged by the oracle and compared "
        "with the model (driver chains run 1 -> Rerun.resetEv -> run 2); after every run the analysis functions are evaluated twice "
        "and the recorded matrices / peak / energies / voltages must be unchanged by that; "
        "thorough adds every layout of <= 3 sessions on <= 2 stations within horizon 5 with pilots from {0, 8, 40} (periods 5/1/15/7, "
        "every third with a vandal scheduler); "
        "a stochastic-network stream (real contrib StochasticNetwork, early_departure on/off, more simultaneous sessions than "
        "stations, small requests, seeded `random`; ORACLE ONLY, rows attributed to sessions by the occupancy at update_pilots); "
        "an INTERRUPTED-AND-RESUMED stream (every 15th slot: one scenario -> 2-4 cases; modelled scripted scenarios and ~10 % real "
        "algorithms, ~20 % exact): stations registered in NON-alphabetical id order (WEST-2 before EAST-1, S10 before S2, mixed "
        "case, descending, PS-9 before PS-10) at pairwise different voltages (exact: 1000*2^k), both battery classes, noise, "
        "multi-period schedules, vandal scheduler on ~45 %; the scheduler raises once in period k — a period with an arrival, with a "
        "departure, with both (back-to-back reuse), the LAST period (final unplug), a period without events — and the simulation is "
        "completed by run() again on the same object (core.simcase.run_impl_resume) or by to_json / from_json / update_scheduler "
        "/ run (run_impl_resume_json); a third of the scenarios add a run interrupted TWICE (each resumed either way); the final "
        "simulator object (after JSON: the LOADED one — its ev_history, network, matrices, peak) is judged by the same oracle, per "
        "station id against the voltages the case registered; every aborted state is judged too (energies = rows up to the crash "
        "period, battery gains, nothing recorded from the crash period on, peak); the aborted state(s) and the final state are compared with the "
        "model (drv_C02 'resume' chain, ledger sums evaluated on the model's final state); thorough adds every period 0..last as "
        "crash point, both ways, on every 25th valid small-scope layout; "
        "plus an exact stream (V=1000, period=60, dyadic pilots and batteries) checked with ZERO slack; "
        "non-trivial = run completed, >= 2 sessions received energy and some station was reused or addressed while vacant; "
        "distinct by hash of the case")

EXACT_PILOTS = [0.0, 0.5, 1.0, 2.0, 4.0, 8.0, 16.0, 32.0, 6.0, 12.0, 24.0, 3.0, 0.25]


# ------------------------------------------------------------------ corpus / generation


def _bi(cap=40.0, init=5.0, maxp=7.0):
    return {"two": False, "cap": cap, "init": init, "maxp": maxp}


def _b2(cap, init, maxp, noise, ts, calc):
    return {"two": True, "cap": cap, "init": init, "maxp": maxp, "noise": noise, "ts": ts, "calc": calc}


def _s(sid, st, a, d, req, batt, est=None):
    return {"session": sid, "station": st, "arrival": a, "departure": d, "requested": req, "batt": batt, "est": est}


def _st(i, V=208, kind=None):
    return {"id": f"S{i}", "kind": kind or {"t": "cont", "min": 0, "max": 32}, "V": V, "phase": 0}


def corpus():
    out = []
    # the Lean non-vacuity example: back-to-back reuse on A, vacant B addressed, pilots above every battery's maximum
    out.append({"stations": [_st(0, 1000), _st(1, 500)], "constraint": None,
                "sessions": [_s("x", "S0", 0, 2, 3.0, _bi(40.0, 5.0, 7.0)), _s("y", "S0", 2, 3, 9.0, _bi(10.0, 8.0, 7.0)),
                             _s("z", "S1", 1, 3, 5.0, _b2(20.0, 2.0, 4.0, 1.0, 0.8, "stepwise"))],
                "recomputes": [], "period": 60, "max_recompute": 1, "noise": [0.5, -0.25],
                "sched": {"type": "scripted", "default": [["S0", [16.0]], ["S1", [32.0]]], "script": []}})
    # request met early, battery keeps accepting (capacity >> request); heterogeneous voltages; continuous two-stage with noise
    out.append({"stations": [_st(0, 120), _st(1, 277.5), _st(2, 240)], "constraint": None,
                "sessions": [_s("a", "S0", 0, 6, 0.2, _bi(100.0, 1.0, 50.0)),
                             _s("b", "S1", 1, 5, 1.0, _b2(60.5, 40.0, 6.6, 2.0, 0.5, "continuous")),
                             _s("c", "S1", 5, 8, 4.0, _b2(10.0, 9.9, 3.3, 0.5, 0.9, "continuous")),
                             _s("d", "S2", 5, 7, 4.0, _b2(40.0, 39.0, 7.0, 0.0, 0.8, "stepwise"))],
                "recomputes": [3], "period": 5, "max_recompute": 2, "noise": [0.3, -1.2, 0.05, 2.5],
                "sched": {"type": "scripted", "default": [["S0", [32.0, 16.0]], ["S1", [30.0, 30.0]], ["S2", [8.0, 8.0]]],
                          "script": [{"t": 2, "sched": [["S2", [32.0, 32.0, 32.0, 32.0]]]}, {"t": 6, "sched": []}]}})
    # a session finishes exactly in the period in which another arrives elsewhere; multi-period schedule beyond departures
    out.append({"stations": [_st(0, 208), _st(1, 240)], "constraint": {"limit": 64.0},
                "sessions": [_s("p", "S0", 1, 4, 10.0, _bi()), _s("q", "S1", 4, 6, 10.0, _bi(10.0, 9.5, 3.3)),
                             _s("r", "S0", 4, 5, 2.0, _bi(60.5, 0.0, 6.6))],
                "recomputes": [], "period": 15, "max_recompute": None, "noise": [],
                "sched": {"type": "scripted", "default": [], "script": [{"t": 1, "sched": [["S0", [20.0] * 6], ["S1", [10.0] * 6]]}]}})
    # contrib StochasticNetwork, early departure: q0 meets its 0.5 kWh request in period 0 while q1 waits and is swapped in
    # by the post-charging hook (a hook that ran BEFORE the rates are recorded would lose q0's row)
    for early in (True, False):
        out.append({"network": "stochastic", "early_departure": early, "rand_seed": 7, "exact": True,
                    "stations": [_st(0, 1000)], "constraint": None,
                    "sessions": [_s("q0", "S0", 0, 4, 0.5, _bi(64.0, 1.0, 8.0)), _s("q1", "S0", 0, 3, 1.0, _bi(16.0, 0.0, 2.0)),
                                 _s("q2", "S0", 1, 5, 4.0, _bi(16.0, 8.0, 4.0))],
                    "recomputes": [], "period": 60, "max_recompute": 1, "noise": [],
                    "sched": {"type": "scripted", "default": [["S0", [4.0]]], "script": []}})
    # a scheduler that uses what it is handed as scratch space (here: converts "its" voltages to kV in place at every
    # invocation) while stations registered at 208 V and 240 V charge an ideal and two two-stage batteries, back-to-back
    # reuse of S0; same scenario with the other in-place habits
    for style, when, keep in (("kv", "before", False), ("roll", "after", True), ("scale", "both", False), ("neg", "both", True)):
        out.append({"stations": [_st(0, 208), _st(1, 240)], "constraint": {"limit": 64.0},
                    "sessions": [_s("s0", "S0", 0, 12, 8.0, _bi(40.0, 10.0, 7.0)),
                                 _s("s1", "S1", 3, 15, 6.0, _b2(20.0, 13.0, 6.6, 0.0, 0.8, "continuous")),
                                 _s("s2", "S0", 12, 20, 3.0, _b2(30.0, 5.0, 6.6, 0.5, 0.8, "stepwise"))],
                    "recomputes": [], "period": 5, "max_recompute": 1, "noise": [0.2, -0.4, 0.1],
                    "sched": {"type": "scripted", "default": [["S0", [28.0]], ["S1", [25.0]]], "script": [{"t": 16, "sched": [["S0", [12.0, 6.0]]]}]},
                    "vandal": {"style": style, "when": when, "keep": keep}})
    # the same EV objects in a second simulation after EV.reset(): `late` leaves run 1 while charging at 30 A and waits
    # at 0 A for five periods in run 2 (a scheduler that starts late); `early` is full before it leaves
    out.append({"stations": [_st(0, 208), _st(1, 240)], "constraint": {"limit": 64.0},
                "sessions": [_s("early", "S0", 0, 6, 3.0, _bi(10.0, 8.0, 7.0)), _s("late", "S1", 0, 9, 9.0, _bi(60.5, 5.0, 7.0)),
                             _s("next", "S0", 6, 9, 2.0, _b2(20.0, 15.0, 6.6, 0.5, 0.8, "continuous"))],
                "recomputes": [], "period": 5, "max_recompute": 1, "noise": [0.3, -0.1],
                "sched": {"type": "scripted", "default": [["S0", [16.0]], ["S1", [30.0]]], "script": []},
                "rerun": {"sched": {"type": "scripted", "default": [], "script": [{"t": t, "sched": [["S0", [16.0]], ["S1", [30.0]]]} for t in range(5, 10)]}}})
    # a period that does not divide the hour (7 min: 60 // 7 = 8 periods "per hour" would book 7 % too much), and one
    # longer than an hour; ideal batteries with room, reuse of S0
    for period in (7, 90):
        out.append({"stations": [_st(0, 208), _st(1, 240)], "constraint": None,
                    "sessions": [_s("a", "S0", 0, 4, 1.5, _bi(40.0, 5.0, 7.0)), _s("b", "S1", 1, 5, 9.0, _bi(100.0, 1.0, 50.0)),
                                 _s("c", "S0", 4, 6, 2.0, _bi(1.5, 0.0, 6.6))],
                    "recomputes": [], "period": period, "max_recompute": 1, "noise": [],
                    "sched": {"type": "scripted", "default": [["S0", [16.0]], ["S1", [32.0]]], "script": []}})
    out.extend(_exact_cases_fixed())
    out.extend(_resume_cases_fixed())
    return out


def _exact_cases_fixed():
    out = []
    out.append({"exact": True, "stations": [_st(0, 1000), _st(1, 1000)], "constraint": None,
                "sessions": [_s("e0", "S0", 0, 3, 4.0, _bi(64.0, 8.0, 8.0)), _s("e1", "S0", 3, 5, 2.0, _bi(16.0, 15.0, 4.0)),
                             _s("e2", "S1", 1, 4, 8.0, _bi(32.0, 0.0, 2.0))],
                "recomputes": [], "period": 60, "max_recompute": 1, "noise": [],
                "sched": {"type": "scripted", "default": [["S0", [6.0]], ["S1", [4.0]]],
                          "script": [{"t": 2, "sched": [["S0", [0.5, 12.0]], ["S1", [16.0, 0.25]]]}]}})
    return out


def _resume_cases_fixed():
    """the Lean example of C02Json.lean (WEST-2 at 240 V registered before EAST-1 at 120 V, back-to-back reuse of WEST-2,
    the aggregate peak of 35 A before the last period) interrupted in the event period 2, in the last period 3 and in
    period 1 — in place and through JSON —, and interrupted twice; and the same layout with noisy two-stage batteries"""
    def base(two):
        bx = _b2(40.0, 5.0, 6.0, 0.5, 0.8, "continuous") if two else _bi(40.0, 5.0, 6.0)
        bz = _b2(20.0, 2.0, 6.0, 1.0, 0.5, "stepwise") if two else _bi(20.0, 2.0, 6.0)
        return {"stations": [{"id": "WEST-2", "kind": {"t": "cont", "min": 0, "max": 32}, "V": 240, "phase": 0},
                             {"id": "EAST-1", "kind": {"t": "cont", "min": 0, "max": 32}, "V": 120, "phase": 0}],
                "constraint": None,
                "sessions": [_s("x", "WEST-2", 0, 2, 3.0, bx), _s("y", "WEST-2", 2, 3, 9.0, _bi(10.0, 8.0, 6.0)),
                             _s("z", "EAST-1", 1, 3, 5.0, bz)],
                "recomputes": [], "period": 60, "max_recompute": 1, "noise": [0.5, -0.25] if two else [],
                "sched": {"type": "scripted", "default": [["WEST-2", [25.0]], ["EAST-1", [10.0]]], "script": []}}
    out = []
    for two in (False, True):
        for crashes in ([{"k": 2, "via": "json"}], [{"k": 2, "via": "run"}], [{"k": 3, "via": "json"}], [{"k": 1, "via": "json"}],
                        [{"k": 1, "via": "json"}, {"k": 2, "via": "run"}], [{"k": 0, "via": "run"}, {"k": 3, "via": "json"}]):
            c = base(two)
            c["resume"] = {"crashes": crashes}
            out.append(c)
    return out


def gen_exact(rng):
    """V = 1000, period = 60: pilot [A] = power [kW] = energy per period [kWh]; dyadic values only, so every
    operation of the ledger is exact in doubles and the oracle uses zero slack."""
    ns = rng.randint(1, 4)
    stations = [_st(i, 1000, {"t": "cont", "min": 0, "max": 32}) for i in range(ns)]
    sessions = []
    cursor = {st["id"]: rng.randint(0, 3) for st in stations}
    for k in range(rng.randint(1, 8)):
        st = rng.choice(stations)["id"]
        arr = cursor[st] + rng.choice([0, 0, 1, 2])
        dep = arr + rng.choice([1, 2, 3, 5])
        cursor[st] = dep
        cap = rng.choice([16.0, 32.0, 64.0, 128.0])
        init = rng.choice([0.0, 1.0, cap / 2, cap - 1.0, cap - 0.5, cap])
        sessions.append(_s(f"e{k}", st, arr, dep, rng.choice([0.5, 2.0, 8.0]), _bi(cap, init, rng.choice([1.0, 2.0, 4.0, 8.0, 64.0]))))
    rng.shuffle(sessions)
    last = max(s["departure"] for s in sessions)

    def sched():
        sub = [s for s in stations if rng.random() < 0.8] or [stations[0]]
        n = rng.choice([1, 2, 3])
        return [[s["id"], [rng.choice(EXACT_PILOTS) for _ in range(n)]] for s in sub]

    script = [{"t": t, "sched": sched()} for t in range(last + 1) if rng.random() < 0.6]
    return {"exact": True, "stations": stations, "constraint": None, "sessions": sessions, "recomputes": [],
            "period": 60, "max_recompute": rng.choice([None, 1, 2]), "noise": [],
            "sched": {"type": "scripted", "default": sched(), "script": script}}


def gen_ledger(rng):
    """simcase scenario pushed towards the ledger's interesting region: a non-empty default schedule with high
    pilots on every station (so vacant stations are addressed and batteries saturate), large capacities."""
    c = S.gen_case(rng)
    if c["sched"]["type"] == "scripted" and rng.random() < 0.7:
        n = rng.choice([1, 1, 2, 3])
        dflt = []
        for st in c["stations"]:
            if rng.random() < 0.85:
                dflt.append([st["id"], [_hi_pilot(rng, st["kind"]) for _ in range(n)]])
        c["sched"]["default"] = dflt
    for s in c["sessions"]:
        r = rng.random()
        if r < 0.25:            # battery keeps accepting long after the request is met
            s["requested"] = round(rng.uniform(0.01, 0.5), 3)
            s["batt"]["cap"] = 100
            s["batt"]["init"] = round(rng.uniform(0, 20), 3)
        elif r < 0.4:           # nearly full battery: the rate drops below the pilot
            s["batt"]["init"] = round(I.num(s["batt"]["cap"]) - rng.choice([0.0, 0.01, 0.2, 1.0]), 3)
    return c


def _hi_pilot(rng, kind):
    if kind["t"] == "finite":
        rates = sorted(float(I.num(r)) for r in kind["rates"])
        return rng.choice(rates[-2:] + [rates[-1]])
    mx = I.num(kind["max"])
    hi = 64.0 if mx == float("inf") else float(mx)
    return rng.choice([hi, hi, hi / 2, round(rng.uniform(hi / 2, hi), 2)])


def exhaustive():
    """Every layout (valid and overlapping) of <= 3 sessions on <= 2 stations within horizon 5; pilots from
    {0, 8, 40} (40 A is above every battery's maximum power), battery class / voltage / period rotate."""
    slots = [(st, a, d) for st in ("S0", "S1") for a in range(0, 5) for d in range(a + 1, 6)]
    batts = [_bi(40.0, 5.0, 7.0), _bi(10.0, 9.0, 3.3), _b2(20.0, 15.0, 6.6, 0.0, 0.8, "continuous"),
             _b2(20.0, 2.0, 4.0, 1.0, 0.5, "stepwise"), _bi(100.0, 0.0, 50.0)]
    pil = [0.0, 8.0, 40.0]
    out = []
    k = 0
    for n in range(0, 4):
        for combo in itertools.combinations(range(len(slots)), n):
            ss = [_s(f"x{i}", slots[j][0], slots[j][1], slots[j][2], [0.3, 4.0, 50.0][(k + i) % 3], copy.deepcopy(batts[(k + 2 * i) % 5]))
                  for i, j in enumerate(combo)]
            if k % 2:
                ss.reverse()
            kind = {"t": "cont", "min": 0, "max": 80}
            p0, p1 = pil[k % 3], pil[(k // 3) % 3]
            script = [{"t": 2, "sched": [["S0", [p1, p0, 8.0]], ["S1", [40.0, 0.0, p0]]]}] if k % 4 == 0 else []
            out.append({"stations": [_st(0, [208, 120, 240][k % 3], kind), _st(1, [208, 277.5][k % 2], kind)], "constraint": None,
                        "sessions": ss, "recomputes": [], "period": [5, 1, 15, 7][(k // 2) % 4], "max_recompute": [1, None, 2][k % 3],
                        "noise": [0.5, -0.25, 1.5], "exhaustive": True,
                        "sched": {"type": "scripted", "default": [["S0", [p0]], ["S1", [p1]]], "script": script}})
            k += 1
    return out


def gen_stochastic(rng):
    """contrib StochasticNetwork (random space assignment, waiting queue, optional early departure) inside the
    real Simulator: more simultaneous sessions than stations, small requests so that EVs finish while others
    wait; `random` is seeded from the case.  Oracle only (the Sim model has no waiting queue)."""
    ns = rng.randint(1, 3)
    exact = rng.random() < 0.3
    if exact:
        stations = [_st(i, 1000, {"t": "cont", "min": 0, "max": 32}) for i in range(ns)]
        period = 60
    else:
        stations = [_st(i, rng.choice([208, 240, 120, 277.5]), {"t": "cont", "min": 0, "max": rng.choice([32, 80])}) for i in range(ns)]
        period = rng.choice([1, 5, 15, 60])
    nsess = rng.randint(ns + 1, ns + 7)
    sessions = []
    for k in range(nsess):
        arr = rng.choice([0, 0, 0, 1, 1, 2, 3, 4])
        dep = arr + rng.choice([2, 3, 4, 6, 8])
        if exact:
            cap = rng.choice([16.0, 64.0])
            batt = _bi(cap, rng.choice([0.0, 1.0, cap / 2]), rng.choice([2.0, 4.0, 8.0]))
            req = rng.choice([0.5, 1.0, 2.0, 4.0, 16.0])
        else:
            batt = I_gen_battery(rng)
            batt["cap"] = rng.choice([40, 100])
            batt["init"] = round(rng.uniform(0, 20), 3)
            req = rng.choice([round(rng.uniform(0.01, 0.4), 3), round(rng.uniform(0.2, 2.0), 3), 30.0])
        # the nominal station is ignored by the network (it draws a free one), so any registered id will do
        sessions.append(_s(f"q{k}", rng.choice(stations)["id"], arr, dep, req, batt))
    last = max(s["departure"] for s in sessions)

    def sched():
        n = rng.choice([1, 1, 2, 3])
        pil = EXACT_PILOTS[3:8] if exact else [8.0, 16.0, 32.0, 6.5, 24.0, 0.0]
        sub = [st for st in stations if rng.random() < 0.9] or [stations[0]]
        return [[st["id"], [rng.choice(pil) for _ in range(n)]] for st in sub]

    script = [{"t": t, "sched": sched()} for t in range(last + 1) if rng.random() < 0.3]
    c = {"network": "stochastic", "early_departure": rng.random() < 0.7, "rand_seed": rng.randrange(1 << 30),
         "stations": stations, "constraint": None, "sessions": sessions, "recomputes": [], "period": period,
         "max_recompute": rng.choice([1, 1, 2, None]), "noise": [round(rng.gauss(0, 1.0), 4) for _ in range(3)],
         "sched": {"type": "scripted", "default": sched(), "script": script}}
    if exact:
        c["exact"] = True
        c["noise"] = []
    return c


def I_gen_battery(rng):
    return S.gen_battery(rng)


ODD_PERIODS = [7, 8, 9, 11, 13, 25, 40, 45, 0.7, 3.5, 0.3, 61, 90, 120]


VANDAL_STYLES = ["kv", "scale", "roll", "neg", "zero", "nan"]


def gen_vandal(rng):
    """A scheduler that treats everything the interface hands it as its own scratch space (see `_vandal_hooks`)."""
    return {"style": rng.choice(VANDAL_STYLES + ["kv", "roll"]), "when": rng.choice(["before", "after", "both"]),
            "keep": rng.random() < 0.5}


def gen_rerun(rng, case):
    """Schedule of the SECOND simulation that re-uses the same EV objects after the public EV.reset(): the same
    scheduler, or one that starts late (empty default, nothing before t0), so that sessions which ended run 1
    while charging sit at 0 A in their first connected periods of run 2."""
    sc = case["sched"]
    if sc["type"] != "scripted" or rng.random() < 0.4:
        return {"sched": copy.deepcopy(sc)}
    arr = sorted({s["arrival"] for s in case["sessions"]}) or [0]
    t0 = rng.choice(arr) + rng.choice([1, 1, 2])
    return {"sched": {"type": "scripted", "default": [], "script": [copy.deepcopy(e) for e in sc.get("script", []) if e["t"] >= t0]}}


# ---- interrupted and resumed simulations


# registration order is NOT the sorted order of the ids (nor of their lower-cased forms): anything that re-sorts the
# stations of a network (a dict rebuilt from sorted keys, JSON written with sort_keys) puts another station's voltage /
# row under an id
ID_SCHEMES = [
    ["WEST-2", "EAST-1", "NORTH-3", "CENTRAL-0", "SOUTH-9", "ANNEX-4"],
    ["S10", "S2", "S1", "S21", "S3", "S12"],
    ["b2", "B1", "a3", "A0", "c1", "C5"],
    ["Z-1", "Y-2", "X-3", "W-4", "V-5", "U-6"],
    ["PS-9", "PS-10", "PS-8", "PS-11", "PS-1", "PS-20"],
]


def _rename_stations(case, names):
    """everything keyed by station id (sessions, schedules) follows the new ids; list order = registration order"""
    m = {st["id"]: names[i] for i, st in enumerate(case["stations"])}
    for st in case["stations"]:
        st["id"] = m[st["id"]]
    for x in case["sessions"]:
        x["station"] = m.get(x["station"], x["station"])
    sc = case.get("sched") or {}
    if "default" in sc:
        sc["default"] = [[m.get(k, k), v] for k, v in sc["default"]]
    for e in sc.get("script", []):
        if "sched" in e:
            e["sched"] = [[m.get(k, k), v] for k, v in e["sched"]]
    return case


def _distinct_voltages(rng, case):
    """every station at its own voltage (exact scenarios: 1000 * 2^k, so that the arithmetic stays exact)"""
    volts = [1000, 2000, 500, 4000, 250, 8000] if case.get("exact") else [208, 240, 120, 277.5, 400, 230]
    off = rng.randrange(len(volts))
    for i, st in enumerate(case["stations"]):
        st["V"] = volts[(i + off) % len(volts)]
    return case


def gen_resume(rng):
    """One scenario (valid layout, >= 1 session, stations registered in non-alphabetical id order at pairwise different
    voltages) with several crash points: the scheduler raises once in period k — a period with an arrival, one with a
    departure, the LAST period (the final unplug), a period without events — and the simulation is completed EITHER by
    calling run() again on the same object OR through to_json / from_json / update_scheduler / run.  A third of the
    scenarios add a run that is interrupted TWICE (each interruption resumed in place or through JSON)."""
    for _ in range(20):
        r = rng.random()
        if r < 0.2:
            c = gen_exact(rng)
        elif r < 0.3:
            c = S.gen_case(rng, real_algos=True, max_sessions=10)
        else:
            c = gen_ledger(rng)
        if c["sessions"] and len(c["sessions"]) <= 14 and (len(c["stations"]) >= 2 or rng.random() < 0.15):
            break
    _rename_stations(c, rng.choice(ID_SCHEMES))
    _distinct_voltages(rng, c)
    if not c.get("exact") and rng.random() < 0.2:
        c["period"] = rng.choice(ODD_PERIODS)
    arr = sorted({x["arrival"] for x in c["sessions"]})
    dep = sorted({x["departure"] for x in c["sessions"]})
    last = dep[-1]
    cand = [rng.choice(arr), rng.choice(dep), last]
    both = [t for t in arr if t in dep]
    if both:
        cand.append(rng.choice(both))           # a departure and an arrival in the crash period (back-to-back reuse)
    quiet = [t for t in range(arr[0], last) if t not in arr and t not in dep]
    if quiet:
        cand.append(rng.choice(quiet))          # no event: the scheduler runs there only with max_recompute / a resolve
    ks = []
    for k in cand:
        if k not in ks:
            ks.append(k)
    rng.shuffle(ks)
    out = []
    for k in ks[:3]:
        d = copy.deepcopy(c)
        d["resume"] = {"crashes": [{"k": k, "via": "json" if rng.random() < 0.6 else "run"}]}
        out.append(d)
    ev = sorted(set(arr + dep))
    if len(ev) >= 2 and rng.random() < 0.35:
        k1, k2 = sorted(rng.sample(ev, 2))
        d = copy.deepcopy(c)
        d["resume"] = {"crashes": [{"k": k1, "via": rng.choice(["json", "run"])}, {"k": k2, "via": rng.choice(["json", "run"])}]}
        out.append(d)
    for d in out:
        if rng.random() < 0.45:
            d["vandal"] = gen_vandal(rng)
    return out


def resume_sweep():
    """thorough tier: for every 25th valid small-scope layout (>= 1 session) and the fixed scenarios, EVERY period 0..last as the
    crash point, in place and through JSON; stations renamed WEST-2 / EAST-1 at 240 V / 120 V"""
    out = []
    base = [c for c in exhaustive() if c["sessions"] and S.is_valid_layout(c)][::25]
    for j, c in enumerate(base):
        c = copy.deepcopy(c)
        c.pop("exhaustive", None)
        _rename_stations(c, ID_SCHEMES[j % len(ID_SCHEMES)])
        c["stations"][0]["V"], c["stations"][1]["V"] = 240, 120
        last = max(x["departure"] for x in c["sessions"])
        if not S.is_valid_layout(c):
            continue
        for k in range(0, last + 1):
            for via in ("json", "run"):
                d = copy.deepcopy(c)
                d["resume"] = {"crashes": [{"k": k, "via": via}]}
                if (j + k) % 4 == 0:
                    d["vandal"] = {"style": VANDAL_STYLES[(j + k) % len(VANDAL_STYLES)], "when": "both", "keep": bool(k % 2)}
                out.append(d)
    return out


def _decorate(rng, c):
    """vandal scheduler on ~45 % of all scenarios (every stream), EV re-use on ~20 % of the plain scripted ones"""
    if rng.random() < 0.45:
        c["vandal"] = gen_vandal(rng)
    if not c.get("exact") and rng.random() < 0.25:
        c["period"] = rng.choice(ODD_PERIODS)       # minutes that do not divide the hour (and periods beyond one hour)
    if (c.get("network") != "stochastic" and not c.get("malformed") and S.is_modelled(c) and c["sessions"]
            and S.is_valid_layout(c) and rng.random() < 0.2):
        c["rerun"] = gen_rerun(rng, c)
    return c


def generate(rng, n, tier):
    out = []
    if tier == "thorough":
        out.extend(exhaustive())
        for k, c in enumerate(out):         # the small-scope layouts rotate through the vandal schedulers as well
            if k % 3 == 0:
                c["vandal"] = {"style": VANDAL_STYLES[(k // 3) % len(VANDAL_STYLES)], "when": ["before", "after", "both"][(k // 18) % 3],
                               "keep": bool((k // 3) % 2)}
    if tier == "thorough":
        out.extend(resume_sweep())
    for i in range(n):
        if i % 15 == 14:
            out.extend(gen_resume(rng))         # one scenario, several crash points (2-4 cases)
            continue
        if i % 15 == 7:
            # driven through Simulator.step(): each call simulates SEVERAL periods when max_recompute is None or > 1 (the
            # bookkeeping of peak / rates must be per period, not per call); the rest of the run is finished by run().
            # ORACLE ONLY (the Sim model has run() only; step() is modelled for C04 / C05)
            c = S.gen_step_case(rng, max_sessions=10)
            c["max_recompute"] = rng.choice([None, None, None, 3, 7])
            # step() applies the events of period t at the END of the pass for t-1, so an event with timestamp 0 is overdue
            # when the first pass charges period 0 (C05: NoOverdue; DESIGN §8/§16): the scenario starts in period 1
            if any(x["arrival"] == 0 for x in c["sessions"]) or 0 in c.get("recomputes", []):
                for x in c["sessions"]:
                    x["arrival"] += 1
                    x["departure"] += 1
                    if x.get("est") is not None:
                        x["est"] += 1
                c["recomputes"] = [r + 1 for r in c.get("recomputes", [])]
            out.append(c)
            continue
        r = i % 12
        if r in (0, 1):
            c = gen_exact(rng)
        elif r in (2, 7, 8):
            c = gen_stochastic(rng)
        elif r == 3:
            c = S.gen_case(rng, malformed=True)
        elif r == 4:
            c = S.gen_case(rng, real_algos=True, max_sessions=12)
        elif r in (5, 6):
            c = S.gen_case(rng)
        else:
            c = gen_ledger(rng)
        out.append(_decorate(rng, c))
    return out


def search(rng, n):
    return generate(rng, n, "search")


# ------------------------------------------------------------------ implementation / model


def _batt_json(ev):
    """battery state through the public serialisation of the EV"""
    with warnings.catch_warnings():
        warnings.simplefilter("ignore")
        d = json.loads(ev.to_json())
    ctx = d["context_dict"]
    a = ctx[d["id"]]["attributes"]
    b = ctx[a["_battery"]]["attributes"]
    return {"charge": float(b["_current_charge"]), "init": float(b["_init_charge"])}


_STOCH_CLS = {}


def _stoch_cls(early):
    """StochasticNetwork that records, through the public `update_pilots`, who is connected where at the moment
    the pilots of a period are applied (= who is charged in that period)."""
    if early not in _STOCH_CLS:
        from acnportal.contrib.acnsim.network import StochasticNetwork

        class SnapStochastic(StochasticNetwork):
            def __init__(self, *a, **k):
                super().__init__(*a, early_departure=early, **k)
                self.occ_log = []

            def update_pilots(self, pilots, i, period):
                self.occ_log.append([(e.ev.session_id if e.ev is not None else None) for e in self._EVSEs.values()])
                return super().update_pilots(pilots, i, period)

        _STOCH_CLS[early] = SnapStochastic
    return _STOCH_CLS[early]


# ---- the vandal scheduler: everything the Interface HANDS to a scheduler is the scheduler's own scratch space


def _scribble(a, style):
    """overwrite a numpy array IN PLACE (the ways a scheduler plausibly does: unit conversion, rescaling,
    re-ordering, plain overwriting)"""
    if not isinstance(a, np.ndarray) or a.ndim == 0:
        return
    try:
        if a.dtype == bool:
            a[...] = ~a
        elif a.dtype.kind == "f":
            if style == "kv":
                a /= 1000.0
            elif style == "scale":
                a *= 1.25
            elif style == "roll":
                a[...] = np.roll(a, 1, axis=-1)
            elif style == "zero":
                a[...] = 0.0
            elif style == "nan":
                a[...] = np.nan
            else:
                a[...] = -777.0
        elif a.dtype.kind in "iu":
            a[...] = 0 if style == "zero" else -7
        else:
            a[...] = None
    except Exception:  # noqa: BLE001  (read-only array)
        pass


def _wreck(x, style, depth=0):
    """mutate an object graph in place: arrays scribbled, lists / dicts / sets emptied after their members were
    wrecked, attributes of plain objects overwritten"""
    if depth > 3 or x is None or isinstance(x, (str, bytes, int, float, bool, complex, np.generic)):
        return
    if isinstance(x, np.ndarray):
        _scribble(x, style)
        return
    try:
        if isinstance(x, (list, tuple)):
            for y in list(x):
                _wreck(y, style, depth + 1)
            if isinstance(x, list):
                x.append("junk")
                x.reverse()
                del x[:]
        elif isinstance(x, dict):
            for y in list(x.values()):
                _wreck(y, style, depth + 1)
            x.clear()
        elif isinstance(x, set):
            x.clear()
        elif hasattr(x, "__dict__"):
            for name, y in list(vars(x).items()):
                _wreck(y, style, depth + 1)
            for name, y in list(vars(x).items()):
                try:
                    if isinstance(y, np.ndarray):
                        setattr(x, name, np.array([]))
                    elif isinstance(y, bool):
                        setattr(x, name, not y)
                    elif isinstance(y, (int, np.integer)):
                        setattr(x, name, 10 ** 6 if "depart" in name else -5)
                    elif isinstance(y, (float, np.floating)):
                        setattr(x, name, 1e9)
                    elif isinstance(y, str):
                        setattr(x, name, "ZZ-" + y)
                except Exception:  # noqa: BLE001
                    pass
    except Exception:  # noqa: BLE001
        pass


def _wreck_evs(evs, style):
    """the deprecated `active_evs` copies: charged (styles kv / scale / roll: only that), reset, every attribute (and the
    battery's) overwritten"""
    orig = np.random.normal
    np.random.normal = lambda *a, **k: 0.0      # the vandal's own charge() calls must not eat the scenario's noise draws
    try:
        for e in list(evs):
            try:
                if style in ("kv", "scale", "roll"):
                    # the gentle habit: a what-if on its own copies ("how much would this EV take in the next period?")
                    e.charge(8.0, 208.0, 5.0)
                    continue
                e.charge(32.0, 240.0, 5.0)
                e.reset()
                e.charge(16.0, 208.0, 60.0)
                e._energy_delivered = 1e9
                e._current_charging_rate = -3.0 if style != "zero" else 0.0
                e.arrival = -1
                e.departure = 10 ** 6
                e.estimated_departure = -2
                e.update_station_id("ZZ")
                e._session_id = "vandal"
                e._requested_energy = 0.0
                b = e._battery
                b._current_charge = 0.0
                b._init_charge = 123.0
                b._capacity = 1.0
                b._max_power = 1e6
                b._current_charging_power = 55.0
            except Exception:  # noqa: BLE001
                pass
    finally:
        np.random.normal = orig
    try:
        evs.append("junk")
        del evs[:]
    except Exception:  # noqa: BLE001
        pass


def _wreck_everything(iface, handed, style):
    """handed: the objects the simulator passed in (or None: ask the interface for fresh ones only)"""
    if handed is not None:
        _wreck(handed, style)
    for get in (iface.active_sessions, iface.infrastructure_info):
        try:
            _wreck(get(), style)
        except Exception:  # noqa: BLE001
            pass
    try:
        with warnings.catch_warnings():
            warnings.simplefilter("ignore")
            evs = iface.active_evs
        _wreck_evs(evs, style)
    except Exception:  # noqa: BLE001
        pass
    getters = [lambda: iface.last_applied_pilot_signals, lambda: iface.last_actual_charging_rate,
               lambda: iface.get_prices(3), lambda: iface.get_prices(2, 0)]
    try:
        for st in list(iface.infrastructure_info().station_ids):
            getters.append(lambda st=st: iface.allowable_pilot_signals(st)[1])
    except Exception:  # noqa: BLE001
        pass
    for g in getters:
        try:
            _wreck(g(), style)
        except Exception:  # noqa: BLE001
            pass


def _vandal_hooks(case, network_cls=None):
    """Hooks of a scheduler that returns exactly the schedule the scenario prescribes (so the model needs to know
    nothing about it) but scribbles over every array / object it was handed: the SessionInfo list passed to
    schedule(), fresh active_sessions(), infrastructure_info() (every array, in place: voltages, phases, limits,
    matrix, pilot bounds), the deprecated active_evs copies (charge / reset / attribute overwrites), the dicts and
    lists of the other getters.  `keep`: it returns its schedule as numpy arrays, keeps them and overwrites them
    at its next invocation.  Not touched: get_constraints() (live by design), anything private of the interface."""
    v = case.get("vandal")
    if not v:
        return S.Hooks(network_cls=network_cls)
    style, when, keep = v.get("style", "neg"), v.get("when", "both"), bool(v.get("keep"))
    real = not S.is_modelled(case)         # a real algorithm reads `sessions` after the before-hook: leave those alone
    kept = []

    def before(algo, iface, sessions):
        for d in kept:
            _wreck(d, "neg")
        del kept[:]
        if when in ("before", "both"):
            _wreck_everything(iface, None if real else sessions, style)

    def after(algo, iface, sessions, schedule):
        if when in ("after", "both"):
            _wreck_everything(iface, sessions, style)
        if keep and isinstance(schedule, dict) and schedule and all(isinstance(x, list) for x in schedule.values()) \
                and len({len(x) for x in schedule.values()}) == 1:
            out = {k: np.array(x, dtype=float) for k, x in schedule.items()}
            kept.append(out)
            return out
        return None

    return S.Hooks(before=before, after=after, network_cls=network_cls)


def _build_again(case, sched, evs, hooks):
    """a second Simulator (fresh network, EVSEs, queue, scheduler) around the SAME EV objects"""
    from acnportal.acnsim.simulator import Simulator
    from acnportal.acnsim.network.current import Current
    from acnportal.acnsim.events import EventQueue, PluginEvent, RecomputeEvent
    net = (hooks.network_cls or S.SnapshotNetwork)()
    for st in case["stations"]:
        net.register_evse(I.make_evse(st["kind"], st["id"]), I.num(st["V"]), I.num(st.get("phase", 0)))
    con = case.get("constraint")
    if con:
        net.add_constraint(Current([st["id"] for st in case["stations"]]), I.num(con["limit"]), name="agg")
    events = [PluginEvent(ev.arrival, ev) for ev in evs]
    events += [RecomputeEvent(int(r)) for r in case.get("recomputes", [])]
    algo = S.make_scheduler(dict(case, sched=sched), hooks)
    sim = Simulator(net, algo, EventQueue(events), S.START, period=I.num(case["period"]), verbose=False)
    return sim, {"network": net, "scheduler": algo, "evs": evs, "hooks": hooks}


def _ledger_obs(sim, obs, stoch):
    """the ledger's observables of one finished run, added to the canonical observation `obs`"""
    from acnportal import acnsim
    net = sim.network
    if stoch:
        obs["stoch"] = {"swaps": int(net.swaps), "early_unplug": int(net.early_unplug), "never_charged": int(net.never_charged),
                        "waiting_end": len(net.waiting_queue)}
    volts = net.voltages
    obs["voltages"] = [float(volts[s]) for s in net.station_ids]
    obs["station_ids"] = list(net.station_ids)
    hist = []
    for sid, ev in sim.ev_history.items():
        bj = _batt_json(ev)
        hist.append({"session": sid, "station": ev.station_id, "arrival": int(ev.arrival), "departure": int(ev.departure),
                     "delivered": float(ev.energy_delivered), "charge": bj["charge"], "init": bj["init"]})
    obs["hist"] = hist
    obs["period"] = float(sim.period)

    def analysis():
        with warnings.catch_warnings():
            warnings.simplefilter("ignore")
            return {"total_energy": float(acnsim.total_energy_delivered(sim)),
                    "agg_power": [float(x) for x in np.asarray(acnsim.aggregate_power(sim)).ravel()],
                    "agg_current": [float(x) for x in np.asarray(acnsim.aggregate_current(sim)).ravel()]}

    first = analysis()
    obs.update(first)
    # reading the record must not change it: the analysis functions asked again give the same answers, and the
    # recorded matrices / peak / per-EV energies are what they were before anything was computed from them
    changed = [k for k, x in analysis().items() if _differs(x, first[k])]
    if _differs([[float(x) for x in row] for row in sim.charging_rates], obs["rates"]):
        changed.append("charging_rates")
    if _differs([[float(x) for x in row] for row in sim.pilot_signals], obs["pilots"]):
        changed.append("pilot_signals")
    if _differs(float(sim.peak), obs["peak"]):
        changed.append("peak")
    if _differs([float(ev.energy_delivered) for ev in sim.ev_history.values()], [h["delivered"] for h in hist]):
        changed.append("energy_delivered")
    if _differs([float(net.voltages[s]) for s in net.station_ids], obs["voltages"]):
        changed.append("voltages")
    obs["changed_by_analysis"] = changed
    return obs


def _differs(a, b):
    """exact comparison of nested lists of doubles, NaN equal to NaN"""
    if isinstance(a, list) or isinstance(b, list):
        return not (isinstance(a, list) and isinstance(b, list) and len(a) == len(b)) or any(_differs(x, y) for x, y in zip(a, b))
    return not (a == b or (a != a and b != b))


def _resume_chain(case, hooks, crashes, keep):
    """run(); every time it raises SchedulerFailed the simulation is continued — by run() on the same object, or
    through to_json / from_json / update_scheduler / run — as the n-th entry of `crashes` (ascending k) says.  Built
    from the primitives of core.simcase (`run_impl_resume`, `run_impl_resume_json` are the one-crash instances)."""
    from acnportal.acnsim import Simulator as _Sim
    vias = [c["via"] for c in sorted(crashes, key=lambda c: c["k"])]
    use_json = "json" in vias
    if use_json:
        hooks.network_cls = S.JsonLogNetwork
        del S._JSON_OCC[:]
    with S.noise_stream(case.get("noise", [])) as ns:
        sim, ctx = S.build_sim(case, hooks)
        aborted = []
        missing = []
        err = S.run_sim(sim)
        n = 0
        while err == "SchedulerFailed" and n < len(vias):
            o = S.observe(sim, ctx, err)
            if use_json:
                o["occ"] = [list(r) for r in S._JSON_OCC]
            aborted.append(o)
            if vias[n] == "json":
                with warnings.catch_warnings():
                    warnings.simplefilter("ignore")
                    sim2 = _Sim.from_json(sim.to_json())
                    sim2.update_scheduler(ctx["scheduler"])
                by = S._all_evs_of(sim2)
                ctx = {"network": sim2.network, "scheduler": ctx["scheduler"], "hooks": hooks,
                       "evs": [by[x["session"]] for x in case["sessions"] if x["session"] in by]}
                missing = [x["session"] for x in case["sessions"] if x["session"] not in by]
                sim = sim2
            err = S.run_sim(sim)
            n += 1
        obs = S.observe(sim, ctx, err)
        if use_json:
            obs["occ"] = [list(r) for r in S._JSON_OCC]
        if aborted:
            obs["first"] = aborted[0]
            obs["aborted"] = aborted
        obs["missing_evs"] = missing
        obs["noise_draws"] = ns["k"]
    keep["sim"], keep["ctx"] = sim, ctx
    return obs


def _run_resumed(case):
    crashes = case["resume"]["crashes"]
    hooks = _vandal_hooks(case)
    hooks.fail_at = {int(c["k"]) for c in crashes}
    keep = {}
    if len(crashes) == 1 and crashes[0]["via"] == "json":
        obs = S.run_impl_resume_json(case, hooks, keep=keep)
    elif len(crashes) == 1:
        obs = S.run_impl_resume(case, hooks, keep=keep)
    else:
        obs = _resume_chain(case, hooks, crashes, keep)
    if "first" in obs and "aborted" not in obs:
        obs["aborted"] = [obs["first"]]
    # the completed simulation is judged like any other: the ledger's observables of the FINAL simulator object (after a
    # JSON resume: the loaded one — its ev_history, its network, its matrices)
    _ledger_obs(keep["sim"], obs, False)
    return obs


def run_impl(case):
    if case.get("steps") is not None:
        keep = {}
        obs = S.run_impl_steps(case, keep=keep, finish=True)
        _ledger_obs(keep["sim"], obs, False)
        return obs
    if case.get("resume"):
        return _run_resumed(case)
    stoch = case.get("network") == "stochastic"
    hooks = _vandal_hooks(case, _stoch_cls(bool(case.get("early_departure"))) if stoch else None)
    with S.noise_stream(case.get("noise", [])) as ns:
        if stoch:
            import random as _random
            st0 = _random.getstate()
            _random.seed(case["rand_seed"])
            try:
                sim, ctx = S.build_sim(case, hooks)
                err = S.run_sim(sim)
            finally:
                _random.setstate(st0)
        else:
            sim, ctx = S.build_sim(case, hooks)
            err = S.run_sim(sim)
        obs = S.observe(sim, ctx, err)
        obs["noise_draws"] = ns["k"]
        _ledger_obs(sim, obs, stoch)
        if case.get("rerun") and not stoch and err is None:
            # the same EV objects, put back to their initial state through the public EV.reset(), go through a
            # second simulation (fresh network / queue / scheduler): `obs` describes run 2, obs["run1"] run 1
            k1 = ns["k"]
            for ev in ctx["evs"]:
                ev.reset()
            hooks2 = _vandal_hooks(case)
            sim2, ctx2 = _build_again(case, case["rerun"]["sched"], ctx["evs"], hooks2)
            err2 = S.run_sim(sim2)
            obs2 = S.observe(sim2, ctx2, err2)
            obs2["noise_draws"] = ns["k"] - k1
            _ledger_obs(sim2, obs2, False)
            obs2["run1"] = obs
            obs = obs2
    return obs


def model_request(case):
    if case.get("steps") is not None:
        return None             # oracle only
    if case.get("network") == "stochastic":
        return None             # oracle only: the Sim model composes the run loop with a plain ChargingNetwork
    if case.get("resume"):
        # the scheduler raises once in each crash period; run() is called again from the state it left.  The in-place and
        # the JSON resume are compared with the SAME model run (C09 / C02Json.crash_state_json_roundtrip: the round trip
        # is the identity on the state).  n-th resumed call: the script that still fails in the later crash periods.
        ks = sorted(int(c["k"]) for c in case["resume"]["crashes"])
        req = S.model_request(case, fail_at=ks, resume=True)
        if req is not None:
            chain = [S.model_request(case, fail_at=ks[j:])["sched"] for j in range(1, len(ks))]
            req["resume"] = chain + [req["resume"]]
        return req
    req = S.model_request(case)
    if req is not None and case.get("rerun"):
        # two simulations over the same EV objects: the driver runs the first, applies the model of EV.reset()
        # (lean/AcnModel/Rerun.lean: energy and battery back, the last charging rate stays), continues the noise
        # stream and runs the second one with the second scheduler
        req["rerun"] = {"sched": S.model_request(dict(case, sched=case["rerun"]["sched"]))["sched"]}
    return req


def compare(case, obs, model):
    if ("run1" in obs) != ("run1" in model):
        return ["two runs over the same EV objects: only one side completed the first run "
                f"(impl err {obs.get('run1', obs).get('err')!r}, model err {model.get('run1', model).get('err')!r})"]
    if case.get("resume"):
        diffs = _compare_run(case, obs, model)
        ao, am = obs.get("aborted", []), model.get("aborted", [])
        if len(ao) != len(am):
            diffs.append(f"resume: the implementation was interrupted {len(ao)} time(s) (periods {[o['iter'] for o in ao]}), "
                         f"the model {len(am)} time(s) (periods {[m['iter'] for m in am]})")
        else:
            for j, (o, m) in enumerate(zip(ao, am)):
                if j == 0:
                    continue                    # the first interruption is compared by S.compare ("first")
                S.compare_state(case, o, S.decode_model(m), diffs, tag=f"interrupted run {j + 1}: ")
        return diffs[:12]
    if "run1" in obs:
        d1 = ["run 1: " + d for d in _compare_run(case, obs["run1"], model["run1"])]
        d2 = ["run 2 (same EV objects after EV.reset()): " + d
              for d in _compare_run(dict(case, sched=case["rerun"]["sched"]), obs, model)]
        return (d1 + d2)[:12]
    return _compare_run(case, obs, model)


def _compare_run(case, obs, model):
    # rates matrix, per-EV delivered / rate / battery charge and power, peak, occupancy log, pilots, events, error class
    diffs = S.compare(case, obs, model)
    # the theorems' equalities, executed on the MODEL's final state (spec sums of LedgerExec.lean)
    led = model.get("ledger")
    if led is None:
        diffs.append("model answer carries no ledger section")
    elif model.get("err") is None:
        exact = bool(case.get("exact"))
        b2f = S.b2f
        for e in led["evs"]:
            if e.get("missing"):
                diffs.append(f"model: EV {e['session']} not found in the final state")
                continue
            d, g, a, iv = b2f(e["delta"]), b2f(e["gain"]), b2f(e["sum_all"]), b2f(e["sum_interval"])
            if not _eq(d, g, exact):
                diffs.append(f"model ledger: {e['session']} delivered {d!r} != battery gain {g!r}")
            if not _eq(d, a, exact):
                diffs.append(f"model ledger: {e['session']} delivered {d!r} != sum over the occupancy log {a!r}")
            if S.is_valid_layout(case) and not _eq(d, iv, exact):
                diffs.append(f"model ledger: {e['session']} delivered {d!r} != sum over [arrival, departure) {iv!r}")
        if not _eq(b2f(led["peak_spec"]), b2f(model["peak"]), exact):
            diffs.append(f"model ledger: peak {b2f(model['peak'])!r} != max aggregate {b2f(led['peak_spec'])!r}")
        ids = [s["session"] for s in case["sessions"]]
        if len(set(ids)) == len(ids) and not _eq(b2f(led["sum_delivered"]), b2f(led["integral"]), exact):
            diffs.append(f"model ledger: total delivered {b2f(led['sum_delivered'])!r} != integral of power {b2f(led['integral'])!r}")
        if led["vacant_nonzero"] != 0:
            diffs.append(f"model ledger: {led['vacant_nonzero']} non-zero rate cells at vacant stations / future periods")
    return diffs[:12]


# ------------------------------------------------------------------ oracle: C02 on the implementation alone


def _eq(a, b, exact):
    return a == b if exact else close(a, b)


def _oracle_aborted(case, ab, tag):
    """the ledger at the moment run() raised (theorem ledger_invariant_aborted): `_iteration` = t, the periods < t are
    recorded, period t and everything after it is not, no EV has charged for period t.  From the canonical observation of
    the aborted simulator; rows in registration order, voltages as registered."""
    if ab.get("err") != "SchedulerFailed" or not S.is_valid_layout(case):
        return []
    exact = bool(case.get("exact"))
    fails = []
    T = float(I.num(case["period"]))
    sts = [st["id"] for st in case["stations"]]
    V = [float(I.num(st["V"])) for st in case["stations"]]
    rates, t = ab["rates"], ab["iter"]
    width = len(rates[0]) if rates else 0
    by = {e["session"]: e for e in ab["evs"]}
    for x in case["sessions"]:
        e = by.get(x["session"])
        if e is None or x["station"] not in sts:
            continue
        i = sts.index(x["station"])
        acc = 0.0
        for u in range(max(x["arrival"], 0), min(x["departure"], t, width)):
            acc += (rates[i][u] * V[i]) / 1000 * (T / 60)
        if not _eq(acc, e["delivered"], exact):
            fails.append({"kind": "session_energy_at_interruption", "detail": f"{tag}session {x['session']}: sum over "
                          f"[{x['arrival']},min({x['departure']},{t})) of rates[{x['station']}]*V/1000*period/60 = {acc!r}, "
                          f"energy_delivered = {e['delivered']!r}"})
        gain = e["charge"] - float(I.num(x["batt"]["init"]))
        if not _eq(gain, e["delivered"], exact):
            fails.append({"kind": "battery_gain_at_interruption", "detail": f"{tag}session {x['session']}: battery gain {gain!r} "
                          f"but energy_delivered = {e['delivered']!r}"})
    for i in range(len(rates)):
        if any(r != 0 for r in rates[i][t:]):
            fails.append({"kind": "rate_recorded_for_unsimulated_period", "detail": f"{tag}charging_rates[{sts[i] if i < len(sts) else i}]"
                          f"[{t}:] = {rates[i][t:]} although run() raised in period {t}"})
            break
    agg = [sum(rates[i][u] for i in range(len(rates))) for u in range(min(t, width))]
    if not _eq(max([0.0] + agg), ab["peak"], exact):
        fails.append({"kind": "peak_at_interruption", "detail": f"{tag}sim.peak = {ab['peak']!r}, max aggregate recorded current = {max([0.0] + agg)!r}"})
    return fails


def oracle(case, obs):
    fails = []
    if case.get("resume"):
        for j, ab in enumerate(obs.get("aborted", [])):
            fails.extend(_oracle_aborted(case, ab, f"interruption {j + 1} (period {ab.get('iter')}): "))
        return fails + _oracle_run(case, obs)
    if "run1" in obs:
        for f in _oracle_run(case, obs["run1"]):
            fails.append({"kind": f["kind"], "detail": "run 1: " + f["detail"]})
        for f in _oracle_run(case, obs):
            fails.append({"kind": f["kind"], "detail": "run 2 (same EV objects after EV.reset()): " + f["detail"]})
        return fails
    return _oracle_run(case, obs)


def _oracle_run(case, obs):
    if obs.get("err") is not None:
        return []                       # the run raised: partial period, outside the property
    stoch = case.get("network") == "stochastic"
    if not stoch and not S.is_valid_layout(case):
        return []
    exact = bool(case.get("exact"))
    fails = []
    rates = obs["rates"]
    sts = obs["station_ids"]
    # "station voltage" is the voltage the station was REGISTERED with (an input of the scenario) - not whatever the
    # network reports once the run is over; the two must of course be the same thing
    reg = {st["id"]: float(I.num(st["V"])) for st in case["stations"]}
    V = [reg.get(s, float("nan")) for s in sts]
    for s, v_reg, v_now in zip(sts, V, obs["voltages"]):
        if not (v_reg == v_now):
            fails.append({"kind": "station_voltage", "detail": f"station {s} was registered at {v_reg!r} V; after the run the network reports {v_now!r} V"})
    if obs.get("changed_by_analysis"):
        fails.append({"kind": "record_changed_by_reading", "detail": "computing total_energy_delivered / aggregate_power / aggregate_current "
                      f"(twice) changed: {obs['changed_by_analysis']}"})
    T = float(I.num(case["period"]))
    if not (T == obs["period"]):
        fails.append({"kind": "period_changed", "detail": f"simulator constructed with period {T!r}, reports {obs['period']!r} after the run"})
    width = len(rates[0]) if rates else 0
    hist = obs["hist"]
    if stoch:
        # (i') a session may sit on any station and may be swapped out early: rows are attributed to sessions by
        # the occupancy at the moment the pilots of each period were applied
        occ = obs.get("occ", [])
        got = {}
        for t, row in enumerate(occ):
            for i, who in enumerate(row):
                if who is not None and t < width:
                    got[who] = got.get(who, 0.0) + (rates[i][t] * V[i]) / 1000 * (T / 60)
        for h in hist:
            acc = got.get(h["session"], 0.0)
            if not _eq(acc, h["delivered"], exact):
                fails.append({"kind": "session_energy", "detail": f"session {h['session']}: sum over the periods and stations it was "
                              f"connected to of rates*V/1000*period/60 = {acc!r}, energy_delivered = {h['delivered']!r}"})
            gain = h["charge"] - h["init"]
            if not _eq(gain, h["delivered"], exact):
                fails.append({"kind": "battery_gain", "detail": f"session {h['session']}: battery gain {gain!r} but energy_delivered = {h['delivered']!r}"})
        if len(occ) != obs["iter"]:
            fails.append({"kind": "occupancy_snapshots", "detail": f"{len(occ)} snapshots for {obs['iter']} periods"})
        hist = []                      # (i)/(ii) by nominal station do not apply; (ii) by snapshot, (iii), (iv) below do
        for i in range(len(sts)):
            for t in range(len(occ), width):
                if rates[i][t] != 0:
                    fails.append({"kind": "rate_when_vacant", "detail": f"charging_rates[{sts[i]}][{t}] = {rates[i][t]!r} in a period that was never simulated"})
                    break
    # (i) per session: sum over its connection interval of its station's row = energy_delivered = battery gain
    for h in hist:
        if h["station"] not in sts:
            continue
        i = sts.index(h["station"])
        acc = 0.0
        for t in range(max(h["arrival"], 0), min(h["departure"], width)):
            acc += (rates[i][t] * V[i]) / 1000 * (T / 60)
        if not _eq(acc, h["delivered"], exact):
            fails.append({"kind": "session_energy", "detail": f"session {h['session']}: sum over [{h['arrival']},{h['departure']}) of "
                          f"rates[{h['station']}]*V/1000*period/60 = {acc!r}, energy_delivered = {h['delivered']!r}"})
        gain = h["charge"] - h["init"]
        if not _eq(gain, h["delivered"], exact):
            fails.append({"kind": "battery_gain", "detail": f"session {h['session']}: battery charge {h['init']!r} -> {h['charge']!r} "
                          f"(gain {gain!r}) but energy_delivered = {h['delivered']!r}"})
    # (ii) a station's row is 0 wherever no session is connected
    for i, st in enumerate([] if stoch else sts):
        mine = [h for h in hist if h["station"] == st]
        for t in range(width):
            if rates[i][t] != 0 and not any(h["arrival"] <= t < h["departure"] for h in mine):
                fails.append({"kind": "rate_when_vacant", "detail": f"charging_rates[{st}][{t}] = {rates[i][t]!r} while the station is vacant"})
                break
    occ = obs.get("occ", [])
    for t, row in enumerate(occ):
        for i, who in enumerate(row):
            if who is None and t < width and rates[i][t] != 0:
                fails.append({"kind": "rate_when_vacant", "detail": f"charging_rates[{sts[i]}][{t}] = {rates[i][t]!r}, snapshot shows the station vacant"})
                break
    # C03's clause at simulator level (theorem sim_rate_le_pilot): 0 <= recorded rate <= pilot signal
    pil = obs["pilots"]
    if all(x >= 0 for row in pil for x in row):
        for i in range(len(sts)):
            for t in range(min(width, len(pil[i]))):
                r, p = rates[i][t], pil[i][t]
                if r < -1e-9 or r > p + 1e-9 + 1e-9 * abs(p):
                    fails.append({"kind": "rate_outside_0_pilot", "detail": f"charging_rates[{sts[i]}][{t}] = {r!r}, pilot_signals = {p!r}"})
                    break
    # (iii) peak = max(0, max_t sum_st rates)
    agg = [sum(rates[i][t] for i in range(len(sts))) for t in range(width)]
    exp_peak = max([0.0] + agg)
    if not _eq(exp_peak, obs["peak"], exact):
        fails.append({"kind": "peak", "detail": f"sim.peak = {obs['peak']!r}, max aggregate recorded current = {exp_peak!r}"})
    if len(obs["agg_current"]) != width or any(not _eq(a, b, exact) for a, b in zip(agg, obs["agg_current"])):
        fails.append({"kind": "aggregate_current", "detail": "acnsim.aggregate_current differs from the column sums of charging_rates"})
    # (iv) total energy = integral of aggregate power (= sum over sessions of energy_delivered)
    integral = 0.0
    for p in obs["agg_power"]:
        integral += p * (T / 60)
    if not _eq(integral, obs["total_energy"], exact):
        fails.append({"kind": "total_energy", "detail": f"total_energy_delivered = {obs['total_energy']!r}, "
                      f"sum_t aggregate_power*period/60 = {integral!r}"})
    mine = 0.0
    for t in range(width):
        for i in range(len(sts)):
            mine += (rates[i][t] * V[i]) / 1000 * (T / 60)
    if not _eq(mine, obs["total_energy"], exact):
        fails.append({"kind": "total_energy", "detail": f"total_energy_delivered = {obs['total_energy']!r}, "
                      f"sum_t sum_st rates*V/1000*period/60 = {mine!r}"})
    s_del = 0.0
    for h in obs["hist"]:
        s_del += h["delivered"]
    if not _eq(s_del, obs["total_energy"], exact):
        fails.append({"kind": "total_energy", "detail": f"total_energy_delivered = {obs['total_energy']!r}, sum of energy_delivered = {s_del!r}"})
    return fails


# ------------------------------------------------------------------ statistics


def _b2b(case):
    return sum(1 for a in case["sessions"] for b in case["sessions"]
               if a is not b and a["station"] == b["station"] and a["departure"] == b["arrival"])


def _vacant_addressed(case, obs):
    """some period in which a non-zero pilot stood on a vacant station"""
    for t, row in enumerate(obs.get("occ", [])):
        for i, who in enumerate(row):
            if who is None and i < len(obs["pilots"]) and t < len(obs["pilots"][i]) and obs["pilots"][i][t] != 0:
                return True
    return False


def _charged(obs):
    return sum(1 for h in obs.get("hist", []) if h["delivered"] > 0)


def _charged_after_invocation(obs):
    """some energy flowed in or after a period in which the scheduler ran"""
    inv = obs.get("invoked", [])
    if not inv:
        return False
    t0 = min(inv)
    return any(r != 0 for row in obs.get("rates", []) for r in row[t0:])


def _stale_rate_then_zero_pilot(case, obs):
    """a re-used EV whose last period of run 1 had a non-zero rate is held at 0 A in its first period of run 2"""
    r1 = obs["run1"]
    sts = obs["station_ids"]
    for s in case["sessions"]:
        if s["station"] not in sts:
            continue
        i, a, d = sts.index(s["station"]), s["arrival"], s["departure"]
        try:
            if r1["rates"][i][d - 1] != 0 and obs["pilots"][i][a] == 0:
                return True
        except IndexError:
            pass
    return False


def nontrivial(case, obs):
    if case.get("network") == "stochastic":
        st = obs.get("stoch", {})
        return obs.get("err") is None and _charged(obs) >= 2 and (st.get("swaps", 0) > 0 or st.get("early_unplug", 0) > 0)
    return (obs.get("err") is None and S.is_valid_layout(case) and _charged(obs) >= 2
            and (_b2b(case) > 0 or _vacant_addressed(case, obs)))


def features(case, obs):
    n = len(case["sessions"])
    f = [f"stations={len(case['stations'])}",
         "sessions=" + ("0" if n == 0 else "1-3" if n <= 3 else "4-8" if n <= 8 else "9-25"),
         f"sched={case['sched']['type']}", f"period={case['period']}", f"err={obs.get('err')}",
         "stream=" + ("step-driven" if case.get("steps") is not None else "resume" if case.get("resume") else "stochastic" if case.get("network") == "stochastic" else "exact" if case.get("exact") else "malformed" if case.get("malformed") else "structured"),
         "charged_sessions=" + ("0" if _charged(obs) == 0 else "1" if _charged(obs) == 1 else "2-4" if _charged(obs) <= 4 else "5+"),
         "back_to_back=" + ("0" if _b2b(case) == 0 else "1+")]
    if case.get("exhaustive"):
        f.append("exhaustive_small_scope")
    v = case.get("vandal")
    f.append("scheduler=" + ("well-behaved" if not v else f"vandal/{v['style']}"))
    if v:
        f.append(f"vandal_when={v['when']}" + ("/keeps_its_schedule_arrays" if v.get("keep") else ""))
        n_inv = len(obs.get("invoked", [])) + len(obs.get("run1", {}).get("invoked", []))
        f.append("vandal_invocations=" + ("0" if n_inv == 0 else "1" if n_inv == 1 else "2-5" if n_inv <= 5 else "6+"))
        if obs.get("err") is None and len(set(obs.get("voltages", []))) > 1 and _charged_after_invocation(obs):
            f.append("vandal_then_charging_at_heterogeneous_voltages")
    if case.get("resume"):
        cr = sorted(case["resume"]["crashes"], key=lambda c: c["k"])
        ab = obs.get("aborted", [])
        f.append(f"resume:crash_points={len(cr)}/fired={len(ab)}")
        arr = {x["arrival"] for x in case["sessions"]}
        dep = {x["departure"] for x in case["sessions"]}
        last = max(dep) if dep else 0
        for c_, o in zip(cr, ab):
            k = o["iter"]
            f.append("resume:via=" + ("to_json/from_json" if c_["via"] == "json" else "run()_again"))
            f.append("resume:crash_period=" + ("last" if k == last else "arrival+departure" if (k in arr and k in dep) else
                                               "arrival" if k in arr else "departure" if k in dep else "no_event"))
            if any(x is not None for x in o.get("occ_final", [])):
                f.append("resume:ev_connected_at_crash")
        ids = [st["id"] for st in case["stations"]]
        if ids != sorted(ids):
            f.append("resume:registration_order_not_sorted")
        if ab and obs.get("err") is None:
            t = ab[0]["iter"]
            rates = obs.get("rates", [])
            agg = [sum(r[u] for r in rates) for u in range(len(rates[0]) if rates else 0)]
            if agg and max(agg[:t] + [0.0]) > max(agg[t:] + [0.0]):
                f.append("resume:peak_reached_before_the_interruption")
            if any(r[u] != 0 for r in rates for u in range(t, len(r))):
                f.append("resume:charging_after_the_interruption")
            if obs.get("missing_evs"):
                f.append("resume:evs_not_found_after_load")
    if case.get("rerun"):
        f.append("ev_objects_reused_after_reset" + ("" if "run1" in obs else "/run1_raised"))
        if "run1" in obs and _stale_rate_then_zero_pilot(case, obs):
            f.append("reused_ev_last_rate_nonzero_then_0A_pilot")
    if case.get("network") == "stochastic":
        st = obs.get("stoch", {})
        f.append("network=stochastic/early_departure=" + str(bool(case.get("early_departure"))))
        f.append("stoch_swaps=" + ("0" if st.get("swaps", 0) == 0 else "1-2" if st.get("swaps", 0) <= 2 else "3+"))
        f.append("stoch_early_unplug=" + ("0" if st.get("early_unplug", 0) == 0 else "1-2" if st.get("early_unplug", 0) <= 2 else "3+"))
        if st.get("never_charged", 0) > 0:
            f.append("stoch_left_while_waiting")
    else:
        f.append("network=plain")
    if obs.get("err") is None:
        if _vacant_addressed(case, obs):
            f.append("vacant_station_addressed")
        kinds = set()
        below = False
        over_request = False
        for s, e in zip(case["sessions"], obs.get("evs", [])):
            b = s["batt"]
            if e["delivered"] > 0:
                kinds.add(("two-" + b.get("calc", "continuous") + ("-noisy" if I.num(b.get("noise", 0)) > 0 else "")) if b.get("two") else "ideal")
            if e["delivered"] > I.num(s["requested"]) + 1e-3:
                over_request = True
        for k in sorted(kinds):
            f.append("charged_battery=" + k)
        if over_request:
            f.append("delivered_beyond_request")
        for i, row in enumerate(obs.get("rates", [])):
            for t, r in enumerate(row):
                if r > 0 and t < len(obs["pilots"][i]) and r < obs["pilots"][i][t] - 1e-6:
                    below = True
        if below:
            f.append("rate_below_pilot")
        if len(set(obs.get("voltages", []))) > 1:
            f.append("heterogeneous_voltages")
        ends = {s["departure"] for s in case["sessions"]}
        if any(s["arrival"] in ends for s in case["sessions"]):
            f.append("arrival_in_a_departure_period")
        if obs.get("noise_draws", 0) > 0:
            f.append("noise_drawn")
    return f


def shrink(case, kind):
    def bad(c):
        try:
            return any(f["kind"] == kind for f in oracle(c, run_impl(c)))
        except Exception:
            return False
    if not bad(case):
        return case
    cur = copy.deepcopy(case)
    changed = True
    while changed:
        changed = False
        for key in ("sessions", "recomputes"):
            i = 0
            while i < len(cur.get(key, [])):
                c2 = copy.deepcopy(cur)
                del c2[key][i]
                if bad(c2):
                    cur = c2
                    changed = True
                else:
                    i += 1
        sc = cur.get("sched", {})
        i = 0
        while i < len(sc.get("script", [])):
            c2 = copy.deepcopy(cur)
            del c2["sched"]["script"][i]
            if bad(c2):
                cur = c2
                sc = cur["sched"]
                changed = True
            else:
                i += 1
    return cur
