"""C02 — the energy ledger: recorded rates, each EV's delivered energy and its battery's charge gain agree;
rates are 0 at vacant stations; peak = max aggregate current; total energy = integral of aggregate power."""
from __future__ import annotations

import copy
import itertools
import json
import warnings

import numpy as np

from core import simcase as S
from core import impl as I
from core.common import close

ID = "C02"
LEAN_MODULES = ["AcnProofs.C02"]
TIE_MODULES = ["AcnProofs.Lemmas.CodeTieBattery"]
DRIVER = "drv_C02"          # the shared `Acn.Sim` model + the spec sums of the theorems evaluated on the model
REQUIRED_THEOREMS = [
    "Acn.C02.ledger_ideal", "Acn.C02.ledger_stepwise", "Acn.C02.ledger_continuous", "Acn.C02.ledger_zero_pilot",
    "Acn.C02.ev_charge_step", "Acn.C02.ev_energy_eq_battery_gain", "Acn.C02.ledger_invariant",
    "Acn.C02.sim_energy_eq_battery_gain", "Acn.C02.session_energy_all", "Acn.C02.session_energy_eq_sum",
    "Acn.C02.rate_zero_when_vacant", "Acn.C02.peak_eq_max", "Acn.C02.total_energy_eq_integral",
    "Acn.C02.session_energy_interval", "Acn.C02.session_energy_interval_complete", "Acn.C02.rates_zero_outside_interval", "Acn.C02.exec_sums_eq_spec", "Acn.C02.sim_rate_le_pilot",
]
BUDGET = {"quick": 900, "thorough": 6000, "search": 6000}
TRUSTED = ["numpy: zeros / column assignment / sum(axis=0) / dot as used by simulator.py and analysis.py",
           "numpy.random.normal draws are inputs of the model (patched in the harness process, same stream fed to the model)",
           "session ids identify EV objects; a network keeps its EVSEs in a dict (station ids distinct)",
           "IEEE-754 rounding: the ledger equalities hold exactly over an ordered field, within 1e-9 in doubles "
           "(exactly on the dyadic stream V=1000, period=60)"]
ASSUMPTIONS = ["the theorems and the model cover the plain ChargingNetwork; for the contrib StochasticNetwork (waiting queue, random "
               "space assignment, early departure in the post-charging hook) the ledger is checked by the implementation-only oracle, "
               "not proved: lean/AcnModel/StochasticLoop.lean (C19) has the loop without energies",
               "station ids pairwise distinct (StationsNodup); the run has not raised (a raise inside update_pilots "
               "leaves earlier stations charged but nothing recorded — outside the property, covered by the correspondence)",
               "occupancy is what the network shows at post_charging_update (the model's occLog); under C01's Valid this is "
               "arrival <= t < departure, which the oracle uses directly"]
RULE = ("whole simulations through core.simcase: 1-6 stations of mixed EVSE classes with heterogeneous voltages "
        "(120/208/240/277.5 V), 0-25 sessions (half of all reuse back-to-back, simultaneous events), both battery classes "
        "(ideal, two-stage continuous/stepwise, noise 0/0.5/2 with the draws fed to both sides), capacity up to 100 kWh for "
        "requests <= 12 kWh, scripted multi-period schedules over random station subsets (vacant stations addressed, pilots "
        "above the battery's maximum power), real algorithms (oracle only), malformed stream (aborting runs: correspondence "
        "only); thorough adds every layout of <= 3 sessions on <= 2 stations within horizon 5 with pilots from {0, 8, 40}; "
        "a stochastic-network stream (real contrib StochasticNetwork, early_departure on/off, more simultaneous sessions than "
        "stations, small requests, seeded `random`; ORACLE ONLY, rows attributed to sessions by the occupancy at update_pilots); "
        "plus an exact stream (V=1000, period=60, dyadic pilots and batteries) checked with ZERO slack; "
        "non-trivial = run completed, >= 2 sessions received energy and some station was reused or addressed while vacant; "
        "distinct by hash of the case")

EXACT_PILOTS = [0.0, 0.5, 1.0, 2.0, 4.0, 8.0, 16.0, 32.0, 6.0, 12.0, 24.0, 3.0, 0.25]


# ------------------------------------------------------------------ corpus / generation


def _bi(cap=40.0, init=5.0, maxp=7.0):
    return {"two": False, "cap": cap, "init": init, "maxp": maxp}


def _b2(cap, init, maxp, noise, ts, calc):
    return {"two": True, "cap": cap, "init": init, "maxp": maxp, "noise": noise, "ts": ts, "calc": calc}


def _s(sid, st, a, d, req, batt, est=None):
    return {"session": sid, "station": st, "arrival": a, "departure": d, "requested": req, "batt": batt, "est": est}


def _st(i, V=208, kind=None):
    return {"id": f"S{i}", "kind": kind or {"t": "cont", "min": 0, "max": 32}, "V": V, "phase": 0}


def corpus():
    out = []
    # the Lean non-vacuity example: back-to-back reuse on A, vacant B addressed, pilots above every battery's maximum
    out.append({"stations": [_st(0, 1000), _st(1, 500)], "constraint": None,
                "sessions": [_s("x", "S0", 0, 2, 3.0, _bi(40.0, 5.0, 7.0)), _s("y", "S0", 2, 3, 9.0, _bi(10.0, 8.0, 7.0)),
                             _s("z", "S1", 1, 3, 5.0, _b2(20.0, 2.0, 4.0, 1.0, 0.8, "stepwise"))],
                "recomputes": [], "period": 60, "max_recompute": 1, "noise": [0.5, -0.25],
                "sched": {"type": "scripted", "default": [["S0", [16.0]], ["S1", [32.0]]], "script": []}})
    # request met early, battery keeps accepting (capacity >> request); heterogeneous voltages; continuous two-stage with noise
    out.append({"stations": [_st(0, 120), _st(1, 277.5), _st(2, 240)], "constraint": None,
                "sessions": [_s("a", "S0", 0, 6, 0.2, _bi(100.0, 1.0, 50.0)),
                             _s("b", "S1", 1, 5, 1.0, _b2(60.5, 40.0, 6.6, 2.0, 0.5, "continuous")),
                             _s("c", "S1", 5, 8, 4.0, _b2(10.0, 9.9, 3.3, 0.5, 0.9, "continuous")),
                             _s("d", "S2", 5, 7, 4.0, _b2(40.0, 39.0, 7.0, 0.0, 0.8, "stepwise"))],
                "recomputes": [3], "period": 5, "max_recompute": 2, "noise": [0.3, -1.2, 0.05, 2.5],
                "sched": {"type": "scripted", "default": [["S0", [32.0, 16.0]], ["S1", [30.0, 30.0]], ["S2", [8.0, 8.0]]],
                          "script": [{"t": 2, "sched": [["S2", [32.0, 32.0, 32.0, 32.0]]]}, {"t": 6, "sched": []}]}})
    # a session finishes exactly in the period in which another arrives elsewhere; multi-period schedule beyond departures
    out.append({"stations": [_st(0, 208), _st(1, 240)], "constraint": {"limit": 64.0},
                "sessions": [_s("p", "S0", 1, 4, 10.0, _bi()), _s("q", "S1", 4, 6, 10.0, _bi(10.0, 9.5, 3.3)),
                             _s("r", "S0", 4, 5, 2.0, _bi(60.5, 0.0, 6.6))],
                "recomputes": [], "period": 15, "max_recompute": None, "noise": [],
                "sched": {"type": "scripted", "default": [], "script": [{"t": 1, "sched": [["S0", [20.0] * 6], ["S1", [10.0] * 6]]}]}})
    # contrib StochasticNetwork, early departure: q0 meets its 0.5 kWh request in period 0 while q1 waits and is swapped in
    # by the post-charging hook (a hook that ran BEFORE the rates are recorded would lose q0's row)
    for early in (True, False):
        out.append({"network": "stochastic", "early_departure": early, "rand_seed": 7, "exact": True,
                    "stations": [_st(0, 1000)], "constraint": None,
                    "sessions": [_s("q0", "S0", 0, 4, 0.5, _bi(64.0, 1.0, 8.0)), _s("q1", "S0", 0, 3, 1.0, _bi(16.0, 0.0, 2.0)),
                                 _s("q2", "S0", 1, 5, 4.0, _bi(16.0, 8.0, 4.0))],
                    "recomputes": [], "period": 60, "max_recompute": 1, "noise": [],
                    "sched": {"type": "scripted", "default": [["S0", [4.0]]], "script": []}})
    out.extend(_exact_cases_fixed())
    return out


def _exact_cases_fixed():
    out = []
    out.append({"exact": True, "stations": [_st(0, 1000), _st(1, 1000)], "constraint": None,
                "sessions": [_s("e0", "S0", 0, 3, 4.0, _bi(64.0, 8.0, 8.0)), _s("e1", "S0", 3, 5, 2.0, _bi(16.0, 15.0, 4.0)),
                             _s("e2", "S1", 1, 4, 8.0, _bi(32.0, 0.0, 2.0))],
                "recomputes": [], "period": 60, "max_recompute": 1, "noise": [],
                "sched": {"type": "scripted", "default": [["S0", [6.0]], ["S1", [4.0]]],
                          "script": [{"t": 2, "sched": [["S0", [0.5, 12.0]], ["S1", [16.0, 0.25]]]}]}})
    return out


def gen_exact(rng):
    """V = 1000, period = 60: pilot [A] = power [kW] = energy per period [kWh]; dyadic values only, so every
    operation of the ledger is exact in doubles and the oracle uses zero slack."""
    ns = rng.randint(1, 4)
    stations = [_st(i, 1000, {"t": "cont", "min": 0, "max": 32}) for i in range(ns)]
    sessions = []
    cursor = {st["id"]: rng.randint(0, 3) for st in stations}
    for k in range(rng.randint(1, 8)):
        st = rng.choice(stations)["id"]
        arr = cursor[st] + rng.choice([0, 0, 1, 2])
        dep = arr + rng.choice([1, 2, 3, 5])
        cursor[st] = dep
        cap = rng.choice([16.0, 32.0, 64.0, 128.0])
        init = rng.choice([0.0, 1.0, cap / 2, cap - 1.0, cap - 0.5, cap])
        sessions.append(_s(f"e{k}", st, arr, dep, rng.choice([0.5, 2.0, 8.0]), _bi(cap, init, rng.choice([1.0, 2.0, 4.0, 8.0, 64.0]))))
    rng.shuffle(sessions)
    last = max(s["departure"] for s in sessions)

    def sched():
        sub = [s for s in stations if rng.random() < 0.8] or [stations[0]]
        n = rng.choice([1, 2, 3])
        return [[s["id"], [rng.choice(EXACT_PILOTS) for _ in range(n)]] for s in sub]

    script = [{"t": t, "sched": sched()} for t in range(last + 1) if rng.random() < 0.6]
    return {"exact": True, "stations": stations, "constraint": None, "sessions": sessions, "recomputes": [],
            "period": 60, "max_recompute": rng.choice([None, 1, 2]), "noise": [],
            "sched": {"type": "scripted", "default": sched(), "script": script}}


def gen_ledger(rng):
    """simcase scenario pushed towards the ledger's interesting region: a non-empty default schedule with high
    pilots on every station (so vacant stations are addressed and batteries saturate), large capacities."""
    c = S.gen_case(rng)
    if c["sched"]["type"] == "scripted" and rng.random() < 0.7:
        n = rng.choice([1, 1, 2, 3])
        dflt = []
        for st in c["stations"]:
            if rng.random() < 0.85:
                dflt.append([st["id"], [_hi_pilot(rng, st["kind"]) for _ in range(n)]])
        c["sched"]["default"] = dflt
    for s in c["sessions"]:
        r = rng.random()
        if r < 0.25:            # battery keeps accepting long after the request is met
            s["requested"] = round(rng.uniform(0.01, 0.5), 3)
            s["batt"]["cap"] = 100
            s["batt"]["init"] = round(rng.uniform(0, 20), 3)
        elif r < 0.4:           # nearly full battery: the rate drops below the pilot
            s["batt"]["init"] = round(I.num(s["batt"]["cap"]) - rng.choice([0.0, 0.01, 0.2, 1.0]), 3)
    return c


def _hi_pilot(rng, kind):
    if kind["t"] == "finite":
        rates = sorted(float(I.num(r)) for r in kind["rates"])
        return rng.choice(rates[-2:] + [rates[-1]])
    mx = I.num(kind["max"])
    hi = 64.0 if mx == float("inf") else float(mx)
    return rng.choice([hi, hi, hi / 2, round(rng.uniform(hi / 2, hi), 2)])


def exhaustive():
    """Every layout (valid and overlapping) of <= 3 sessions on <= 2 stations within horizon 5; pilots from
    {0, 8, 40} (40 A is above every battery's maximum power), battery class / voltage / period rotate."""
    slots = [(st, a, d) for st in ("S0", "S1") for a in range(0, 5) for d in range(a + 1, 6)]
    batts = [_bi(40.0, 5.0, 7.0), _bi(10.0, 9.0, 3.3), _b2(20.0, 15.0, 6.6, 0.0, 0.8, "continuous"),
             _b2(20.0, 2.0, 4.0, 1.0, 0.5, "stepwise"), _bi(100.0, 0.0, 50.0)]
    pil = [0.0, 8.0, 40.0]
    out = []
    k = 0
    for n in range(0, 4):
        for combo in itertools.combinations(range(len(slots)), n):
            ss = [_s(f"x{i}", slots[j][0], slots[j][1], slots[j][2], [0.3, 4.0, 50.0][(k + i) % 3], copy.deepcopy(batts[(k + 2 * i) % 5]))
                  for i, j in enumerate(combo)]
            if k % 2:
                ss.reverse()
            kind = {"t": "cont", "min": 0, "max": 80}
            p0, p1 = pil[k % 3], pil[(k // 3) % 3]
            script = [{"t": 2, "sched": [["S0", [p1, p0, 8.0]], ["S1", [40.0, 0.0, p0]]]}] if k % 4 == 0 else []
            out.append({"stations": [_st(0, [208, 120, 240][k % 3], kind), _st(1, [208, 277.5][k % 2], kind)], "constraint": None,
                        "sessions": ss, "recomputes": [], "period": [5, 1, 15][(k // 2) % 3], "max_recompute": [1, None, 2][k % 3],
                        "noise": [0.5, -0.25, 1.5], "exhaustive": True,
                        "sched": {"type": "scripted", "default": [["S0", [p0]], ["S1", [p1]]], "script": script}})
            k += 1
    return out


def gen_stochastic(rng):
    """contrib StochasticNetwork (random space assignment, waiting queue, optional early departure) inside the
    real Simulator: more simultaneous sessions than stations, small requests so that EVs finish while others
    wait; `random` is seeded from the case.  Oracle only (the Sim model has no waiting queue)."""
    ns = rng.randint(1, 3)
    exact = rng.random() < 0.3
    if exact:
        stations = [_st(i, 1000, {"t": "cont", "min": 0, "max": 32}) for i in range(ns)]
        period = 60
    else:
        stations = [_st(i, rng.choice([208, 240, 120, 277.5]), {"t": "cont", "min": 0, "max": rng.choice([32, 80])}) for i in range(ns)]
        period = rng.choice([1, 5, 15, 60])
    nsess = rng.randint(ns + 1, ns + 7)
    sessions = []
    for k in range(nsess):
        arr = rng.choice([0, 0, 0, 1, 1, 2, 3, 4])
        dep = arr + rng.choice([2, 3, 4, 6, 8])
        if exact:
            cap = rng.choice([16.0, 64.0])
            batt = _bi(cap, rng.choice([0.0, 1.0, cap / 2]), rng.choice([2.0, 4.0, 8.0]))
            req = rng.choice([0.5, 1.0, 2.0, 4.0, 16.0])
        else:
            batt = I_gen_battery(rng)
            batt["cap"] = rng.choice([40, 100])
            batt["init"] = round(rng.uniform(0, 20), 3)
            req = rng.choice([round(rng.uniform(0.01, 0.4), 3), round(rng.uniform(0.2, 2.0), 3), 30.0])
        # the nominal station is ignored by the network (it draws a free one), so any registered id will do
        sessions.append(_s(f"q{k}", rng.choice(stations)["id"], arr, dep, req, batt))
    last = max(s["departure"] for s in sessions)

    def sched():
        n = rng.choice([1, 1, 2, 3])
        pil = EXACT_PILOTS[3:8] if exact else [8.0, 16.0, 32.0, 6.5, 24.0, 0.0]
        sub = [st for st in stations if rng.random() < 0.9] or [stations[0]]
        return [[st["id"], [rng.choice(pil) for _ in range(n)]] for st in sub]

    script = [{"t": t, "sched": sched()} for t in range(last + 1) if rng.random() < 0.3]
    c = {"network": "stochastic", "early_departure": rng.random() < 0.7, "rand_seed": rng.randrange(1 << 30),
         "stations": stations, "constraint": None, "sessions": sessions, "recomputes": [], "period": period,
         "max_recompute": rng.choice([1, 1, 2, None]), "noise": [round(rng.gauss(0, 1.0), 4) for _ in range(3)],
         "sched": {"type": "scripted", "default": sched(), "script": script}}
    if exact:
        c["exact"] = True
        c["noise"] = []
    return c


def I_gen_battery(rng):
    return S.gen_battery(rng)


def generate(rng, n, tier):
    out = []
    if tier == "thorough":
        out.extend(exhaustive())
    for i in range(n):
        r = i % 12
        if r in (0, 1):
            out.append(gen_exact(rng))
        elif r in (2, 7, 8):
            out.append(gen_stochastic(rng))
        elif r == 3:
            out.append(S.gen_case(rng, malformed=True))
        elif r == 4:
            out.append(S.gen_case(rng, real_algos=True, max_sessions=12))
        elif r in (5, 6):
            out.append(S.gen_case(rng))
        else:
            out.append(gen_ledger(rng))
    return out


def search(rng, n):
    return generate(rng, n, "search")


# ------------------------------------------------------------------ implementation / model


def _batt_json(ev):
    """battery state through the public serialisation of the EV"""
    with warnings.catch_warnings():
        warnings.simplefilter("ignore")
        d = json.loads(ev.to_json())
    ctx = d["context_dict"]
    a = ctx[d["id"]]["attributes"]
    b = ctx[a["_battery"]]["attributes"]
    return {"charge": float(b["_current_charge"]), "init": float(b["_init_charge"])}


_STOCH_CLS = {}


def _stoch_cls(early):
    """StochasticNetwork that records, through the public `update_pilots`, who is connected where at the moment
    the pilots of a period are applied (= who is charged in that period)."""
    if early not in _STOCH_CLS:
        from acnportal.contrib.acnsim.network import StochasticNetwork

        class SnapStochastic(StochasticNetwork):
            def __init__(self, *a, **k):
                super().__init__(*a, early_departure=early, **k)
                self.occ_log = []

            def update_pilots(self, pilots, i, period):
                self.occ_log.append([(e.ev.session_id if e.ev is not None else None) for e in self._EVSEs.values()])
                return super().update_pilots(pilots, i, period)

        _STOCH_CLS[early] = SnapStochastic
    return _STOCH_CLS[early]


def run_impl(case):
    from acnportal import acnsim
    stoch = case.get("network") == "stochastic"
    with S.noise_stream(case.get("noise", [])) as ns:
        if stoch:
            import random as _random
            st0 = _random.getstate()
            _random.seed(case["rand_seed"])
            try:
                sim, ctx = S.build_sim(case, S.Hooks(network_cls=_stoch_cls(bool(case.get("early_departure")))))
                err = S.run_sim(sim)
            finally:
                _random.setstate(st0)
        else:
            sim, ctx = S.build_sim(case)
            err = S.run_sim(sim)
        obs = S.observe(sim, ctx, err)
        obs["noise_draws"] = ns["k"]
    net = sim.network
    if stoch:
        obs["stoch"] = {"swaps": int(net.swaps), "early_unplug": int(net.early_unplug), "never_charged": int(net.never_charged),
                        "waiting_end": len(net.waiting_queue)}
    volts = net.voltages
    obs["voltages"] = [float(volts[s]) for s in net.station_ids]
    obs["station_ids"] = list(net.station_ids)
    hist = []
    for sid, ev in sim.ev_history.items():
        bj = _batt_json(ev)
        hist.append({"session": sid, "station": ev.station_id, "arrival": int(ev.arrival), "departure": int(ev.departure),
                     "delivered": float(ev.energy_delivered), "charge": bj["charge"], "init": bj["init"]})
    obs["hist"] = hist
    obs["period"] = float(sim.period)
    with warnings.catch_warnings():
        warnings.simplefilter("ignore")
        obs["total_energy"] = float(acnsim.total_energy_delivered(sim))
        obs["agg_power"] = [float(x) for x in np.asarray(acnsim.aggregate_power(sim)).ravel()]
        obs["agg_current"] = [float(x) for x in np.asarray(acnsim.aggregate_current(sim)).ravel()]
    return obs


def model_request(case):
    if case.get("network") == "stochastic":
        return None             # oracle only: the Sim model composes the run loop with a plain ChargingNetwork
    return S.model_request(case)


def compare(case, obs, model):
    # rates matrix, per-EV delivered / rate / battery charge and power, peak, occupancy log, pilots, events, error class
    diffs = S.compare(case, obs, model)
    # the theorems' equalities, executed on the MODEL's final state (spec sums of LedgerExec.lean)
    led = model.get("ledger")
    if led is None:
        diffs.append("model answer carries no ledger section")
    elif model.get("err") is None:
        exact = bool(case.get("exact"))
        b2f = S.b2f
        for e in led["evs"]:
            if e.get("missing"):
                diffs.append(f"model: EV {e['session']} not found in the final state")
                continue
            d, g, a, iv = b2f(e["delta"]), b2f(e["gain"]), b2f(e["sum_all"]), b2f(e["sum_interval"])
            if not _eq(d, g, exact):
                diffs.append(f"model ledger: {e['session']} delivered {d!r} != battery gain {g!r}")
            if not _eq(d, a, exact):
                diffs.append(f"model ledger: {e['session']} delivered {d!r} != sum over the occupancy log {a!r}")
            if S.is_valid_layout(case) and not _eq(d, iv, exact):
                diffs.append(f"model ledger: {e['session']} delivered {d!r} != sum over [arrival, departure) {iv!r}")
        if not _eq(b2f(led["peak_spec"]), b2f(model["peak"]), exact):
            diffs.append(f"model ledger: peak {b2f(model['peak'])!r} != max aggregate {b2f(led['peak_spec'])!r}")
        ids = [s["session"] for s in case["sessions"]]
        if len(set(ids)) == len(ids) and not _eq(b2f(led["sum_delivered"]), b2f(led["integral"]), exact):
            diffs.append(f"model ledger: total delivered {b2f(led['sum_delivered'])!r} != integral of power {b2f(led['integral'])!r}")
        if led["vacant_nonzero"] != 0:
            diffs.append(f"model ledger: {led['vacant_nonzero']} non-zero rate cells at vacant stations / future periods")
    return diffs[:12]


# ------------------------------------------------------------------ oracle: C02 on the implementation alone


def _eq(a, b, exact):
    return a == b if exact else close(a, b)


def oracle(case, obs):
    if obs.get("err") is not None:
        return []                       # the run raised: partial period, outside the property
    stoch = case.get("network") == "stochastic"
    if not stoch and not S.is_valid_layout(case):
        return []
    exact = bool(case.get("exact"))
    fails = []
    rates = obs["rates"]
    sts = obs["station_ids"]
    V = obs["voltages"]
    T = obs["period"]
    width = len(rates[0]) if rates else 0
    hist = obs["hist"]
    if stoch:
        # (i') a session may sit on any station and may be swapped out early: rows are attributed to sessions by
        # the occupancy at the moment the pilots of each period were applied
        occ = obs.get("occ", [])
        got = {}
        for t, row in enumerate(occ):
            for i, who in enumerate(row):
                if who is not None and t < width:
                    got[who] = got.get(who, 0.0) + (rates[i][t] * V[i]) / 1000 * (T / 60)
        for h in hist:
            acc = got.get(h["session"], 0.0)
            if not _eq(acc, h["delivered"], exact):
                fails.append({"kind": "session_energy", "detail": f"session {h['session']}: sum over the periods and stations it was "
                              f"connected to of rates*V/1000*period/60 = {acc!r}, energy_delivered = {h['delivered']!r}"})
            gain = h["charge"] - h["init"]
            if not _eq(gain, h["delivered"], exact):
                fails.append({"kind": "battery_gain", "detail": f"session {h['session']}: battery gain {gain!r} but energy_delivered = {h['delivered']!r}"})
        if len(occ) != obs["iter"]:
            fails.append({"kind": "occupancy_snapshots", "detail": f"{len(occ)} snapshots for {obs['iter']} periods"})
        hist = []                      # (i)/(ii) by nominal station do not apply; (ii) by snapshot, (iii), (iv) below do
        for i in range(len(sts)):
            for t in range(len(occ), width):
                if rates[i][t] != 0:
                    fails.append({"kind": "rate_when_vacant", "detail": f"charging_rates[{sts[i]}][{t}] = {rates[i][t]!r} in a period that was never simulated"})
                    break
    # (i) per session: sum over its connection interval of its station's row = energy_delivered = battery gain
    for h in hist:
        if h["station"] not in sts:
            continue
        i = sts.index(h["station"])
        acc = 0.0
        for t in range(max(h["arrival"], 0), min(h["departure"], width)):
            acc += (rates[i][t] * V[i]) / 1000 * (T / 60)
        if not _eq(acc, h["delivered"], exact):
            fails.append({"kind": "session_energy", "detail": f"session {h['session']}: sum over [{h['arrival']},{h['departure']}) of "
                          f"rates[{h['station']}]*V/1000*period/60 = {acc!r}, energy_delivered = {h['delivered']!r}"})
        gain = h["charge"] - h["init"]
        if not _eq(gain, h["delivered"], exact):
            fails.append({"kind": "battery_gain", "detail": f"session {h['session']}: battery charge {h['init']!r} -> {h['charge']!r} "
                          f"(gain {gain!r}) but energy_delivered = {h['delivered']!r}"})
    # (ii) a station's row is 0 wherever no session is connected
    for i, st in enumerate([] if stoch else sts):
        mine = [h for h in hist if h["station"] == st]
        for t in range(width):
            if rates[i][t] != 0 and not any(h["arrival"] <= t < h["departure"] for h in mine):
                fails.append({"kind": "rate_when_vacant", "detail": f"charging_rates[{st}][{t}] = {rates[i][t]!r} while the station is vacant"})
                break
    occ = obs.get("occ", [])
    for t, row in enumerate(occ):
        for i, who in enumerate(row):
            if who is None and t < width and rates[i][t] != 0:
                fails.append({"kind": "rate_when_vacant", "detail": f"charging_rates[{sts[i]}][{t}] = {rates[i][t]!r}, snapshot shows the station vacant"})
                break
    # C03's clause at simulator level (theorem sim_rate_le_pilot): 0 <= recorded rate <= pilot signal
    pil = obs["pilots"]
    if all(x >= 0 for row in pil for x in row):
        for i in range(len(sts)):
            for t in range(min(width, len(pil[i]))):
                r, p = rates[i][t], pil[i][t]
                if r < -1e-9 or r > p + 1e-9 + 1e-9 * abs(p):
                    fails.append({"kind": "rate_outside_0_pilot", "detail": f"charging_rates[{sts[i]}][{t}] = {r!r}, pilot_signals = {p!r}"})
                    break
    # (iii) peak = max(0, max_t sum_st rates)
    agg = [sum(rates[i][t] for i in range(len(sts))) for t in range(width)]
    exp_peak = max([0.0] + agg)
    if not _eq(exp_peak, obs["peak"], exact):
        fails.append({"kind": "peak", "detail": f"sim.peak = {obs['peak']!r}, max aggregate recorded current = {exp_peak!r}"})
    if len(obs["agg_current"]) != width or any(not _eq(a, b, exact) for a, b in zip(agg, obs["agg_current"])):
        fails.append({"kind": "aggregate_current", "detail": "acnsim.aggregate_current differs from the column sums of charging_rates"})
    # (iv) total energy = integral of aggregate power (= sum over sessions of energy_delivered)
    integral = 0.0
    for p in obs["agg_power"]:
        integral += p * (T / 60)
    if not _eq(integral, obs["total_energy"], exact):
        fails.append({"kind": "total_energy", "detail": f"total_energy_delivered = {obs['total_energy']!r}, "
                      f"sum_t aggregate_power*period/60 = {integral!r}"})
    mine = 0.0
    for t in range(width):
        for i in range(len(sts)):
            mine += (rates[i][t] * V[i]) / 1000 * (T / 60)
    if not _eq(mine, obs["total_energy"], exact):
        fails.append({"kind": "total_energy", "detail": f"total_energy_delivered = {obs['total_energy']!r}, "
                      f"sum_t sum_st rates*V/1000*period/60 = {mine!r}"})
    s_del = 0.0
    for h in obs["hist"]:
        s_del += h["delivered"]
    if not _eq(s_del, obs["total_energy"], exact):
        fails.append({"kind": "total_energy", "detail": f"total_energy_delivered = {obs['total_energy']!r}, sum of energy_delivered = {s_del!r}"})
    return fails


# ------------------------------------------------------------------ statistics


def _b2b(case):
    return sum(1 for a in case["sessions"] for b in case["sessions"]
               if a is not b and a["station"] == b["station"] and a["departure"] == b["arrival"])


def _vacant_addressed(case, obs):
    """some period in which a non-zero pilot stood on a vacant station"""
    for t, row in enumerate(obs.get("occ", [])):
        for i, who in enumerate(row):
            if who is None and i < len(obs["pilots"]) and t < len(obs["pilots"][i]) and obs["pilots"][i][t] != 0:
                return True
    return False


def _charged(obs):
    return sum(1 for h in obs.get("hist", []) if h["delivered"] > 0)


def nontrivial(case, obs):
    if case.get("network") == "stochastic":
        st = obs.get("stoch", {})
        return obs.get("err") is None and _charged(obs) >= 2 and (st.get("swaps", 0) > 0 or st.get("early_unplug", 0) > 0)
    return (obs.get("err") is None and S.is_valid_layout(case) and _charged(obs) >= 2
            and (_b2b(case) > 0 or _vacant_addressed(case, obs)))


def features(case, obs):
    n = len(case["sessions"])
    f = [f"stations={len(case['stations'])}",
         "sessions=" + ("0" if n == 0 else "1-3" if n <= 3 else "4-8" if n <= 8 else "9-25"),
         f"sched={case['sched']['type']}", f"period={case['period']}", f"err={obs.get('err')}",
         "stream=" + ("stochastic" if case.get("network") == "stochastic" else "exact" if case.get("exact") else "malformed" if case.get("malformed") else "structured"),
         "charged_sessions=" + ("0" if _charged(obs) == 0 else "1" if _charged(obs) == 1 else "2-4" if _charged(obs) <= 4 else "5+"),
         "back_to_back=" + ("0" if _b2b(case) == 0 else "1+")]
    if case.get("exhaustive"):
        f.append("exhaustive_small_scope")
    if case.get("network") == "stochastic":
        st = obs.get("stoch", {})
        f.append("network=stochastic/early_departure=" + str(bool(case.get("early_departure"))))
        f.append("stoch_swaps=" + ("0" if st.get("swaps", 0) == 0 else "1-2" if st.get("swaps", 0) <= 2 else "3+"))
        f.append("stoch_early_unplug=" + ("0" if st.get("early_unplug", 0) == 0 else "1-2" if st.get("early_unplug", 0) <= 2 else "3+"))
        if st.get("never_charged", 0) > 0:
            f.append("stoch_left_while_waiting")
    else:
        f.append("network=plain")
    if obs.get("err") is None:
        if _vacant_addressed(case, obs):
            f.append("vacant_station_addressed")
        kinds = set()
        below = False
        over_request = False
        for s, e in zip(case["sessions"], obs.get("evs", [])):
            b = s["batt"]
            if e["delivered"] > 0:
                kinds.add(("two-" + b.get("calc", "continuous") + ("-noisy" if I.num(b.get("noise", 0)) > 0 else "")) if b.get("two") else "ideal")
            if e["delivered"] > I.num(s["requested"]) + 1e-3:
                over_request = True
        for k in sorted(kinds):
            f.append("charged_battery=" + k)
        if over_request:
            f.append("delivered_beyond_request")
        for i, row in enumerate(obs.get("rates", [])):
            for t, r in enumerate(row):
                if r > 0 and t < len(obs["pilots"][i]) and r < obs["pilots"][i][t] - 1e-6:
                    below = True
        if below:
            f.append("rate_below_pilot")
        if len(set(obs.get("voltages", []))) > 1:
            f.append("heterogeneous_voltages")
        ends = {s["departure"] for s in case["sessions"]}
        if any(s["arrival"] in ends for s in case["sessions"]):
            f.append("arrival_in_a_departure_period")
        if obs.get("noise_draws", 0) > 0:
            f.append("noise_drawn")
    return f


def shrink(case, kind):
    def bad(c):
        try:
            return any(f["kind"] == kind for f in oracle(c, run_impl(c)))
        except Exception:
            return False
    if not bad(case):
        return case
    cur = copy.deepcopy(case)
    changed = True
    while changed:
        changed = False
        for key in ("sessions", "recomputes"):
            i = 0
            while i < len(cur.get(key, [])):
                c2 = copy.deepcopy(cur)
                del c2[key][i]
                if bad(c2):
                    cur = c2
                    changed = True
                else:
                    i += 1
        sc = cur.get("sched", {})
        i = 0
        while i < len(sc.get("script", [])):
            c2 = copy.deepcopy(cur)
            del c2["sched"]["script"][i]
            if bad(c2):
                cur = c2
                sc = cur["sched"]
                changed = True
            else:
                i += 1
    return cur
