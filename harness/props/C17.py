"""C17 — tariff lookup is total, unambiguous and aligned with simulation time."""
from __future__ import annotations

import json
import math
import os
import re
import sys
from datetime import datetime, timedelta
from decimal import Decimal
from fractions import Fraction

import numpy as np

from core import common as C
from core.common import f2b, b2f, close

sys.path.insert(0, C.HARNESS)
import translate_tariffs as TT  # noqa: E402

ID = "C17"
FILES = list(TT.BUNDLED)
FILE_MODULES = {f: f"AcnProofs.Lemmas.TariffFile_{f}" for f in FILES}
LEAN_MODULES = ["AcnProofs.C17"] + [FILE_MODULES[f] for f in FILES]
TIE_MODULES = ["AcnProofs.Lemmas.CodeTieTariff"]
DRIVER = "drv_C17"
REQUIRED_THEOREMS = [
    "Acn.C17.wrap_split_spec", "Acn.C17.lookup_spec", "Acn.C17.select_of_count_one",
    "Acn.C17.select_error_of_count_ne_one", "Acn.C17.get_tariff_spec", "Acn.C17.get_tariff_seconds_spec",
    "Acn.C17.tariff_total_of_table", "Acn.C17.getTariffs_eq_map", "Acn.C17.interface_prices_aligned",
    "Acn.C17.interface_demand_aligned", "Acn.C17.energy_cost_def", "Acn.C17.demand_charge_def",
    "Acn.C17.decimal_rounding_bound", "Acn.C17.decimal_hour_close", "Acn.C17.decimal_no_flip",
    "Acn.C17.get_tariff_at_spec", "Acn.C17.getTariffsUs_eq_map", "Acn.C17.getTariffs_eq_getTariffsUs",
    "Acn.C17.period_timedelta_exact", "Acn.C17.period_timedelta_close", "Acn.C17.get_tariffs_eq_lookup_any_period",
    "Acn.C17.get_tariffs_instant_exact", "Acn.C17.get_tariffs_total_any_period", "Acn.C17.any_period_extends_whole_minutes",
    "Acn.C17.interface_prices_aligned_any_period", "Acn.C17.interface_demand_aligned_any_period",
    "Acn.C17.energy_cost_def_any_period", "Acn.C17.energy_cost_uses_given_tariff", "Acn.C17.energy_cost_given_tariff_def",
    "Acn.C17.memo_transparent", "Acn.C17.memo_transparent_iff", "Acn.C17.get_tariffs_memo_transparent",
    "Acn.C17.memo_key_full_sound", "Acn.C17.memo_key_month_day_visible", "Acn.C17.memo_key_day_of_month_visible",
] + [f"Acn.C17.{t}_{f}" for f in FILES
     for t in ("loads", "total_unambiguous", "breakpoints_ok", "tariff_total", "tariff_spec")]
BUDGET = {"quick": 120, "thorough": 600, "search": 120}
TRUSTED = [
    "Python datetime/timedelta: (month, day, weekday, h, m, s) of an instant and start + t·period "
    "(also compared with AcnModel/Calendar.lean on every instant)",
    "CPython decimal.Decimal (prec 28, half-even) behaves like the model's Dec arithmetic: compared digit for "
    "digit for all 86 400 seconds of the day on every run (the no-flip theorem about the model is proved for "
    "all 86 400 seconds: decimal_no_flip)",
    "Python datetime arithmetic on timezone-aware datetimes and timedelta(minutes=float) (wall-clock stepping, "
    "microsecond rounding) — inputs of the model",
    "json module; numpy dot/max in energy_cost / demand_charge (1e-9 slack)",
]
ASSUMPTIONS = [
    "an instant is the wall-clock reading (year … second) of the datetime handed to the tariff; the code never "
    "consults tzinfo, so a timezone-aware datetime is priced by its own wall clock (the same absolute instant "
    "expressed in another zone gets that zone's wall-clock price) and get_tariffs steps in un-normalised wall-clock "
    "time across a DST change (Python arithmetic on aware datetimes); microseconds are ignored (floor to the second)",
    "periods: ANY rational period for get_tariffs, Interface.get_prices / get_demand_charge and energy_cost (0.5, 2.5, 0.01 min, "
    "negative): the step is timedelta(minutes=period) = the period rounded half-even to whole microseconds (exact for every "
    "period that is a whole number of µs); that CPython's double arithmetic inside timedelta() reaches the same integer is "
    "checked on every case (20 000 random periods: no difference) and otherwise trusted; element t is looked up at the whole "
    "second CONTAINING start + t·step (microseconds dropped, not rounded)",
    "a cache of the selected schedule does not exist in /repo; the memo theorems say which caches WOULD be invisible; the "
    "reuse stream (one tariff object asked about the same (month, day) in many years, the same day of the month in many "
    "months, vectors in between) is what exposes an unsound one",
    "vector length: the theorems hold for every n; the correspondence exercises n ≤ 2500 elements and spans up to "
    "about 15 months (element k is looked up on its own: nothing may be reused from k − one day / week / year)",
    "aggregate power (acnsim.aggregate_power) is an input of the cost theorems (its definition is C18)",
    "cost theorems are over an ordered field; the implementation computes in doubles",
]
RULE = ("sweep cases: for a (file, year, month) every day × every breakpoint of the file (and midnight/end of "
        "day) × offsets {0, ±1 s, ±60 s}, for 14 years = one per calendar type (weekday of Jan 1 × leap); vector "
        "cases: get_tariffs from random starts 1960–2070 (some with microseconds), n ≤ 400, period ∈ {1,5,7,15,60} "
        "min; run cases: a real Simulator run placed so that a breakpoint / weekday-weekend midnight / season change "
        "falls inside it, the scheduler asking Interface.get_prices(n, start) and get_demand_charge(start) at iterations "
        "0, 1, mid-run, last and after the run for start ∈ {None, 0, 1, t−1, t, t+1, t+n} as Python and numpy ints, "
        "Σ get_prices(T,0)·power·dt against acnsim.energy_cost; iface cases: get_prices/get_demand_charge on an idle "
        "Simulator with the tariff as signal and "
        "acnsim.energy_cost/demand_charge on random charging rates; load cases: loader output; decimal case: all "
        "86 400 seconds; thorough adds every minute of every day of the 14 years for all five files (run-length "
        "encoded per day).  non-trivial = touches an instant within 60 s of a breakpoint, a season boundary day, "
        "or a vector that crosses midnight or spans more than a day; distinct by hash of the case.  "
        "Fourth session: every stream also has periods with seconds / half seconds / fractions of a second (0.5, 2.5, 0.25, 1.5, "
        "7.5, 0.1, 1/60, 0.01, 1/120, 1/3 min) and starts with microseconds, placed so that one step falls 1 µs … 0.999999 s before "
        "a price change; every case builds a FRESH tariff object, and reuse cases put ONE object through a history of get_tariff / "
        "get_demand_charge / get_tariffs queries on the same (month, day) in 3–9 years, the same day of the month in 3–8 months, "
        "the same weekday in several seasons; same-day vectors end on the day of the month (or the (month, day)) they start on, "
        "one to three months (a year) later; iface cases call energy_cost / demand_charge with and without a tariff argument on a "
        "simulation whose signals hold the tariff, another tariff, no tariff, or are None")

EPOCH = datetime(1970, 1, 1)
OFFS = [0, -1, 1, -60, 60]
PERIODS = [1, 5, 7, 15, 60]
# periods with seconds / half seconds / sub-second steps (minutes); all are whole numbers of microseconds except 1/3, 1/7
SEC_PERIODS = [0.5, 2.5, 0.25, 1.5, 0.75, 7.5, 0.1, 1 / 60, 0.01, 1 / 120, 1 / 3, 12.5]
US = timedelta(microseconds=1)


def case_period(case):
    """the period (minutes) as the number handed to the code"""
    return case.get("fperiod", case["period"])


def period_rat(p):
    """exact value of the period as (numerator, denominator)"""
    q = Fraction(p)
    return q.numerator, q.denominator


def td_exact_us(p):
    """the period in µs rounded half-even from its exact value (what the model's `tdUs` computes)"""
    q = Fraction(p) * 60000000
    f = q.numerator // q.denominator
    r = q - f
    return f if r < Fraction(1, 2) else f + 1 if r > Fraction(1, 2) else (f if f % 2 == 0 else f + 1)


def td_agrees(p):
    """CPython's timedelta(minutes=p) (double arithmetic) equals the exactly rounded period"""
    return timedelta(minutes=p) // US == td_exact_us(p)


def sim_start_dt(case):
    return dt(case["sim_start"]).replace(microsecond=case.get("us", 0))


def sim_start_us(case):
    return case["sim_start"] * 10 ** 6 + case.get("us", 0)


def general(case):
    """the case needs the any-period / microsecond model"""
    return "fperiod" in case or bool(case.get("us"))


def dt(t: int) -> datetime:
    return EPOCH + timedelta(seconds=int(t))


def ep(d: datetime) -> int:
    return (d.replace(microsecond=0) - EPOCH) // timedelta(seconds=1)


def _tzinfo(tz):
    from datetime import timezone
    if tz is None:
        return None
    if tz[0] in "+-":
        hh, mm = tz[1:].split(":")
        off = timedelta(hours=int(hh), minutes=int(mm))
        return timezone(off if tz[0] == "+" else -off)
    import pytz
    return pytz.timezone(tz)


def vec_start(case, aware=True):
    """the datetime handed to get_tariffs (aware if the case names a zone) / its wall clock"""
    naive = dt(case["start"]).replace(microsecond=case.get("us", 0))
    tz = _tzinfo(case.get("tz")) if aware else None
    if tz is None:
        return naive
    return tz.localize(naive) if hasattr(tz, "localize") else naive.replace(tzinfo=tz)


def vec_period(case):
    return case.get("fperiod", case["period"])


def _years14():
    out = []
    for leap in (False, True):
        for wd in range(7):
            y = 2001
            while not (datetime(y, 1, 1).weekday() == wd and ((y % 4 == 0 and y % 100 != 0) or y % 400 == 0) == leap):
                y += 1
            out.append(y)
    return out


YEARS14 = _years14()

# ------------------------------------------------------------------ the property, from the JSON


_spec_cache = {}


def spec_file(name):
    path = os.path.join(TT.tariff_dir(C.REPO), name + ".json")
    key = (path, os.path.getmtime(path))
    if key not in _spec_cache:
        with open(path) as f:
            _spec_cache[key] = json.load(f)
    return _spec_cache[key]


def _md(text):
    a, b = str(text).split("-")
    return int(a), int(b)


def spec_matches(name, d: datetime, wd=None):
    """entries of the file whose season (wrap-around included) and weekday class contain the date"""
    md = (d.month, d.day)
    wd = d.weekday() if wd is None else wd
    out = []
    for e in spec_file(name)["schedule"]:
        s, en = _md(e["effective_start"]), _md(e["effective_end"])
        in_season = (s <= md <= en) if s <= en else (md >= s or md <= en)
        cls = e["dow_mask"]
        in_class = {"WEEKDAYS": wd < 5, "WEEKENDS": wd >= 5, "ALL": True}[cls]
        if in_season and in_class:
            out.append(e)
    return out


_day_cache = {}


def _spec_day(name, month, day, wd):
    """season + weekday-class matching of one calendar day, cached: ('ok', [(sec, rate)…], demand) | other"""
    path = os.path.join(TT.tariff_dir(C.REPO), name + ".json")
    key = (path, os.path.getmtime(path), month, day, wd)
    r = _day_cache.get(key)
    if r is None:
        m = spec_matches(name, datetime(2000 if (month, day) == (2, 29) else 2001, month, day), wd)
        if len(m) == 0:
            r = ("gap",)
        elif len(m) > 1:
            r = ("ambiguous", sorted(str(e["id"]) for e in m))
        else:
            e = m[0]
            r = ("ok", [(Fraction(Decimal(t)) * 3600, float(e["tariffs"][i])) for i, t in enumerate(e["times"])],
                 float(e["demand_charge"]))
        _day_cache[key] = r
    return r


def spec_lookup(name, d: datetime):
    """('ok', rate, demand) | ('ambiguous', ids) | ('gap',) | ('noprice',)"""
    r = _spec_day(name, d.month, d.day, d.weekday())
    if r[0] != "ok":
        return r
    sod = d.hour * 3600 + d.minute * 60 + d.second
    best = None
    for bs, rate in r[1]:
        if bs <= sod and (best is None or bs > best[0]):
            best = (bs, rate)
    if best is None:
        return ("noprice",)
    return ("ok", best[1], r[2])


def spec_kind(name, sp):
    if sp[0] == "ambiguous":
        return f"ambiguous:{name}:" + "+".join(sp[1])
    if sp[0] == "gap":
        return f"gap:{name}"
    return f"noprice:{name}"


def file_breakpoint_secs(name):
    s = {0, 86399}
    for e in spec_file(name)["schedule"]:
        for t in e["times"]:
            s.add(int(Fraction(Decimal(t)) * 3600))
    return sorted(s)


def season_boundary_days(name):
    out = set()
    for e in spec_file(name)["schedule"]:
        out.add(_md(e["effective_start"]))
        out.add(_md(e["effective_end"]))
    return out


# ------------------------------------------------------------------ cases

def instants_of(case):
    if case["t"] == "instants":
        return list(case["ts"])
    if case["t"] == "sweep":
        y, mo = case["year"], case["month"]
        bps = file_breakpoint_secs(case["file"])
        d = datetime(y, mo, 1)
        out = []
        while d.month == mo:
            base = ep(d)
            for b in bps:
                for o in OFFS:
                    s = b + o
                    if 0 <= s < 86400:
                        out.append(base + s)
            d += timedelta(days=1)
        return sorted(set(out))
    raise ValueError(case["t"])


def corpus():
    out = [{"t": "load", "file": f} for f in FILES]
    out.append({"t": "decimal"})
    # season boundaries and new year, every file
    for f in FILES:
        ts = []
        for (y, mo, d) in [(2019, 12, 31), (2020, 1, 1), (2020, 2, 29), (2020, 4, 30), (2020, 5, 1), (2020, 5, 31),
                           (2020, 6, 1), (2020, 9, 30), (2020, 10, 1), (2020, 10, 31), (2020, 11, 1), (2021, 1, 2),
                           (2021, 1, 3), (2019, 7, 1), (2019, 7, 6)]:
            base = ep(datetime(y, mo, d))
            ts += [base, base + 8 * 3600 + 1800 - 1, base + 8 * 3600 + 1800, base + 16 * 3600, base + 86399]
        out.append({"t": "instants", "file": f, "ts": ts})
    out.append({"t": "vec", "file": "sce_tou_ev_4_march_2019", "start": ep(datetime(2019, 12, 31, 22, 0)), "us": 0, "n": 30, "period": 15})
    out.append({"t": "vec", "file": "sce_tou_ev_8_june_2019", "start": ep(datetime(2020, 5, 31, 20, 30)), "us": 250000, "n": 50, "period": 7})
    out.append({"t": "vec", "file": "sce_tou_ev_8_oct_2018", "start": ep(datetime(1969, 12, 31, 23, 0)), "us": 0, "n": 5, "period": 60})
    # timezone-aware starts across DST changes (spring forward 2019-03-10, fall back 2019-11-03, Berlin 2020-03-29)
    out.append({"t": "vec", "file": "sce_tou_ev_4_march_2019", "start": ep(datetime(2019, 3, 10, 0, 30)), "us": 0, "n": 12, "period": 60, "tz": "America/Los_Angeles"})
    out.append({"t": "vec", "file": "sce_tou_ev_4_march_2019", "start": ep(datetime(2019, 11, 3, 0, 30)), "us": 0, "n": 30, "period": 15, "tz": "America/Los_Angeles"})
    out.append({"t": "vec", "file": "pge_a10_tou_aug_2019", "start": ep(datetime(2020, 3, 29, 1, 0)), "us": 0, "n": 40, "period": 15, "tz": "Europe/Berlin"})
    out.append({"t": "vec", "file": "pge_a10_tou_aug_2019", "start": ep(datetime(2019, 7, 1, 19, 0)), "us": 0, "n": 6, "period": 60, "tz": "UTC"})
    out.append({"t": "vec", "file": "sce_tou_ev_8_june_2019", "start": ep(datetime(2019, 7, 1, 15, 55)), "us": 500000, "n": 8, "period": 1, "fperiod": 2.5, "tz": "+05:30"})
    out.append({"t": "vec", "file": "sce_tou_ev_8_june_2019", "start": ep(datetime(2019, 7, 1, 15, 59, 59)), "us": 999000, "n": 9, "period": 1, "fperiod": 0.01})
    out.append({"t": "vec", "file": "sce_tou_ev_8_june_2019", "start": ep(datetime(2019, 7, 1, 16, 0, 30)), "us": 0, "n": 9, "period": 1, "fperiod": -0.125})
    # explicit start=0 while the simulation is at a later iteration, window across the 12:00 breakpoint /
    # across the Fri→Sat midnight / across the season change (demand charge differs)
    out.append({"t": "run", "file": "sce_tou_ev_4_march_2019", "sim_start": ep(datetime(2019, 7, 1, 11, 30)), "period": 15,
                "T": 8, "n": 3, "volt": 208, "rates": [16, 32, 8]})
    out.append({"t": "run", "file": "sce_tou_ev_8_june_2019", "sim_start": ep(datetime(2019, 7, 5, 21, 0)), "period": 60,
                "T": 6, "n": 2, "volt": 240, "rates": [32]})
    out.append({"t": "run", "file": "pge_a10_tou_aug_2019", "sim_start": ep(datetime(2019, 10, 31, 23, 0)), "period": 15,
                "T": 10, "n": 4, "volt": 208, "rates": [8, 0, 16]})
    # longer than a week / four weeks / a year, the season changes after the first week (month, year) of the vector
    out.append({"t": "vec", "file": "sce_tou_ev_4_march_2019", "start": ep(datetime(2019, 9, 16)), "us": 0, "n": 504, "period": 60, "long": "week"})
    out.append({"t": "vec", "file": "sce_tou_ev_8_june_2019", "start": ep(datetime(2019, 5, 20, 0, 5)), "us": 0, "n": 1344, "period": 15, "long": "week"})
    out.append({"t": "vec", "file": "pge_a10_tou_aug_2019", "start": ep(datetime(2019, 10, 1, 6, 0)), "us": 0, "n": 2400, "period": 20, "long": "4weeks"})
    out.append({"t": "vec", "file": "sce_tou_ev_8_oct_2018", "start": ep(datetime(2019, 9, 20, 9, 0)), "us": 0, "n": 1500, "period": 11, "long": "week"})
    out.append({"t": "vec", "file": "sce_tou_ev_4_march_2019_tou_periods_shifted", "start": ep(datetime(2018, 5, 20, 17, 0)), "us": 0, "n": 800, "period": 1440, "long": "year"})
    out.append({"t": "vec", "file": "pge_a10_tou_aug_2019", "start": ep(datetime(2019, 4, 10, 9, 0)), "us": 0, "n": 820, "period": 720, "long": "leapyear"})
    out.append({"t": "vec", "file": "sce_tou_ev_8_june_2019", "start": ep(datetime(2019, 10, 9, 12, 0)), "us": 0, "n": 300, "period": 1, "fperiod": -60, "long": "week"})
    out.append({"t": "vec", "file": "sce_tou_ev_4_march_2019", "start": ep(datetime(2019, 5, 29, 7, 30)), "us": 0, "n": 200, "period": 30, "long": "day"})
    out.append({"t": "iface", "file": "sce_tou_ev_4_march_2019", "sim_start": ep(datetime(2019, 9, 21, 0, 0)), "period": 60,
                "rates": [[0] * 30 + [16, 32, 8, 0, 24] * 45 + [0] * 9], "volts": [208], "queries": [[0, 264], [100, 164], [264, 2], [200, 30]],
                "iteration": 250, "long": "week"})
    out.append({"t": "run", "file": "sce_tou_ev_8_june_2019", "sim_start": ep(datetime(2019, 5, 23, 6, 0)), "period": 60,
                "T": 230, "n": 230, "volt": 240, "rates": [32, 16, 0, 8], "long": "week"})
    # periods with seconds / half seconds / fractions of a second, starts with microseconds: an element 0.4 s (0.6 s) before the
    # 12:00 / 16:00 price change keeps the old price (microseconds are dropped, not rounded)
    out.append({"t": "vec", "file": "sce_tou_ev_4_march_2019", "start": ep(datetime(2019, 7, 1, 11, 58, 59)), "us": 600000, "n": 6, "period": 1, "fperiod": 0.5, "seconds": True})
    out.append({"t": "vec", "file": "sce_tou_ev_8_june_2019", "start": ep(datetime(2019, 7, 1, 15, 59, 57)), "us": 400000, "n": 12, "period": 1, "fperiod": 1 / 120, "seconds": True})
    out.append({"t": "run", "file": "sce_tou_ev_4_march_2019", "sim_start": ep(datetime(2019, 7, 1, 11, 57, 59)), "us": 600000, "period": 1, "fperiod": 0.5,
                "T": 8, "n": 3, "volt": 208, "rates": [16, 32, 8]})
    out.append({"t": "run", "file": "sce_tou_ev_8_june_2019", "sim_start": ep(datetime(2019, 7, 5, 23, 52, 29)), "us": 500000, "period": 1, "fperiod": 2.5,
                "T": 6, "n": 6, "volt": 240, "rates": [32, 8]})
    out.append({"t": "iface", "file": "pge_a10_tou_aug_2019", "sim_start": ep(datetime(2019, 10, 31, 23, 58, 29)), "us": 999999, "period": 1, "fperiod": 0.25,
                "rates": [[16, 32, 8, 0, 24, 6, 6, 6, 12, 30]], "volts": [208], "queries": [[0, 10], [5, 4], [6, 4], [7, 2]], "iteration": 6})
    out.append({"t": "iface", "file": "sce_tou_ev_4_march_2019", "sim_start": ep(datetime(2019, 9, 30, 12, 0)), "us": 0, "period": 1, "fperiod": 7.5,
                "rates": [[0] * 30 + [16, 32, 8, 0, 24] * 45 + [0] * 9], "volts": [208], "queries": [[0, 264], [96, 10], [264, 2], [200, 30]],
                "iteration": 97, "long": "day"})
    # ONE tariff object asked about the same (month, day) in other years (Friday, then Sunday), the same day of the month in
    # another season, with a vector in between
    out.append({"t": "reuse", "file": "sce_tou_ev_4_march_2019", "mode": "years",
                "ops": [["rate", ep(datetime(2019, 7, 5, 17, 0)), 0], ["rate", ep(datetime(2020, 7, 5, 17, 0)), 0],
                        ["demand", ep(datetime(2021, 7, 5, 17, 0)), 0], ["rate", ep(datetime(2025, 7, 5, 17, 0)), 999999]]})
    out.append({"t": "reuse", "file": "sce_tou_ev_8_june_2019", "mode": "dom",
                "ops": [["rate", ep(datetime(2019, 5, 31, 17, 0)), 0], ["vec", ep(datetime(2019, 5, 31, 23, 0)), 0, 4, 60],
                        ["rate", ep(datetime(2019, 7, 31, 17, 0)), 0], ["demand", ep(datetime(2019, 10, 31, 17, 0)), 0],
                        ["demand", ep(datetime(2019, 5, 31, 17, 0)), 0]]})
    # a vector that ends on the day of the month it starts on, a month later, through the 1 June season change
    out.append({"t": "vec", "file": "sce_tou_ev_4_march_2019", "start": ep(datetime(2019, 5, 15, 17, 0)), "us": 0, "n": 63, "period": 720, "long": "sameday"})
    out.append({"t": "vec", "file": "sce_tou_ev_8_june_2019", "start": ep(datetime(2019, 7, 6, 17, 0)), "us": 0, "n": 367, "period": 1440, "long": "sameday"})
    # microseconds just below / above a breakpoint
    out.append({"t": "instants", "file": "sce_tou_ev_4_march_2019", "us": 999999,
                "ts": [ep(datetime(2019, 7, 1, 11, 59, 59)), ep(datetime(2019, 7, 1, 12, 0, 0)), ep(datetime(2019, 12, 31, 23, 59, 59))]})
    return out


def _gen_vec(rng):
    f = rng.choice(FILES)
    r = rng.random()
    if r < 0.5:
        y = rng.randint(1960, 2070)
        start = ep(datetime(y, 1, 1)) + rng.randrange(0, 366 * 86400)
    else:
        # near a season boundary / new year / leap day, late in the evening
        y = rng.choice(YEARS14)
        mo, d = rng.choice(sorted(season_boundary_days(f) | {(12, 31), (2, 28), (1, 1)}))
        start = ep(datetime(y, mo, d)) + rng.choice([0, 86399, 86400 - 3600, 20 * 3600, rng.randrange(86400)])
    case = {"t": "vec", "file": f, "start": start, "us": rng.choice([0, 0, 0, 0, 0, 0, 0, 0, 1, 999999]),
            "n": rng.choice([0, 1, 2, rng.randint(3, 60), rng.randint(60, 400)]), "period": rng.choice(PERIODS)}
    r = rng.random()
    if r < 0.25:
        # timezone-aware start, often the night of a DST change
        case["tz"] = rng.choice(["America/Los_Angeles", "America/Los_Angeles", "UTC", "Europe/Berlin", "+05:30", "-08:00"])
        if rng.random() < 0.6:
            y, mo, d = rng.choice([(2019, 3, 10), (2019, 11, 3), (2020, 3, 8), (2020, 11, 1), (2020, 3, 29), (2020, 10, 25)])
            case["start"] = ep(datetime(y, mo, d)) + rng.choice([0, 1800, 3600, 5400, 7199, -3600])
    if 0.15 < r < 0.4:
        # periods that are not whole minutes / do not divide 60 (timedelta(minutes=float))
        case["fperiod"] = rng.choice([2.5, 0.5, 1 / 3, 0.01, 0.1, 90.5, 7.25, -5, 1e-5])
    return case


def _gen_vec_seconds(rng):
    """get_tariffs with a period of seconds / half seconds / fractions of a second through a price change; the start carries
    microseconds chosen so that one element falls just (1 µs … 0.999999 s) BEFORE the change"""
    f = rng.choice(FILES)
    p = rng.choice(SEC_PERIODS + [1e-5, 1 / 7, 90.5])
    step = td_exact_us(p)
    boundary = _boundary_instants(f, rng)
    n = rng.choice([2, 3, rng.randint(4, 40), rng.randint(40, 300)])
    j = rng.randint(0, n - 1)
    delta = rng.choice([0, 1, 400000, 500000, 500001, 999999, 600000, step // 2, step - 1 if step > 1 else 0])
    if rng.random() < 0.4:
        # steps with fractions of a millisecond, an element a few hundred µs before the change: the instant is start + t·step
        # to the microsecond (not accumulated in floats, not rounded to milliseconds)
        p = rng.choice([1e-5, 2.5e-5, 1 / 7, 1e-4 / 3, 1.5e-5])
        step = td_exact_us(p)
        j = rng.randint(1, n - 1)
        delta = rng.choice([1, 1, 50, 100, 100, 300, 499, 500, 501, 700, 999])
    start_us = boundary * 10 ** 6 - j * step - delta
    return {"t": "vec", "file": f, "start": start_us // 10 ** 6, "us": start_us % 10 ** 6, "n": n, "period": 1, "fperiod": p,
            "seconds": True}


def _gen_iface(rng):
    f = rng.choice(FILES)
    y = rng.choice(YEARS14)
    start = ep(datetime(y, 1, 1)) + rng.randrange(0, 365 * 86400)
    if rng.random() < 0.5:
        start -= start % 60
    T = rng.randint(1, 120)
    nev = rng.randint(1, 3)
    rates = [[rng.choice([0, 0, 6, 8, 16, 32, round(rng.uniform(0, 32), 3)]) for _ in range(T)] for _ in range(nev)]
    volts = [rng.choice([208, 240, 120, 277]) for _ in range(nev)]
    case = {"t": "iface", "file": f, "sim_start": start, "period": rng.choice(PERIODS), "rates": rates, "volts": volts,
            "queries": [[rng.choice([0, 1, rng.randint(0, 500), rng.randint(0, 20000)]), rng.choice([0, 1, rng.randint(2, 100)])]
                        for _ in range(4)],
            "iteration": rng.randint(0, 300)}
    if rng.random() < 0.4:
        _seconds_period(rng, case, f)
    return case


def _seconds_period(rng, case, f, boundary=None, j=None):
    """give a Simulator case a period with seconds / half seconds / sub-second steps and a start with microseconds, placed so
    that step j falls `delta` µs BEFORE a price change (it must still get the old price: microseconds are dropped, not
    rounded) and the following steps after it"""
    p = rng.choice(SEC_PERIODS)
    step = td_exact_us(p)
    boundary = _boundary_instants(f, rng) if boundary is None else boundary
    T = len(case["rates"][0]) if case["t"] == "iface" else case["T"]
    j = rng.randint(0, max(0, T - 1)) if j is None else j
    delta = rng.choice([0, 0, 1, 400000, 500000, 500001, 999999, step // 2])
    start_us = boundary * 10 ** 6 - j * step - delta
    case["fperiod"] = p
    case["period"] = 1
    case["sim_start"], case["us"] = start_us // 10 ** 6, start_us % 10 ** 6
    return case


def _boundary_instants(name, rng):
    """an instant at which the price (or the demand charge) changes: a breakpoint on a weekday, midnight
    between a weekday and the weekend, or midnight of a season change"""
    r = rng.random()
    y = rng.choice(YEARS14)
    if r < 0.45:
        d = datetime(y, rng.randint(1, 12), rng.randint(1, 28))
        while d.weekday() >= 5:
            d += timedelta(days=1)
        inner = [b for b in file_breakpoint_secs(name) if 0 < b < 86399]
        return ep(d) + rng.choice(inner)
    if r < 0.7:
        d = datetime(y, rng.randint(1, 12), rng.randint(1, 25))
        while d.weekday() != rng.choice([5, 0]):   # Fri→Sat or Sun→Mon midnight
            d += timedelta(days=1)
        return ep(d)
    ents = spec_file(name)["schedule"]
    mo, dd = _md(rng.choice(ents)["effective_start"])
    return ep(datetime(y, mo, dd)) + rng.choice([0] + [b for b in file_breakpoint_secs(name) if 0 < b < 86399])


def _gen_run(rng):
    f = rng.choice(FILES)
    if rng.random() < 0.3:
        return _gen_run_aligned(rng, f)
    p = rng.choice(PERIODS)
    T = rng.randint(4, 36)
    j = rng.randint(1, T - 1)           # the boundary falls on iteration j of the run
    boundary = _boundary_instants(f, rng)
    case = {"t": "run", "file": f, "sim_start": boundary - j * p * 60, "period": p, "T": T,
            "n": rng.choice([1, 2, 3, T, rng.randint(1, T + 5)]), "volt": rng.choice([208, 240, 277]),
            "rates": [rng.choice([0, 6, 8, 16, 32, round(rng.uniform(0, 32), 2)]) for _ in range(rng.randint(1, 7))]}
    if rng.random() < 0.4:
        _seconds_period(rng, case, f, boundary, j)
    return case


def _gen_run_aligned(rng, f):
    """a run whose clock is ALIGNED to a coarser grid than its period (start on the full hour / half hour / quarter, period a
    divisor of that grid) and which is loaded in every period around a price change that falls INSIDE a grid cell (a half-hour
    or any off-grid breakpoint): what an implementation that looks prices up once per hour / per grid cell and repeats them
    gets wrong, while every run whose breakpoints are on the grid is still costed correctly"""
    inner = sorted({b for b in file_breakpoint_secs(f) if 0 < b < 86399})
    grid = rng.choice([3600, 3600, 3600, 1800, 7200])
    off = [b for b in inner if b % grid] or inner
    d = datetime(rng.choice(YEARS14), rng.randint(1, 12), rng.randint(1, 28))
    while d.weekday() >= 5:
        d += timedelta(days=1)
    boundary = ep(d) + rng.choice(off)
    p = rng.choice([q for q in (1, 2, 3, 5, 6, 10, 12, 15, 20, 30) if (grid // 60) % q == 0 and q * 60 < grid] or [5])
    start = boundary - boundary % grid - rng.choice([0, 0, 1, 2, 3]) * grid
    T = (boundary - start) // (p * 60) + rng.randint(2, 3 * grid // (p * 60) + 2)
    T = int(min(T, 400))
    return {"t": "run", "file": f, "sim_start": start, "period": p, "T": T,
            "n": rng.choice([T, T, T + 5, rng.randint(1, T)]), "volt": rng.choice([208, 240, 277]),
            "rates": [rng.choice([6, 8, 16, 32, round(rng.uniform(1, 32), 2)]) for _ in range(rng.randint(1, 7))],
            "aligned": grid}


# ---- long-span stream: vectors / horizons / runs that are longer than the natural cycles of a schedule
# (a day, a week, four weeks, 52 weeks, a year) and in which the applicable schedule changes AFTER at least one
# whole cycle — what an implementation that reuses, tiles or caches lookups per (time of day) / (weekday, time) /
# (month, day, time) gets wrong, while every vector shorter than the cycle is still answered correctly.

CYCLES_MIN = {"day": 1440, "week": 10080, "4weeks": 40320, "52weeks": 524160, "year": 525600, "leapyear": 527040}
LONG_PERIODS = [1, 5, 7, 10, 11, 15, 20, 30, 60, 90, 120, 180, 240, 360, 720, 1440]
LONG_FLOAT_PERIODS = [0.5, 2.5, 7.25, 90.5, 360.25, 1440.5]
LONG_NEG_PERIODS = [-15, -60, -90, -720, -1440]
MAX_LONG_N = 2500


def season_changes(name):
    """(month, day) at whose midnight another season's entries start to apply"""
    return sorted({_md(e["effective_start"]) for e in spec_file(name)["schedule"]})


def _change_midnight(name, rng, md=None):
    """midnight at which the applicable schedule changes: a season change (mostly), Fri→Sat / Sun→Mon,
    new year, 29 Feb / 1 Mar of a leap year"""
    y = rng.choice(YEARS14 + [rng.randint(1964, 2066)])
    r = rng.random()
    if md is None and r >= 0.65:
        if r < 0.85:
            d = datetime(y, rng.randint(1, 12), rng.randint(1, 25))
            want = rng.choice([5, 0])
            while d.weekday() != want:
                d += timedelta(days=1)
            return ep(d)
        if r < 0.93:
            return ep(datetime(y, 1, 1))
        y = rng.choice(YEARS14[7:])          # leap years
        return ep(datetime(y, *rng.choice([(2, 29), (3, 1)])))
    mo, dd = md if md is not None else rng.choice(season_changes(name))
    return ep(datetime(y, mo, dd))


def _long_geometry(rng, cyc_name, boundary, periods, max_n):
    """(start, period, n): the vector start + k·period, k < n, covers `lead` > j whole cycles before the
    boundary (j ∈ {1,2,3}) and one to eight days after it; half of the time the boundary is hit exactly.
    A negative period walks backwards through the boundary."""
    cyc = CYCLES_MIN[cyc_name]
    j = rng.choice([1, 1, 1, 2, 3]) if cyc <= 40320 else 1
    lead = j * cyc + rng.randrange(1, cyc if cyc <= 40320 else 60 * 1440)
    tail = rng.choice([1440 + rng.randrange(1440), 3 * 1440 + rng.randrange(1440), 8 * 1440])
    ps = [q for q in periods if abs(q) <= cyc and (lead + tail) / abs(q) <= max_n] or [max(periods, key=abs)]
    p = rng.choice(ps)
    if rng.random() < 0.5:
        lead -= lead % abs(p)
    n = int((lead + tail) // abs(p)) + 1
    jitter = rng.choice([0, 0, 0, 0, 1, -1, 30])
    if p > 0:
        start = boundary - int(round(lead * 60)) + jitter
    else:
        start = boundary + int(round(lead * 60)) + jitter
    return start, p, n


def _gen_vec_long(rng, f=None, cyc=None, md=None):
    f = f or rng.choice(FILES)
    cyc = cyc or rng.choice(["day", "week", "week", "week", "4weeks", "52weeks", "year", "leapyear"])
    r = rng.random()
    periods = LONG_PERIODS if r < 0.75 else (LONG_FLOAT_PERIODS if r < 0.87 else LONG_NEG_PERIODS)
    start, p, n = _long_geometry(rng, cyc, _change_midnight(f, rng, md), periods, MAX_LONG_N)
    case = {"t": "vec", "file": f, "start": start, "us": rng.choice([0] * 9 + [999999]), "n": n,
            "period": p if isinstance(p, int) and p > 0 else 1, "long": cyc}
    if not (isinstance(p, int) and p > 0):
        case["fperiod"] = p
    if rng.random() < 0.12:
        case["tz"] = rng.choice(["America/Los_Angeles", "UTC", "Europe/Berlin", "+05:30", "-08:00"])
    return case


def _gen_iface_long(rng):
    """an (idle) Simulator whose horizon is longer than a day / a week / four weeks: get_prices with a long
    window from a late start index, energy_cost over the whole horizon (with idle head / tail periods)"""
    f = rng.choice(FILES)
    cyc = rng.choice(["day", "week", "week", "4weeks"])
    start, p, T = _long_geometry(rng, cyc, _change_midnight(f, rng),
                                 [5, 15, 20, 30, 60, 120, 240, 720, 1440] if rng.random() < 0.7 else [2.5, 7.5, 12.5, 37.5, 90.5, 360.25], 1200)
    nev = rng.randint(1, 2)
    head = rng.choice([0, 0, rng.randint(1, max(1, T // 2))])
    tailz = rng.choice([0, 0, rng.randint(1, max(1, T // 3))])
    pat = [rng.choice([0, 6, 8, 16, 32, round(rng.uniform(0, 32), 3)]) for _ in range(rng.randint(1, 29))]
    rates = [[0 if (k < head or k >= T - tailz) else pat[(k + 3 * i) % len(pat)] for k in range(T)] for i in range(nev)]
    a, b = rng.randint(0, T), rng.randint(0, T)
    case = {"t": "iface", "file": f, "sim_start": start, "period": p, "rates": rates,
            "volts": [rng.choice([208, 240, 120, 277]) for _ in range(nev)],
            "queries": [[0, T], [a, rng.randint(1, T)], [b, T], [T, 2]], "iteration": rng.randint(0, T), "long": cyc}
    return _float_long(rng, case)


def _float_long(rng, case):
    if not isinstance(case["period"], int):
        case["fperiod"], case["period"] = case["period"], 1
        case["us"] = rng.choice([0, 500000, 999999])
    return case


def _gen_run_long(rng):
    """a real Simulator run that lasts longer than a day / a week with a schedule change after the first cycle"""
    f = rng.choice(FILES)
    cyc = rng.choice(["day", "week", "week"])
    start, p, T = _long_geometry(rng, cyc, _change_midnight(f, rng),
                                 [30, 60, 120, 240, 720] if rng.random() < 0.7 else [7.5, 12.5, 37.5, 90.5], 420)
    return _float_long(rng, {"t": "run", "file": f, "sim_start": start, "period": p, "T": T,
                             "n": rng.choice([T, T + 5, 2 * T, rng.randint(1, T)]), "volt": rng.choice([208, 240, 277]),
                             "rates": [rng.choice([0, 6, 8, 16, 32, round(rng.uniform(0, 32), 2)]) for _ in range(rng.randint(1, 7))],
                             "long": cyc})


# ---- reuse stream: ONE tariff object, a history of queries.  Every other case builds a fresh TimeOfUseTariff, so that a
# replay is self-contained; anything the object remembers between calls (a schedule cached under a key that forgets the
# weekday — i.e. the year —, the month, …) can only show here: the same (month, day) in many years, the same day of the
# month in many months, the same weekday and time in several seasons, vectors in between.

def _gen_reuse(rng, f=None, mode=None):
    f = f or rng.choice(FILES)
    mode = mode or rng.choice(["years", "years", "dom", "weekday", "mixed"])
    bps = [b for b in file_breakpoint_secs(f) if 0 < b < 86399]
    tod = min(86399, max(0, rng.choice(bps + [0, 12 * 3600]) + rng.choice([0, 0, -1, 1])))
    days = []

    def years_days():
        mo, dd = rng.choice([(rng.randint(1, 12), rng.randint(1, 28))] + sorted(season_boundary_days(f)))
        ys = rng.sample(YEARS14 + [rng.randint(1964, 2066) for _ in range(4)], rng.randint(3, 9))
        return [datetime(y, mo, dd) for y in ys if not ((mo, dd) == (2, 29) and datetime(y, 3, 1) - datetime(y, 2, 28) == timedelta(days=1))]

    def dom_days():
        dd = rng.choice([1, 15, 28, 30, 31, rng.randint(1, 28)])
        out = []
        for y in rng.sample(YEARS14, rng.choice([1, 1, 2])):
            for mo in rng.sample(range(1, 13), rng.randint(3, 8)):
                try:
                    out.append(datetime(y, mo, dd))
                except ValueError:
                    pass
        return out

    def weekday_days():
        y, w = rng.choice(YEARS14), rng.randrange(7)
        out = []
        for mo in rng.sample(range(1, 13), rng.randint(3, 8)):
            d = datetime(y, mo, rng.randint(1, 21))
            while d.weekday() != w:
                d += timedelta(days=1)
            out.append(d)
        return out

    if mode == "years":
        days = years_days()
    elif mode == "dom":
        days = dom_days()
    elif mode == "weekday":
        days = weekday_days()
    else:
        days = years_days() + dom_days() + weekday_days()
        rng.shuffle(days)
        days = days[:12]
    ops = []
    for d in days:
        t = ep(d) + tod
        us = rng.choice([0, 0, 0, 999999, 500000])
        r = rng.random()
        if r < 0.55:
            ops.append(["rate", t, us])
        elif r < 0.75:
            ops.append(["demand", t, us])
        else:
            ops.append(["vec", t - rng.choice([0, 60, 3600]), us, rng.randint(2, 12), rng.choice([1, 5, 15, 60, 0.5, 2.5])])
    return {"t": "reuse", "file": f, "mode": mode, "ops": ops}


def _gen_vec_sameday(rng):
    """a vector whose LAST element has the same day of the month (one to three months later) or the same (month, day) (a year
    later) as its first, with a season change / other weekday class in between: what a 'same .day ⇒ same day' fast path or a
    per-(month, day) reuse gets wrong"""
    f = rng.choice(FILES)
    y = rng.choice(YEARS14)
    if rng.random() < 0.75:
        mo, dd = rng.choice(season_changes(f))
        d0 = datetime(y, mo, dd) - timedelta(days=rng.randint(1, 27))
        if d0.day > 28:
            d0 = d0.replace(day=28)
        k = rng.choice([1, 1, 1, 2, 3])
        m1 = d0.month - 1 + k
        d1 = datetime(d0.year + m1 // 12, m1 % 12 + 1, d0.day)
    else:
        d0 = datetime(y, rng.randint(1, 12), rng.randint(1, 28))
        d1 = datetime(y + 1, d0.month, d0.day)
    mins = (d1 - d0) // timedelta(minutes=1)
    p = rng.choice([q for q in (1440, 720, 480, 360, 240, 180, 120, 90, 60) if mins // q + 1 <= MAX_LONG_N])
    tod = rng.choice([0, 12 * 3600, 17 * 3600, rng.randrange(86400)])
    return {"t": "vec", "file": f, "start": ep(d0) + tod, "us": rng.choice([0, 0, 0, 999999]), "n": mins // p + 1, "period": p,
            "long": "sameday"}


def _long_stream(rng, n_random):
    out = []
    # skeleton: every file × every season change × lead longer than {a day, a week, four weeks, about a year}
    for f in FILES:
        for md in season_changes(f):
            for cyc in ("day", "week", "4weeks", rng.choice(["52weeks", "year", "leapyear"])):
                out.append(_gen_vec_long(rng, f, cyc, md))
    for j in range(n_random):
        out.append(_gen_run_long(rng) if j % 6 == 5 else (_gen_iface_long(rng) if j % 6 == 2 else
                                                          (_gen_vec_sameday(rng) if j % 6 == 3 else _gen_vec_long(rng))))
    # one object across years / months: every file, the three pure modes
    for f in FILES:
        for mode in ("years", "dom", "weekday"):
            out.append(_gen_reuse(rng, f, mode))
    for j in range(max(6, n_random // 2)):
        out.append(_gen_reuse(rng))
    return out


def generate(rng, n, tier):
    out = []
    # deterministic sweep: every day of the 14 calendar types, all five files
    for f in FILES:
        for y in YEARS14:
            for mo in range(1, 13):
                out.append({"t": "sweep", "file": f, "year": y, "month": mo})
    for i in range(n):
        out.append(_gen_run(rng) if i % 3 == 2 else (_gen_iface(rng) if i % 9 == 4 else
                                                     (_gen_vec_seconds(rng) if i % 9 in (1, 7) else _gen_vec(rng))))
    out.extend(_long_stream(rng, max(24, n // 5)))
    if tier == "thorough":
        for f in FILES:
            for y in YEARS14:
                out.append({"t": "minutes", "file": f, "year": y})
    return out


def search(rng, n):
    """failing-input search after a broken obligation / disagreement: every day of a leap year and of a
    common year whose Jan 1 falls on different weekdays (all 366 × 7 … triples are in the main sweep
    already), plus fresh random vectors"""
    out = []
    for f in FILES:
        for y in (2004, 2023):
            for mo in range(1, 13):
                out.append({"t": "sweep", "file": f, "year": y, "month": mo})
    for i in range(n):
        out.append(_gen_run(rng) if i % 3 == 2 else (_gen_iface(rng) if i % 9 == 4 else
                                                     (_gen_vec_seconds(rng) if i % 9 in (1, 7) else _gen_vec(rng))))
    out.extend(_long_stream(rng, max(24, n // 3)))
    return out


def shrink(case, kind):
    """smallest case of the same kind: a single instant"""
    if case["t"] in ("sweep", "instants"):
        tar = _tariff(case["file"])
        for t in instants_of(case):
            one = {"t": "instants", "file": case["file"], "ts": [t]}
            o = run_impl(one)
            if any(f["kind"] == kind for f in oracle(one, o)):
                return one
    if case["t"] == "reuse" and len(case["ops"]) > 2:
        ops = case["ops"]
        for i in range(len(ops)):            # a single query, then a pair (earlier query, failing query)
            one = dict(case, ops=[ops[i]])
            if any(f["kind"] == kind for f in oracle(one, run_impl(one))):
                return one
        for j in range(len(ops)):
            for i in range(j):
                two = dict(case, ops=[ops[i], ops[j]])
                if any(f["kind"] == kind for f in oracle(two, run_impl(two))):
                    return two
    if case["t"] == "vec" and case["n"] > 1:
        def fails(n):
            c = dict(case, n=n)
            return any(f["kind"] == kind for f in oracle(c, run_impl(c)))
        lo, hi = 0, case["n"]            # shortest failing prefix (bisection; verified below)
        while hi - lo > 1:
            mid = (lo + hi) // 2
            lo, hi = (lo, mid) if fails(mid) else (mid, hi)
        if hi < case["n"] and fails(hi):
            return dict(case, n=hi)
    return case


# ------------------------------------------------------------------ implementation

def _tariff(name):
    """a FRESH tariff object (62 µs): every case is self-contained, so a replay reproduces what the run saw; what an object
    carries from one call to the next is the business of the reuse cases (one object, a history of queries)"""
    from acnportal.signals.tariffs.tou_tariff import TimeOfUseTariff
    return TimeOfUseTariff(name)


def _err(e: Exception) -> str:
    m = str(e)
    if isinstance(e, ValueError):
        if m.startswith("More than one tariff schedule"):
            return "multipleSchedules"
        if m.startswith("No valid tariff schedule"):
            return "noSchedule"
        if "Could not find a valid price" in m:
            return "noPrice"
        if "Schedule must start at time 0" in m:
            return "notStartAtZero"
        if "dow_mask" in m:
            return "badMask"
        if m.startswith("No pricing method"):
            return "pick:ValueError"
    if isinstance(e, TypeError) and "not iterable" in m:
        return "pick:TypeError"          # `"tariff" in sim.signals` with signals = None
    if isinstance(e, IndexError):
        return "indexError"
    return f"{type(e).__name__}: {m[:80]}"


def _call(fn, *a):
    try:
        r = fn(*a)
        if isinstance(r, (list, np.ndarray)):
            return [float(x) for x in r]
        return float(r)
    except Exception as e:  # noqa
        return _err(e)


def _minutes_chunk(args):
    name, y, mo = args
    tar = _tariff(name)
    d = datetime(y, mo, 1)
    out = []
    while d.month == mo:
        try:
            v = tar.get_tariffs(d, 1440, 1)
        except Exception as e:  # noqa
            v = []
            for k in range(1440):
                v.append(_call(tar.get_tariff, d + timedelta(minutes=k)))
        out.append(_rle(v))
        d += timedelta(days=1)
    return out


def _rle(v):
    out = []
    for x in v:
        if out and out[-1][0] == x:
            out[-1][1] += 1
        else:
            out.append([x, 1])
    return out


def run_impl(case):
    t = case["t"]
    if t == "load":
        try:
            tar = _fresh(case["file"])
        except Exception as e:  # noqa
            return {"err": _err(e)}
        return {"schedules": [{"id": s.id, "start": list(s.start), "stop": list(s.end), "mask": [bool(b) for b in s.dow_mask],
                               "times": [str(Fraction(x[0])) for x in s.tariffs], "rates": [float(x[1]) for x in s.tariffs],
                               "demand": float(s.demand_charge)} for s in tar._schedule]}
    if t == "decimal":
        vals = []
        for T in range(86400):
            h, m, s = T // 3600, T % 3600 // 60, T % 60
            vals.append(Decimal(h) + Decimal(m) / 60 + Decimal(s) / 3600)
        return {"targets": [str(Fraction(v)) for v in vals]}
    tar = _tariff(case["file"])
    if t in ("instants", "sweep"):
        ts = instants_of(case)
        # the demand charge depends on the date only: asked at the first instant of every day
        first = _first_of_day(ts)
        us = case.get("us", 0)
        return {"rates": [_call(tar.get_tariff, dt(x).replace(microsecond=us)) for x in ts],
                "demands": [_call(tar.get_demand_charge, dt(x).replace(microsecond=us)) if i in first else None
                            for i, x in enumerate(ts)]}
    if t == "vec":
        return {"prices": _call(tar.get_tariffs, vec_start(case), case["n"], vec_period(case))}
    if t == "reuse":
        def ask(obj, op):
            d = dt(op[1]).replace(microsecond=op[2])
            if op[0] == "rate":
                return _call(obj.get_tariff, d)
            if op[0] == "demand":
                return _call(obj.get_demand_charge, d)
            return _call(obj.get_tariffs, d, op[3], op[4])
        # the history on ONE object, and every query once more on an object of its own
        return {"results": [ask(tar, op) for op in case["ops"]], "fresh": [ask(_tariff(case["file"]), op) for op in case["ops"]]}
    if t == "minutes":
        import multiprocessing as mp
        with mp.get_context("fork").Pool(min(12, os.cpu_count() or 1)) as pool:
            chunks = pool.map(_minutes_chunk, [(case["file"], case["year"], mo) for mo in range(1, 13)])
        return {"days": [d for ch in chunks for d in ch]}
    if t == "iface":
        return _run_iface(case, tar)
    if t == "run":
        return _run_real(case, tar)
    raise ValueError(t)


def _first_of_day(ts):
    seen, out = set(), set()
    for i, x in enumerate(ts):
        if x // 86400 not in seen:
            seen.add(x // 86400)
            out.add(i)
    return out


def _fresh(name):
    from acnportal.signals.tariffs.tou_tariff import TimeOfUseTariff
    return TimeOfUseTariff(name)


def _run_iface(case, tar):
    from acnportal import acnsim
    from acnportal.acnsim import Simulator, EventQueue, Interface
    from acnportal.acnsim.network import ChargingNetwork, Current
    from acnportal.acnsim.models.evse import EVSE
    from acnportal.algorithms import BaseAlgorithm
    net = ChargingNetwork()
    ids = []
    for i, v in enumerate(case["volts"]):
        net.register_evse(EVSE(f"S{i}", max_rate=32), v, 0)
        ids.append(f"S{i}")
    net.add_constraint(Current(ids), 1000, name="c")  # (constraint-free networks: finding F3, C06)
    sim = Simulator(net, BaseAlgorithm(), EventQueue(), sim_start_dt(case), period=case_period(case),
                    signals={"tariff": tar}, verbose=False)
    iface = Interface(sim)
    out = {"queries": []}
    for idx, n in case["queries"]:
        out["queries"].append({"prices": _call(iface.get_prices, n, idx), "demand": _call(iface.get_demand_charge, idx)})
    sim._iteration = case["iteration"]
    out["current"] = {"prices": _call(iface.get_prices, 3), "demand": _call(iface.get_demand_charge)}
    sim.charging_rates = np.array(case["rates"], dtype=float)
    agg = acnsim.aggregate_power(sim)
    out["agg"] = [float(x) for x in agg]
    out["energy_cost"] = _call(acnsim.energy_cost, sim)
    out["demand_charge"] = _call(acnsim.demand_charge, sim)
    out["energy_cost_explicit"] = _call(acnsim.energy_cost, sim, tar)
    # an explicitly given tariff that DIFFERS from the simulation's own signal: the argument decides
    other = FILES[(FILES.index(case["file"]) + 1) % len(FILES)]
    out["other_file"] = other
    otar = _tariff(other)
    out["energy_cost_other"] = _call(acnsim.energy_cost, sim, otar)
    out["demand_charge_other"] = _call(acnsim.demand_charge, sim, otar)
    # the rest of the contract: no "tariff" signal (argument given / not given), signals = None (argument given / not given)
    contract = {}
    for tag, sig in (("nosignal", {}), ("nodict", None)):
        sim.signals = sig
        contract[tag] = {"energy_cost_arg": _call(acnsim.energy_cost, sim, otar), "demand_charge_arg": _call(acnsim.demand_charge, sim, otar),
                         "energy_cost": _call(acnsim.energy_cost, sim), "demand_charge": _call(acnsim.demand_charge, sim)}
    sim.signals = {"tariff": tar}
    out["contract"] = contract
    return out


def run_starts(t, n):
    """explicit `start` arguments tried at iteration t (None = the default)"""
    out = [None]
    for k in (0, 1, t - 1, t, t + 1, t + n):
        if k not in out:
            out.append(k)
    return out


def run_probe_iterations(T):
    return sorted({0, 1, T // 2, T - 1} & set(range(T)))


def _run_real(case, tar):
    """A real Simulator run (one EV connected for the whole run, a scheduler that is invoked every period);
    at iterations 0, 1, mid-run and the last one the scheduler asks its Interface for prices and demand charge
    with start ∈ {None, 0, 1, t-1, t, t+1, t+n}, as Python ints and as numpy ints; after the run the same
    questions are asked at the final iteration and Σ get_prices(T, 0)·power·dt is compared with energy_cost."""
    from acnportal import acnsim
    from acnportal.acnsim import Simulator, EventQueue, Interface
    from acnportal.acnsim.events import PluginEvent
    from acnportal.acnsim.models import EV, Battery
    from acnportal.acnsim.network import ChargingNetwork, Current
    from acnportal.acnsim.models.evse import EVSE
    from acnportal.algorithms import BaseAlgorithm
    T, n, rates = case["T"], case["n"], case["rates"]
    probes = run_probe_iterations(T)
    record = []

    def ask(iface, t, where):
        for k in run_starts(t, n):
            for np_int in (False, True):
                if k is None and np_int:
                    continue
                arg = np.int64(k) if np_int else k
                record.append({"at": t, "where": where, "start": k, "np": np_int,
                               "prices": _call(iface.get_prices, n, arg) if k is not None else _call(iface.get_prices, n),
                               "demand": _call(iface.get_demand_charge, arg) if k is not None else _call(iface.get_demand_charge)})

    class Rec(BaseAlgorithm):
        def __init__(self):
            super().__init__()
            self.max_recompute = 1

        def schedule(self, active_sessions):
            t = self.interface.current_time
            if t in probes:
                ask(self.interface, t, "scheduler")
            return {s.station_id: [rates[t % len(rates)]] for s in active_sessions}

    net = ChargingNetwork()
    net.register_evse(EVSE("S0", max_rate=32), case["volt"], 0)
    net.add_constraint(Current(["S0"]), 1000, name="c")
    ev = EV(0, T, 1e6, "S0", "sess0", Battery(1e6, 0, 1e6))
    sim = Simulator(net, Rec(), EventQueue([PluginEvent(0, ev)]), sim_start_dt(case), period=case_period(case),
                    signals={"tariff": tar}, verbose=False)
    sim.run()
    final = int(sim.iteration)
    iface = Interface(sim)
    ask(iface, final, "after_run")
    agg = acnsim.aggregate_power(sim)
    L = len(agg)
    whole = _call(iface.get_prices, L, 0)
    out = {"queries": record, "final": final, "agg": [float(x) for x in agg], "whole": whole,
           "energy_cost": _call(acnsim.energy_cost, sim), "demand_charge": _call(acnsim.demand_charge, sim)}
    if isinstance(whole, list):
        out["sum_prices_power_dt"] = float(np.array(whole).dot(agg) * (case_period(case) / 60))
    return out


# ------------------------------------------------------------------ model

def _py_fields(t):
    d = dt(t)
    return [d.month, d.day, d.weekday(), d.hour, d.minute, d.second]


def model_request(case):
    t = case["t"]
    if t == "load":
        return {"op": "load", "file": case["file"]}
    if t == "decimal":
        return {"op": "decimal", "from": 0, "to": 86400}
    if t in ("instants", "sweep"):
        ts = instants_of(case)
        return {"op": "instants", "file": case["file"], "ts": ts, "py": [_py_fields(x) for x in ts]}
    if t == "vec":
        return _vec_req(case["file"], case["start"], case.get("us", 0), case["n"], vec_period(case),
                        "fperiod" in case or bool(case.get("tz")) or bool(case.get("us")))
    if t == "reuse":
        return {"op": "load", "file": case["file"]}      # the per-query requests are made in `compare`
    if t == "minutes":
        d0 = ep(datetime(case["year"], 1, 1)) // 86400
        days = (datetime(case["year"] + 1, 1, 1) - datetime(case["year"], 1, 1)).days
        return {"op": "minutes", "file": case["file"], "day0": d0, "days": days}
    if t == "iface":
        return _iface_req(case, 0, case["queries"][0][0], case["queries"][0][1])
    if t == "run":
        return _iface_req(case, 0, None, 1)
    return None


def _vec_req(file, start, us, n, period, general_form):
    """get_tariffs request: whole-minute period and whole-second start → `getTariffs`; otherwise the rational-period model
    `getTariffsP` (when CPython's timedelta agrees with the exactly rounded period — always, so far) or, failing that, the
    timedelta step as an input (`getTariffsUs`)"""
    if not general_form and isinstance(period, int) and period >= 0:
        return {"op": "tariffs", "file": file, "start": start, "n": n, "period": period}
    if td_agrees(period):
        a, b = period_rat(period)
        return {"op": "tariffs_p", "file": file, "start_us": start * 10 ** 6 + us, "n": n, "p_num": a, "p_den": b}
    return {"op": "tariffs_us", "file": file, "start_us": start * 10 ** 6 + us, "n": n, "step_us": timedelta(minutes=period) // US}


def _iface_req(case, iteration, start, n):
    if not general(case):
        return {"op": "iface", "file": case["file"], "sim_start": case["sim_start"], "period": case["period"],
                "iteration": iteration, "start": start, "n": n}
    a, b = period_rat(case_period(case))
    return {"op": "iface_p", "file": case["file"], "sim_start_us": sim_start_us(case), "p_num": a, "p_den": b,
            "iteration": iteration, "start": start, "n": n}


def _cost_req(case, agg, arg, sig):
    """energy_cost(sim, tariff=arg) / demand_charge(sim, tariff=arg) with sim.signals = {"tariff": sig} | {} (None) | None ("nodict")"""
    a, b = period_rat(case_period(case))
    return {"op": "cost_p", "sim_start_us": sim_start_us(case), "p_num": a, "p_den": b, "period_f": f2b(float(case_period(case))),
            "agg": [f2b(x) for x in agg], "arg": arg, "sig": sig}


_drv = None


def _driver():
    global _drv
    if _drv is None:
        _drv = C.Driver(DRIVER)
    return _drv


def _mval(x):
    """driver result: bit pattern | list of bit patterns | error name"""
    if isinstance(x, str):
        return x
    if isinstance(x, list):
        return [b2f(v) for v in x]
    return b2f(x)


def _same(a, m):
    if isinstance(a, str) or isinstance(m, str):
        return a == m
    if isinstance(a, list) != isinstance(m, list):
        return False
    if isinstance(a, list):
        return len(a) == len(m) and all(close(x, y) for x, y in zip(a, m))
    return close(a, m)


def compare(case, obs, model):
    t = case["t"]
    out = []
    if "load_err" in model:
        return [f"model: the loader rejects the file ({model['load_err']}) but the implementation loaded it"] if "err" not in obs else []
    if t == "load":
        if ("err" in obs) != ("err" in model):
            return [f"loader: impl={obs.get('err')} model={model.get('err')}"]
        if "err" in obs:
            return [] if obs["err"] == model["err"] else [f"loader error impl={obs['err']} model={model['err']}"]
        ms = model["schedules"]
        if len(ms) != len(obs["schedules"]):
            return [f"loader: {len(obs['schedules'])} schedules vs model {len(ms)}"]
        for i, (a, m) in enumerate(zip(obs["schedules"], ms)):
            for k in ("id", "start", "stop", "mask"):
                if a[k] != m[k]:
                    out.append(f"schedule {i}.{k}: impl={a[k]} model={m[k]}")
            if [Fraction(x) for x in a["times"]] != [Fraction(x) for x in m["times"]]:
                out.append(f"schedule {i}.times: impl={a['times']} model={m['times']}")
            if not _same(a["rates"], _mval(m["rates"])) or not _same(a["demand"], _mval(m["demand"])):
                out.append(f"schedule {i} rates/demand differ")
        return out
    if t == "decimal":
        mt = model["targets"]
        for T, (a, m) in enumerate(zip(obs["targets"], mt)):
            c, e = m.split("e")
            if Fraction(a) != Fraction(int(c)) * Fraction(10) ** int(e):
                out.append(f"Decimal hour value at second {T}: CPython={a} model={m}")
                if len(out) > 3:
                    break
        if model["bad"]:
            out.append(f"model: flipOk is false for {model['bad']} seconds of the day")
        return out
    if t in ("instants", "sweep"):
        ts = instants_of(case)
        if model["calbad"]:
            i = model["calbad"][0]
            out.append(f"Calendar.lean and datetime disagree on t={ts[i]} ({dt(ts[i])}), {len(model['calbad'])} instants")
        for k in ("rates", "demands"):
            for i, (a, m) in enumerate(zip(obs[k], model[k])):
                if a is not None and not _same(a, _mval(m)):
                    out.append(f"{k}[{i}] at {dt(ts[i])}: impl={a} model={_mval(m)}")
                    break
        return out
    if t == "vec":
        if not _same(obs["prices"], _mval(model["prices"])):
            out.append(f"get_tariffs impl={str(obs['prices'])[:200]} model={str(_mval(model['prices']))[:200]}")
        if "step_us" in model and model["step_us"] != timedelta(minutes=vec_period(case)) // US:
            out.append(f"timedelta(minutes={vec_period(case)}) is {timedelta(minutes=vec_period(case)) // US} µs, model tdUs = {model['step_us']}")
        return out
    if t == "reuse":
        drv = _driver()
        reqs = []
        for op in case["ops"]:
            if op[0] in ("rate", "demand"):
                reqs.append({"op": "instants", "file": case["file"], "ts": [op[1]], "py": [_py_fields(op[1])]})
            else:
                reqs.append(_vec_req(case["file"], op[1], op[2], op[3], op[4], True))
        for i, (op, a, r) in enumerate(zip(case["ops"], obs["results"], drv.ask(reqs))):
            m = _mval(r["rates"][0]) if op[0] == "rate" else _mval(r["demands"][0]) if op[0] == "demand" else _mval(r["prices"])
            if not _same(a, m):
                out.append(f"query {i} {op} on the reused object: impl={str(a)[:120]} model={str(m)[:120]}")
        return out[:6]
    if t == "minutes":
        for i, (a, m) in enumerate(zip(obs["days"], model["days"])):
            mm = [[_mval(x[0]), x[1]] for x in m]
            if len(a) != len(mm) or any(x[1] != y[1] or not _same(x[0], y[0]) for x, y in zip(a, mm)):
                out.append(f"day {i} of {case['year']}: impl={a} model={mm}")
                break
        if len(obs["days"]) != len(model["days"]):
            out.append("number of days differs")
        return out
    if t == "run":
        drv = _driver()
        if general(case) and not td_agrees(case_period(case)):
            return []
        reqs = [_iface_req(case, q["at"], q["start"], case["n"]) for q in obs["queries"]]
        reqs.append(_iface_req(case, obs["final"], 0, len(obs["agg"])))
        if general(case):
            reqs.append(_cost_req(case, obs["agg"], None, case["file"]))
        else:
            reqs.append({"op": "cost", "file": case["file"], "sim_start": case["sim_start"], "period": case["period"],
                         "agg": [f2b(x) for x in obs["agg"]]})
        res = drv.ask(reqs)
        for q, r in zip(obs["queries"], res):
            tag = f"iteration {q['at']} ({q['where']}) start={q['start']}{' (numpy int)' if q['np'] else ''}"
            if not _same(q["prices"], _mval(r["prices"])):
                out.append(f"get_prices({case['n']}, {q['start']}) at {tag}: impl={str(q['prices'])[:120]} model={str(_mval(r['prices']))[:120]}")
            if not _same(q["demand"], _mval(r["demand"])):
                out.append(f"get_demand_charge at {tag}: impl={q['demand']} model={_mval(r['demand'])}")
        if not _same(obs["whole"], _mval(res[-2]["prices"])):
            out.append("get_prices(T, 0) after the run differs from the model")
        c = res[-1]
        if not _same(obs["energy_cost"], _mval(c["energy_cost"])):
            out.append(f"energy_cost impl={obs['energy_cost']} model={_mval(c['energy_cost'])}")
        if not _same(obs["demand_charge"], _mval(c["demand_charge"])):
            out.append(f"demand_charge impl={obs['demand_charge']} model={_mval(c['demand_charge'])}")
        return out[:6]
    if t == "iface":
        drv = _driver()
        if not td_agrees(case_period(case)):
            return []
        reqs = [_iface_req(case, 0, idx, n) for idx, n in case["queries"]]
        reqs.append(_iface_req(case, case["iteration"], None, 3))
        nq = len(reqs)
        # the explicit-tariff contract (energyCostWith / demandChargeWith): argument, else signals["tariff"], else an error
        f_, o_ = case["file"], obs.get("other_file")
        plan = [("explicit", obs["energy_cost_explicit"], None, f_, f_),
                ("other", obs["energy_cost_other"], obs["demand_charge_other"], o_, f_)]
        for tag, sig in (("nosignal", None), ("nodict", "nodict")):
            ct = obs["contract"][tag]
            plan.append((tag + "+arg", ct["energy_cost_arg"], ct["demand_charge_arg"], o_, sig))
            plan.append((tag, ct["energy_cost"], ct["demand_charge"], None, sig))
        reqs.extend(_cost_req(case, obs["agg"], arg, sig) for _, _, _, arg, sig in plan)
        reqs.append(_cost_req(case, obs["agg"], None, f_))
        res = drv.ask(reqs)
        for (tag, ec, dc, arg, sig), r in zip(plan, res[nq:-1]):
            if not _same(ec, _mval(r["energy_cost"])):
                out.append(f"energy_cost(sim, tariff={arg}) with signals tariff={sig} [{tag}]: impl={ec} model={_mval(r['energy_cost'])}")
            if dc is not None and not _same(dc, _mval(r["demand_charge"])):
                out.append(f"demand_charge(sim, tariff={arg}) with signals tariff={sig} [{tag}]: impl={dc} model={_mval(r['demand_charge'])}")
        for i, q in enumerate(obs["queries"] + [obs["current"]]):
            if not _same(q["prices"], _mval(res[i]["prices"])):
                out.append(f"get_prices query {i}: impl={str(q['prices'])[:160]} model={str(_mval(res[i]['prices']))[:160]}")
            if not _same(q["demand"], _mval(res[i]["demand"])):
                out.append(f"get_demand_charge query {i}: impl={q['demand']} model={_mval(res[i]['demand'])}")
        c = res[-1]
        if not _same(obs["energy_cost"], _mval(c["energy_cost"])):
            out.append(f"energy_cost impl={obs['energy_cost']} model={_mval(c['energy_cost'])}")
        if not _same(obs["demand_charge"], _mval(c["demand_charge"])):
            out.append(f"demand_charge impl={obs['demand_charge']} model={_mval(c['demand_charge'])}")
        return out
    return out


# ------------------------------------------------------------------ property oracle

def _check_instant(name, d, got, fails, what="get_tariff", want_demand=False):
    """the property at one instant; `got` is the implementation's answer (number or error)"""
    sp = spec_lookup(name, d)
    if sp[0] != "ok":
        fails.setdefault(spec_kind(name, sp), f"{d}: {sp} — {what} answered {got!r}")
        return
    exp = sp[2] if want_demand else sp[1]
    if isinstance(got, str):
        fails.setdefault(f"unexpected_exception:{name}", f"{what}({d}) raised {got}; exactly one schedule applies, expected {exp}")
    elif not close(got, exp):
        fails.setdefault(f"{'demand' if want_demand else 'rate'}_wrong:{name}", f"{what}({d}) = {got!r}, expected {exp!r}")


def _check_vector(name, start, n, period, got, fails, what):
    exp = []
    for k in range(n):
        d = start + k * timedelta(minutes=period)
        sp = spec_lookup(name, d)
        if sp[0] != "ok":
            fails.setdefault(spec_kind(name, sp), f"{what}: element {k} at {d}: {sp} — answered {str(got)[:80]}")
            return
        exp.append(sp[1])
    if isinstance(got, str):
        fails.setdefault(f"unexpected_exception:{name}", f"{what} raised {got}")
    elif len(got) != n or not all(close(a, b) for a, b in zip(got, exp)):
        k = next((i for i, (a, b) in enumerate(zip(got, exp)) if not close(a, b)), None)
        fails.setdefault(f"vector_misaligned:{name}", f"{what}: length {len(got)} (expected {n}), first differing element {k}: "
                                                      f"{got[k] if k is not None else None} vs {exp[k] if k is not None else None}")


def oracle(case, obs):
    fails = {}
    t = case["t"]
    name = case.get("file")
    if t == "load":
        if "err" in obs:
            fails[f"loader_raises:{name}"] = obs["err"]
        else:
            ents = spec_file(name)["schedule"]
            wrapped = [e for e in ents if _md(e["effective_end"]) < _md(e["effective_start"])]
            if len(obs["schedules"]) != len(ents) + len(wrapped):
                fails[f"loader_structure:{name}"] = f"{len(obs['schedules'])} schedules from {len(ents)} entries, {len(wrapped)} wrapped"
            starts = [tuple(s["start"]) for s in obs["schedules"]]
            if starts != sorted(starts):
                fails[f"loader_structure:{name}"] = f"not sorted by start: {starts}"
            for s in obs["schedules"]:
                ts = [Fraction(x) for x in s["times"]]
                if ts != sorted(set(ts)) or not ts or ts[0] != 0 or ts[-1] >= 24:
                    fails[f"breakpoints_malformed:{name}"] = f"{s['id']}: {s['times']}"
    elif t == "decimal":
        for T, a in enumerate(obs["targets"]):
            x = Fraction(a)
            if abs(x - Fraction(T, 3600)) >= Fraction(1, 3600) or (T % 1800 == 0 and x != Fraction(T, 3600)):
                fails["decimal_contract_broken"] = f"second {T}: Decimal hour value {a}"
                break
    elif t in ("instants", "sweep"):
        ts = instants_of(case)
        for x, r, dm in zip(ts, obs["rates"], obs["demands"]):
            _check_instant(name, dt(x), r, fails)
            if dm is not None:
                _check_instant(name, dt(x), dm, fails, "get_demand_charge", True)
    elif t == "vec":
        # the statement: element k is the price at the WALL CLOCK of the datetime handed over + k·period
        start = vec_start(case, aware=False)
        _check_vector(name, start, case["n"], vec_period(case), obs["prices"], fails,
                      f"get_tariffs({vec_start(case)}, {case['n']}, {vec_period(case)})")
    elif t == "minutes":
        d = datetime(case["year"], 1, 1)
        for day in obs["days"]:
            k = 0
            for val, cnt in day:
                # the run must be constant in the specification as well: check its first and last minute and
                # every breakpoint minute inside it
                mins = {k, k + cnt - 1} | {b // 60 for b in file_breakpoint_secs(name) if k <= b // 60 < k + cnt}
                for mi in sorted(mins):
                    _check_instant(name, d + timedelta(minutes=mi), val, fails)
                k += cnt
            if k != 1440:
                fails.setdefault(f"vector_misaligned:{name}", f"{d}: {k} minutes")
            d += timedelta(days=1)
    elif t == "reuse":
        # one object, a history: EVERY answer is what the statement says for that instant alone — nothing may depend on what
        # the object was asked before
        for i, (op, got) in enumerate(zip(case["ops"], obs["results"])):
            d = dt(op[1]).replace(microsecond=op[2])
            before = set(fails)
            if op[0] == "vec":
                _check_vector(name, d, op[3], op[4], got, fails, f"query {i} of {len(case['ops'])} on one tariff object: get_tariffs({d}, {op[3]}, {op[4]})")
            else:
                _check_instant(name, d, got, fails, f"query {i} of {len(case['ops'])} on one tariff object: "
                               + ("get_tariff" if op[0] == "rate" else "get_demand_charge"), op[0] == "demand")
            fresh = (obs.get("fresh") or [None] * len(case["ops"]))[i]
            for k in set(fails) - before:
                # wrong on the reused object but not on an object of its own: the object remembers something it must not
                if k.split(":")[0] in ("rate_wrong", "demand_wrong", "vector_misaligned", "unexpected_exception") and fresh != got:
                    fails[f"answer_depends_on_history:{name}"] = fails.pop(k) + f" (a fresh object answers {str(fresh)[:80]})"
    elif t == "run":
        st = sim_start_dt(case)
        p = case_period(case)
        n = case["n"]
        for q in obs["queries"]:
            idx = q["at"] if q["start"] is None else q["start"]   # an explicit start is taken as given, 0 included
            s0 = st + idx * timedelta(minutes=p)
            tag = f"at iteration {q['at']} ({q['where']}{', numpy int' if q['np'] else ''}) period {p}"
            before = set(fails)
            _check_vector(name, s0, n, p, q["prices"], fails, f"Interface.get_prices({n}, start={q['start']}) {tag}")
            if f"vector_misaligned:{name}" in fails and f"vector_misaligned:{name}" not in before:
                fails[f"interface_misaligned:{name}"] = fails.pop(f"vector_misaligned:{name}")
            before = set(fails)
            _check_instant(name, s0, q["demand"], fails, f"Interface.get_demand_charge(start={q['start']}) {tag}", True)
            if f"demand_wrong:{name}" in fails and f"demand_wrong:{name}" not in before:
                fails[f"interface_demand_misaligned:{name}"] = fails.pop(f"demand_wrong:{name}")
        agg = obs["agg"]
        specs = [spec_lookup(name, st + k * timedelta(minutes=p)) for k in range(len(agg))]
        if all(sp[0] == "ok" for sp in specs):
            exp = sum(sp[1] * a for sp, a in zip(specs, agg)) * (p / 60)
            if isinstance(obs["energy_cost"], str) or not close(obs["energy_cost"], exp):
                fails[f"energy_cost_wrong:{name}"] = f"energy_cost={obs['energy_cost']} expected Σ price·power·dt = {exp}"
            got = obs.get("sum_prices_power_dt")
            if got is None or not close(got, exp) or isinstance(obs["energy_cost"], str) or not close(got, obs["energy_cost"]):
                fails[f"interface_sum_differs_from_energy_cost:{name}"] = (
                    f"Σ get_prices(T,0)·power·dt = {got} (get_prices → {str(obs['whole'])[:80]}), energy_cost = {obs['energy_cost']}, expected {exp}")
            expd = specs[0][2] * max(agg)
            if isinstance(obs["demand_charge"], str) or not close(obs["demand_charge"], expd):
                fails[f"demand_charge_wrong:{name}"] = f"demand_charge={obs['demand_charge']} expected rate×peak = {expd}"
        if obs["final"] < case["T"] or len(agg) < case["T"]:
            fails["run_shape"] = f"final iteration {obs['final']}, {len(agg)} columns for T={case['T']}"
    elif t == "iface":
        st = sim_start_dt(case)
        p = case_period(case)
        for (idx, n), q in zip(case["queries"] + [[case["iteration"], 3]], obs["queries"] + [obs["current"]]):
            s0 = st + idx * timedelta(minutes=p)
            _check_vector(name, s0, n, p, q["prices"], fails, f"Interface.get_prices({n}, {idx}) period {p}")
            if any(k.startswith("vector_misaligned") for k in fails):
                fails[f"interface_misaligned:{name}"] = fails.pop(f"vector_misaligned:{name}")
            _check_instant(name, s0, q["demand"], fails, "Interface.get_demand_charge", True)
        agg = obs["agg"]
        specs = [spec_lookup(name, st + k * timedelta(minutes=p)) for k in range(len(agg))]
        if all(s[0] == "ok" for s in specs):
            exp = sum(s[1] * a for s, a in zip(specs, agg)) * (p / 60)
            for key in ("energy_cost", "energy_cost_explicit"):
                if isinstance(obs[key], str) or not close(obs[key], exp, 1e-9):
                    fails[f"energy_cost_wrong:{name}"] = f"{key}={obs[key]} expected Σ price·power·dt = {exp}"
            expd = specs[0][2] * max(agg)
            if isinstance(obs["demand_charge"], str) or not close(obs["demand_charge"], expd):
                fails[f"demand_charge_wrong:{name}"] = f"demand_charge={obs['demand_charge']} expected rate×peak = {expd}"
        else:
            bad = next(s for s in specs if s[0] != "ok")
            fails.setdefault(spec_kind(name, bad), f"energy_cost over {len(agg)} periods from {st}: {bad}")
        if obs.get("other_file"):
            oname = obs["other_file"]
            ospecs = [spec_lookup(oname, st + k * timedelta(minutes=p)) for k in range(len(agg))]
            if all(s_[0] == "ok" for s_ in ospecs):
                expo = sum(s_[1] * a for s_, a in zip(ospecs, agg)) * (p / 60)
                if isinstance(obs["energy_cost_other"], str) or not close(obs["energy_cost_other"], expo, 1e-9):
                    # the simulation's own tariff was used instead (a wrong cost of another kind is an energy_cost failure)
                    own = _same(obs["energy_cost_other"], obs["energy_cost"]) and not close(obs["energy_cost"], expo, 1e-9)
                    fails[f"explicit_tariff_not_used:{oname}" if own else f"energy_cost_wrong:{oname}"] = (f"energy_cost(sim, {oname}) on a simulation whose signal is {name}: "
                                                                  f"{obs['energy_cost_other']} expected Σ price·power·dt = {expo}")
                expdo = ospecs[0][2] * max(agg)
                if isinstance(obs["demand_charge_other"], str) or not close(obs["demand_charge_other"], expdo):
                    fails[f"explicit_tariff_not_used:{oname}"] = (f"demand_charge(sim, {oname}) on a simulation whose signal is {name}: "
                                                                  f"{obs['demand_charge_other']} expected rate×peak = {expdo}")
                # … also when the simulation has no tariff signal / no signals at all; and without an argument these raise
            # … whatever sim.signals holds (that tariff, no tariff, None): the SAME answer for the same argument
            for tag, ct in (obs.get("contract") or {}).items():
                if not _same(ct["energy_cost_arg"], obs["energy_cost_other"]) or not _same(ct["demand_charge_arg"], obs["demand_charge_other"]):
                    fails[f"explicit_tariff_depends_on_signals:{oname}"] = (
                        f"signals {tag}: energy_cost(sim, {oname}) = {ct['energy_cost_arg']}, demand_charge(sim, {oname}) = {ct['demand_charge_arg']}; "
                        f"with signals['tariff'] = {name}: {obs['energy_cost_other']}, {obs['demand_charge_other']}")
            for tag, ct in (obs.get("contract") or {}).items():
                if not isinstance(ct["energy_cost"], str) or not isinstance(ct["demand_charge"], str):
                    fails["cost_without_any_tariff"] = (f"signals {tag}, no tariff argument: energy_cost = {ct['energy_cost']}, "
                                                        f"demand_charge = {ct['demand_charge']} (expected an exception)")
    return [{"kind": k, "detail": v} for k, v in fails.items()]


# ------------------------------------------------------------------ evidence helpers

def nontrivial(case, obs):
    t = case["t"]
    if t in ("sweep", "minutes", "decimal", "load"):
        return True
    name = case["file"]
    bps = file_breakpoint_secs(name)
    if t == "instants":
        return any(min(abs((x % 86400) - b) for b in bps) <= 60 for x in case["ts"])
    if t == "run":
        # the rates differ inside the run, so a window shifted by the wrong start is visible
        return isinstance(obs["whole"], list) and len(set(obs["whole"])) > 1
    if t == "reuse":
        return len(case["ops"]) >= 2
    if t == "vec":
        return case["n"] > 0 and (case["start"] % 86400) + case["n"] * case["period"] * 60 > 86400 or case["n"] >= 10 \
            or abs(span_minutes(case)) > 1440
    return True


def span_minutes(case):
    return case["n"] * vec_period(case)


def _season_key(name, d):
    md = (d.month, d.day)
    out = []
    for e in spec_file(name)["schedule"]:
        a, b = _md(e["effective_start"]), _md(e["effective_end"])
        if (a <= md <= b) if a <= b else (md >= a or md <= b):
            out.append(str(e["id"]))
    return tuple(out)


def _span_features(tag, name, start, n, period):
    """how long the vector is compared with the natural cycles, and after how many whole cycles the season
    (set of entries in effect) changes inside it"""
    if n < 2:
        return []
    a, b = start, start + (n - 1) * timedelta(minutes=period)
    lo, hi = min(a, b), max(a, b)
    days = (hi - lo) / timedelta(days=1)
    out = []
    for lab, c in (("1d", 1), ("7d", 7), ("28d", 28), ("364d", 364), ("366d", 366)):
        if days > c:
            out.append(f"{tag}_span>{lab}")
    if days > 1:
        # first day (walking in the direction of the vector) on which another season applies
        step = 1 if b >= a else -1
        k0 = _season_key(name, a)
        for i in range(1, int(days) + 2):
            d = a + step * timedelta(days=i)
            d = d.replace(hour=0, minute=0, second=0, microsecond=0) if step > 0 else d
            if (d > hi if step > 0 else d < lo):
                break
            if _season_key(name, d) != k0:
                off = abs((d - a) / timedelta(days=1))
                lab = "1y" if off > 365 else "4w" if off > 28 else "1w" if off > 7 else "1d" if off > 1 else "0"
                out.append(f"{tag}_season_change_after>{lab}")
                break
    return out


def _elem_features(tag, name, start, n, period):
    """does an element carry seconds / microseconds, and does one fall within the last second before a price change with
    microseconds ≥ 0.5 s (where rounding the microseconds instead of dropping them changes the price)"""
    out = set()
    bps = set(file_breakpoint_secs(name)) | {86400}
    for k in range(min(n, 400)):
        d = start + k * timedelta(minutes=period)
        if d.second:
            out.add(f"{tag}_element_with_seconds")
        if d.microsecond:
            out.add(f"{tag}_element_with_microseconds")
            if d.microsecond >= 500000 and (d.hour * 3600 + d.minute * 60 + d.second + 1) in bps:
                out.add(f"{tag}_element_in_last_half_second_before_breakpoint")
    return sorted(out)


def features(case, obs):
    t = case["t"]
    out = ["case:" + t]
    if "file" in case:
        out.append("file:" + case["file"])
    if t == "sweep":
        out.append(f"calendar_type:jan1wd{datetime(case['year'], 1, 1).weekday()}_{'leap' if case['year'] % 4 == 0 else 'common'}")
        out.append("errors:" + str(sum(isinstance(r, str) for r in obs["rates"]) > 0))
    if t == "vec":
        out.append("period:" + str(vec_period(case) if "fperiod" not in case else "float"))
        out.append("vec_result:" + ("error:" + obs["prices"] if isinstance(obs["prices"], str) else "ok"))
        if case["n"] and (case["start"] % 86400) + case["n"] * case["period"] * 60 > 86400:
            out.append("vec_crosses_midnight")
        if case["n"] and dt(case["start"]).year != (dt(case["start"]) + case["n"] * timedelta(minutes=case["period"])).year:
            out.append("vec_crosses_new_year")
        if case["start"] < 0:
            out.append("before_1970")
        if case["us"]:
            out.append("microseconds")
        if case.get("tz"):
            out.append("tz:" + case["tz"])
        if "fperiod" in case:
            out.append("float_period:" + str(round(case["fperiod"], 5)))
        if case.get("seconds"):
            out.append("vec_seconds_period")
        if case.get("long") == "sameday":
            out.append("vec_ends_on_same_day_of_month")
        out.extend(_elem_features("vec", case["file"], vec_start(case, aware=False), case["n"], vec_period(case)))
        out.extend(_span_features("vec", case["file"], vec_start(case, aware=False), case["n"], vec_period(case)))
    if t == "reuse":
        out.append("reuse_mode:" + case.get("mode", "?"))
        out.append("reuse_queries:" + str(min(len(case["ops"]), 10)))
        insts = [dt(op[1]) for op in case["ops"]]
        if len({(d.month, d.day) for d in insts}) < len({(d.year, d.month, d.day) for d in insts}):
            out.append("reuse_same_month_day_other_year")
            if len({(d.month, d.day, d.weekday() >= 5) for d in insts}) > len({(d.month, d.day) for d in insts}):
                out.append("reuse_same_month_day_other_weekday_class")
        if len({d.day for d in insts}) < len({(d.month, d.day) for d in insts}):
            out.append("reuse_same_day_of_month_other_month")
        if len({_season_key(case["file"], d) for d in insts}) > 1:
            out.append("reuse_seasons>1")
        out.extend(sorted({"reuse_op:" + op[0] for op in case["ops"]}))
    if t in ("run", "iface"):
        out.append("sim_period:" + ("seconds:" + str(round(case["fperiod"], 5)) if "fperiod" in case else "minutes"))
        if case.get("us"):
            out.append("sim_start_microseconds")
        if isinstance(obs.get("agg"), list):
            out.extend(_elem_features(t, case["file"], sim_start_dt(case), len(obs["agg"]), case_period(case)))
    if t == "run":
        out.append("period:" + str(case_period(case)))
        seen = set()
        for q in obs["queries"]:
            idx = q["at"] if q["start"] is None else q["start"]
            kind = ("none" if q["start"] is None else "zero" if q["start"] == 0 else "before" if idx < q["at"]
                    else "current" if idx == q["at"] else "after")
            seen.add(f"run_start:{kind}{'@it>0' if q['at'] > 0 else '@it0'}")
            if isinstance(q["prices"], list) and len(set(q["prices"])) > 1:
                seen.add("run_window_has_different_rates")
        if isinstance(obs["whole"], list) and len(set(obs["whole"])) > 1:
            seen.add("run_crosses_rate_change")
        out.extend(sorted(seen))
        out.extend(_span_features("run", case["file"], sim_start_dt(case), len(obs["agg"]), case_period(case)))
    if t == "iface":
        out.append("period:" + str(case_period(case)))
        out.extend(_span_features("cost", case["file"], sim_start_dt(case), len(obs["agg"]), case_period(case)))
        for idx, n in case["queries"]:
            out.extend(_span_features("prices", case["file"], sim_start_dt(case) + idx * timedelta(minutes=case_period(case)),
                                      n, case_period(case)))
        ct = obs.get("contract") or {}
        if ct:
            out.append("contract:" + ",".join(f"{k}={'raises' if isinstance(v['energy_cost'], str) else 'value'}" for k, v in sorted(ct.items())))
        if obs["agg"] and obs["agg"][0] == 0 and any(obs["agg"]):
            out.append("cost_idle_head")
        if case.get("aligned"):
            out.append(f"run_aligned_to_grid:{case['aligned']}")
        out.append("cost_result:" + ("error" if isinstance(obs["energy_cost"], str) else "ok"))
    return out


# ------------------------------------------------------------------ broken proof obligations (check.py hook)

_ERR = re.compile(r"error: (AcnProofs/[\w/]+\.lean):(\d+):(\d+):")
_THM = re.compile(r"^\s*theorem\s+(\S+)")


def triage_build(log: str):
    """Attribute the errors of a failed `lake build` to named proof obligations.

    Returns {"modules_ok": [...], "modules_broken_theorems": [...],
             "broken": {obligation: [failure-kind prefixes that explain it] or None}}.
    An obligation on regenerated data (`total_unambiguous_<file>`) is explained by a concrete instant of
    THAT file with more than one / no valid schedule; every other broken theorem is unexplained (None)."""
    broken = {}
    broken_files = set()
    for m in _ERR.finditer(log):
        path, line = m.group(1), int(m.group(2))
        broken_files.add(path)
        src = open(os.path.join(C.LEAN, path)).read().splitlines()
        name = None
        for i in range(min(line, len(src)) - 1, -1, -1):
            mm = _THM.match(src[i])
            if mm:
                name = mm.group(1)
                break
        full = f"Acn.C17.{name}" if name else f"{path}:{line}"
        kinds = None
        for f in FILES:
            if path == FILE_MODULES[f].replace(".", "/") + ".lean" and name == f"total_unambiguous_{f}":
                kinds = [f"ambiguous:{f}:", f"gap:{f}"]
        broken[full] = kinds
    if "error:" in log and not broken:
        broken["<unattributed build error>"] = None
    mods_broken = [m for m in LEAN_MODULES if m.replace(".", "/") + ".lean" in broken_files]
    # anything downstream of a broken general module is broken as well
    if "AcnProofs.C17" in mods_broken or any(p.startswith("AcnProofs/Lemmas/Tariff") and "TariffFile_" not in p for p in broken_files):
        mods_ok = []
    else:
        mods_ok = [m for m in LEAN_MODULES if m not in mods_broken]
    thms = []
    for m in LEAN_MODULES:
        if m not in mods_ok:
            thms.extend(C.theorems_in(m))
    return {"modules_ok": mods_ok, "modules_broken_theorems": thms, "broken": broken}
