"""C15 — generated sessions are well-formed and their batteries can hold the request."""
from __future__ import annotations

import contextlib
import copy
import io
import math
from datetime import datetime
from email.utils import formatdate
from fractions import Fraction

import numpy as np
import pytz

from core.common import f2b, b2f, close
from core import impl as I
from props import C15_tz as TZ

ID = "C15"
LEAN_MODULES = ["AcnProofs.C15", "AcnProofs.C15E2E", "AcnProofs.C15Tz"]
TIE_MODULES = ["AcnProofs.Lemmas.CodeTieFit"]
DRIVER = "drv_C15"
REQUIRED_THEOREMS = [
    "Acn.C15.trunc_eq_floor", "Acn.C15.trunc_eq_ceil_before_epoch", "Acn.C15.zero_period_rejected",
    "Acn.C15.arrival_departure_spec", "Acn.C15.order_preserving", "Acn.C15.order_strict_of_period_apart",
    "Acn.C15.same_period_session_kept", "Acn.C15.stay_capped", "Acn.C15.requested_spec", "Acn.C15.requested_nonneg",
    "Acn.C15.free_capacity_covers_default", "Acn.C15.default_conversion_total", "Acn.C15.sample_spec",
    "Acn.C15.gen_fit_consts", "Acn.C15.init_le_capacity", "Acn.C15.fit_free_capacity", "Acn.C15.free_capacity_covers",
    "Acn.C15.fit_exact", "Acn.C15.bisection_terminates", "Acn.C15.bisection_answer", "Acn.C15.fit_F9_closed",
    "Acn.C15.trunc_eq_int_div", "Acn.C15.matrix_spec", "Acn.C15.fitDomain_gen", "Acn.C15.fit_exact_gen",
    "Acn.C15.fit_capacity_minimal", "Acn.C15.all_sessions_wellformed_default",
    "Acn.C15.arrival_lt_departure_iff", "Acn.C15.generate_events_vs_simulator_valid",
    "Acn.C15.generate_events_end_to_end", "Acn.C15.generate_events_end_to_end_total", "Acn.C15.fit_init_maximal",
    "Acn.C15.index_depends_only_on_instant", "Acn.C15.reading_index_spec", "Acn.C15.sessions_depend_only_on_instants",
    "Acn.C15.arrival_departure_spec_tz", "Acn.C15.index_shift_whole_periods", "Acn.C15.repeated_hour_index",
    "Acn.C15.repeated_hour_readings_differ", "Acn.C15.fold_session_stay", "Acn.C15.order_preserving_instants",
    "Acn.C15.batches_independent", "Acn.C15.memo_transparent", "Acn.C15.index_cache_by_instant_sound",
    "Acn.C15.index_cache_by_wall_unsound", "Acn.C15.index_cache_without_period_unsound",
]
BUDGET = {"quick": 1320, "thorough": 33000, "search": 13200}
TRUSTED = [
    "datetime.timestamp(), pytz zone data and strptime (the model starts from epoch seconds; the harness feeds "
    "zone-aware datetimes produced by the real acndata.utils.parse_dates from RFC-1123 strings)",
    "tz stream: CPython's aware-datetime arithmetic (timestamp() = naive fields − utcoffset()) and the utcoffset() of "
    "zoneinfo / dateutil / pytz / datetime.timezone / the hand-written PEP 495 tzinfo; the model takes (wall seconds, "
    "utcoffset) per reading, the offsets come from a hand-written rule table (civil arithmetic + n-th-Sunday rules) "
    "that run_impl cross-checks against every datetime object it builds",
    "scikit-learn's mixture sampler (samples are inputs; sample()/gmm.sample is mocked)",
    "numpy.exp vs Lean Float.exp (≤ 32 ulp), numpy.clip/minimum semantics, heapq (queue contents compared as a set)",
    "CPython recursion limit stands behind the model's bisection fuel (900)",
]
ASSUMPTIONS = [
    "theorems are over an ordered field with floor (documents, samples) and over ℝ (capacity fit); doubles are tied "
    "by correspondence with 1e-9 abs+rel slack",
    "floor = int() only for instants ≥ 1970 (DESIGN §8); the stochastic converter applies max_len and the fit's stay "
    "in hours (DESIGN §8) — the oracle follows the converter's own unit",
    "the capacity fit promises exact delivery only for max_power = 32·V/1000 and the default two-stage battery; its "
    "bisection branch is exact up to its own tolerance 1e-9 (SoC units, i.e. 1e-9·capacity kWh)",
]
RULE = ("(tz) 2-6 get_evs calls in one process on documents whose datetimes carry zoneinfo (shared and private objects), "
        "dateutil, pytz, datetime.timezone and a hand-written fold-aware tzinfo, mixed inside a batch: both readings of a "
        "repeated wall-clock time (fold 0/1) in one document / in different documents / as the simulation start, readings in "
        "the skipped hour, sessions crossing a transition, wall clocks running backwards; later calls reuse the same "
        "datetimes under another period and the same (energy, stay) under another voltage / period / max power; the "
        "expected indices come from the UTC instants in exact integer arithmetic; "
        "three more streams: (docs) 1-8 ACN-Data documents as RFC-1123 strings in 7 zones incl. DST days, parsed by the real "
        "parse_dates and fed through a fake DataClient into acndata_events.generate_events, starts/periods/voltages/"
        "max_len/force_feasible/every battery_params shape, connection and disconnection times at period boundaries ±1 s; "
        "(samples) StochasticEvents/GaussianMixtureEvents.generate_events with mocked sample()/gmm incl. invalid rows, "
        "clipping bounds, multi-day; (fit) batt_cap_fn on an (energy, stay, voltage, period) grid incl. requests far "
        "below half the deliverable energy and at the ladder capacities. non-trivial = a session inside the same period / "
        "at a period boundary / capped by max_len / reduced by force_feasible / a fitted battery / an error path; "
        "distinct by hash of the case")

ZONES = ["America/Los_Angeles", "UTC", "Europe/Berlin", "Asia/Kolkata", "Australia/Lord_Howe", "Pacific/Chatham",
         "America/New_York"]
# UTC instants (epoch seconds) around which cases are placed: DST switches of the zones above, leap day, year end
ANCHORS = [
    1552212000,  # 2019-03-10 10:00 UTC  LA spring forward
    1572771600,  # 2019-11-03 09:00 UTC  LA fall back
    1553994000,  # 2019-03-31 01:00 UTC  Berlin spring forward
    1572138000,  # 2019-10-27 01:00 UTC  Berlin fall back
    1554564600,  # 2019-04-06 15:30 UTC  Lord Howe fall back (30 min)
    1570287600,  # 2019-10-05 15:00 UTC  Lord Howe spring forward
    1582934400,  # 2020-02-29 00:00 UTC
    1546300800,  # 2019-01-01 00:00 UTC
    1536303600,  # 2018-09-07 07:00 UTC  (the tutorial week)
    0,           # the epoch itself
    2147483647,  # 2^31 - 1
    1600000000,
]
PERIODS = [5, 5, 1, 15, 0.5, 7, 2.5, 60, 3, 0.25, 10]
VOLTS = [208, 208, 240, 120, 277.5, 400]
FIT_TOL = 1e-9
NMAX = 400


def _maxp_fit(v):
    return 32 * v / 1000


# ------------------------------------------------------------------ generation

def _gen_bp(rng, fit_ok=True):
    r = rng.random()
    if r < 0.18:
        return None
    if r < 0.28:
        return {"type": "ideal"}
    if r < 0.38:
        return {"type": "two"}
    if r < 0.48:
        return {"type": "two", "kwargs": {"noise_level": rng.choice([0, 0.5]), "transition_soc": rng.choice([0.8, 0.5, 0.9]),
                                          "charge_calculation": rng.choice(["continuous", "stepwise"])}}
    if r < 0.72 and fit_ok:
        return {"type": "two", "capfn": "fit"}
    if r < 0.78 and fit_ok:
        return {"type": "two", "capfn": "fit", "kwargs": {"noise_level": 0}}
    if r < 0.84 and fit_ok:
        return {"type": "ideal", "capfn": "fit"}
    if r < 0.95:
        return {"type": rng.choice(["ideal", "two"]), "capfn": [rng.choice([1, 1.5, 2]), rng.choice([0, 5, 10.5]),
                                                                 rng.choice([0, 0.25, 0.5]), rng.choice([0, 1])]}
    if r < 0.98:
        # init above capacity: constructor must raise
        return {"type": rng.choice(["ideal", "two"]), "capfn": [1, 0, 1, 3]}
    return {"type": "two", "kwargs": {"transition_soc": rng.choice([1.0, -0.1])}}


def _uses_fit(bp):
    return bp is not None and bp.get("capfn") == "fit"


def _gen_docs_case(rng):
    period = rng.choice(PERIODS)
    psec = int(60 * period)
    V = rng.choice(VOLTS)
    bp = _gen_bp(rng)
    maxp = _maxp_fit(V) if (_uses_fit(bp) and rng.random() < 0.8) else rng.choice([_maxp_fit(V), 6.6, 7.2, 3.3, 50, 11])
    anchor = rng.choice(ANCHORS)
    r = rng.random()
    if anchor == 0:
        start = rng.choice([0, 30, 3600])
    elif r < 0.4:
        start = anchor - anchor % 86400  # a UTC midnight
    elif r < 0.6:
        start = anchor - rng.randint(0, 6) * 3600 - rng.choice([0, 1800, 2700])  # local midnights of odd zones
    elif r < 0.8:
        start = anchor - anchor % psec + rng.choice([0, 1, psec - 1, psec // 2])
    else:
        start = anchor - rng.randint(0, 200000)
    start = max(start, 0)
    max_len = None if rng.random() < 0.5 else rng.choice([0, 1, 2, 5, 12, 48, 100, 288])
    ff = rng.random() < (0.7 if _uses_fit(bp) else 0.45)
    capped_ff = rng.random() < 0.2      # max_len AND force_feasible, sessions longer than max_len, energy above max_len's worth
    short_small = (not capped_ff) and rng.random() < 0.15   # short stays (2-24 periods), requests below 1.6 kWh
    if capped_ff:
        max_len = rng.choice([1, 2, 5, 12, 24, 48])
        ff = True
    docs = []
    n = rng.randint(1, 8)
    for k in range(n):
        if capped_ff or short_small:
            c = start + rng.randint(0, 2 * 86400)
            if rng.random() < 0.4:
                c = c - c % psec + rng.choice([0, 1, psec - 1])
            if capped_ff:
                stay0 = max_len + rng.choice([1, 2, 10, 100])
                d = (c // psec + stay0) * psec + rng.randint(0, psec - 1)
                kwh = maxp * max_len * (period / 60) * rng.choice([1.0000001, 1.01, 1.5, 3.0, 10.0])
                if rng.random() < 0.15:
                    kwh = maxp * max_len * (period / 60) * rng.choice([1.0, 0.5])
                if _uses_fit(bp):
                    kwh = min(kwh, 78.0)
            else:
                stay0 = rng.randint(2, 24)
                d = (c // psec + stay0) * psec + rng.randint(0, psec - 1)
                kwh = rng.choice([rng.uniform(0.01, 1.6), rng.uniform(0.01, 0.3), 0.05, 1.59])
            docs.append({"c": int(c), "d": int(d), "kwh": float(kwh), "sid": f"2_39_{k}_{c}",
                         "space": rng.choice(["CA-319", "AG-3F22", f"SP-{k}"]), "tz": rng.choice(ZONES)})
            continue
        r = rng.random()
        if r < 0.45:
            c = start - start % psec + rng.randint(0, 600) * psec + rng.choice([0, 0, 1, -1, psec - 1, psec // 2])
        elif r < 0.9:
            c = start + rng.randint(0, 3 * 86400)
        else:
            c = start - rng.randint(1, 7200)  # connected before the start of the simulation
        c = max(c, 0)
        r = rng.random()
        if r < 0.12:
            dur = rng.randint(0, max(psec - 1, 1))          # inside one period (maybe across a boundary)
        elif r < 0.3:
            dur = rng.randint(1, 60) * psec + rng.choice([0, 1, -1])
        elif r < 0.34:
            dur = 0
        elif r < 0.36:
            dur = -rng.randint(1, 7200)                      # malformed: disconnect before connect
        else:
            dur = rng.randint(60, 30 * 3600)
        d = max(c + dur, 0)
        stay = max((d // psec) - (c // psec), 0)
        if max_len is not None:
            stay = min(stay, max_len)
        lin = _maxp_fit(V) * stay * (period / 60)
        r = rng.random()
        if _uses_fit(bp) and r < 0.85:
            top = min(lin, 78.0)
            u = rng.choice([rng.random(), rng.random() * 0.1, 0.5, 0.999, 1.0, rng.random() ** 3])
            kwh = top * u if top > 0 else rng.uniform(0.0, 3.0)
        elif r < 0.7:
            kwh = round(rng.uniform(0.05, 70), 3)
        elif r < 0.8:
            kwh = maxp * stay * (period / 60) * rng.choice([1, 1, 0.5, 1.0000001, 2])
        elif r < 0.85:
            kwh = 0.0
        elif r < 0.9:
            kwh = rng.choice([8, 24, 40, 60, 85, 100, 100.5, 150])
        else:
            kwh = round(rng.uniform(0.001, 5), 4)
        docs.append({"c": int(c), "d": int(d), "kwh": float(kwh), "sid": f"2_39_{k}_{c}", "space": rng.choice(["CA-319", "AG-3F22", f"SP-{k}"]),
                     "tz": rng.choice(ZONES)})
    if rng.random() < 0.6:
        docs.sort(key=lambda x: x["c"])
    case = {"k": "docs", "start": int(start), "start_tz": rng.choice(ZONES), "period": period, "V": V, "maxp": maxp,
            "max_len": max_len, "ff": ff, "bp": bp, "docs": docs}
    if rng.random() < 0.015:
        case["period"] = 0
    return case


def _gen_samples_case(rng, exact=False):
    period = rng.choice([5, 15, 1, 60, 7.5, 3.75, 0.5, 2.5] if exact else PERIODS)
    V = rng.choice(VOLTS)
    bp = _gen_bp(rng)
    maxp = _maxp_fit(V) if _uses_fit(bp) else rng.choice([_maxp_fit(V), 6.6, 7.2, 3.3, 50])
    r = rng.random()
    max_len = None if r < 0.5 else rng.choice([1, 2.5, 8, 12, 0.05, 24, 3])
    ff = rng.random() < 0.5
    clip = None
    r = rng.random()
    if r < 0.3:
        clip = [0.0, 24.0, 0.0833, 48.0, 0.5, 150.0]
    elif r < 0.45:
        clip = [rng.choice([0.0, 6.0]), rng.choice([24.0, 20.0]), rng.choice([0.0, 0.0833, 1.0]), rng.choice([48.0, 10.0]),
                rng.choice([0.0, 0.5, 2.0]), rng.choice([150.0, 30.0])]
    days = []
    for _ in range(rng.randint(1, 3)):
        rows = []
        for _ in range(rng.choice([0, 1, 2, 3, 5])):
            if exact:
                a = rng.randint(0, 24 * 8) / 8
                dur = rng.randint(0, 30 * 8) / 8
                e = rng.randint(0, 400) / 8
            else:
                a = rng.uniform(0, 24) if rng.random() < 0.9 else rng.choice([-0.5, 0.0, 24.0, 25.5, rng.gauss(9, 3)])
                dur = rng.uniform(0.05, 30) if rng.random() < 0.88 else rng.choice([0.0, -1.0, 0.01, period / 60, period / 120, 60.0])
                e = rng.uniform(0.3, 60) if rng.random() < 0.9 else rng.choice([0.0, -2.0, 0.5, 150.0, 200.0])
            if _uses_fit(bp) and rng.random() < 0.85:
                # the converter hands the fit the duration in HOURS as if it were periods (DESIGN §8)
                d_eff = min(dur, max_len) if max_len is not None else dur
                lin = _maxp_fit(V) * max(d_eff, 0) * (period / 60)
                e = max(min(lin, 78.0) * rng.choice([rng.random(), 0.5, 0.05, 0.999]), 1e-3)
            rows.append([float(a), float(dur), float(e)])
        days.append(rows)
    if not any(days):
        days[0].append([9.0, 4.0, 10.0])
    case = {"k": "samples", "period": period, "V": V, "maxp": maxp, "max_len": max_len, "ff": ff, "bp": bp, "clip": clip,
            "days": days}
    if rng.random() < 0.015:
        case["period"] = 0
    return case


def _gen_fit_case(rng):
    V = rng.choice(VOLTS)
    P = rng.choice([5, 5, 1, 15, 0.5, 7, 2.5, 60, 3, 10])
    T = rng.choice([1, 2, 3, 6, 12, 24, 32, 64, 100, 144, 288, rng.randint(1, 400)])
    lin = _maxp_fit(V) * T * (P / 60)
    r = rng.random()
    if r < 0.3:
        E = lin * rng.choice([1.0, 1 / 1.001, 0.5, 0.999999, 1.001, 1.0000000001])
    elif r < 0.55:
        E = lin * rng.random()
    elif r < 0.75:
        E = lin * rng.choice([1e-6, 1e-3, 0.01, 0.05, 0.1, 0.2, 0.3, 0.45])      # far below half the deliverable energy
    elif r < 0.9:
        E = rng.choice([8, 24, 40, 60, 85, 100]) * rng.choice([1.0, 1.0, 0.9999999, 1.0000001, 0.8, 0.5, 0.2])  # ladder boundaries
        if rng.random() < 0.75:   # long enough a stay that the request is deliverable: the larger capacities get used
            T = int(math.ceil(E * rng.choice([1.02, 1.3, 2.0, 5.0]) / (_maxp_fit(V) * (P / 60)))) + rng.choice([0, 0, 1, 7])
            T = min(T, 1500)
    elif r < 0.95:
        E = rng.choice([0.0, 1.0, 5.0, 100.5, 150.0, 1e-9])
    else:
        E = rng.uniform(0, 100)
    if rng.random() < 0.18:
        # small requests (< 20 % of the smallest ladder battery) with SHORT stays: both branches of the fit
        T = rng.randint(2, 24)
        E = rng.choice([rng.uniform(0.01, 1.6), rng.uniform(0.01, 0.4), 1.6 * rng.random() ** 2, 0.05, 0.8, 1.59])
        if rng.random() < 0.5:
            # around the boundary between the closed-form and the bisection branch for the 8 kWh battery
            q = math.exp(-(_maxp_fit(V) / 8 / (60 / P)) * T / 0.2)
            E = min(1.6 * (1 - q) * rng.choice([0.9, 0.99, 0.999999, 1.000001, 1.01, 1.1, 1.3, 2.0]), 1.599)
    if rng.random() < 0.02:
        T = 0
    return {"k": "fit", "E": float(E), "T": T, "V": V, "P": P}



# ------------------------------------------------------------------ end to end (real DataClient over a fake transport)

E2E_BASE = "https://ev.caltech.edu/api/v1/"


def _gen_e2e_case(rng):
    """the docs stream's cases, served as JSON pages to the REAL client by a fake `requests.get`"""
    case = _gen_docs_case(rng)
    case["k"] = "e2e"
    case["site"] = rng.choice(["caltech", "jpl", "office001"])
    case["end"] = case["start"] + rng.choice([86400, 7 * 86400, 3600])
    sizes = []
    left = len(case["docs"])
    while left > 0:
        n = rng.choice([0, 1, 1, 2, 3, left])
        n = min(n, left)
        sizes.append(n)
        left -= n
    if rng.random() < 0.3:
        sizes.append(0)           # an empty last page
    case["page_sizes"] = sizes or [0]
    case["fault"] = None
    r = rng.random()
    if r < 0.06:
        case["site"] = rng.choice(["Caltech", "jpl2", ""])
    elif r < 0.2:
        case["fault"] = {"page": rng.randrange(len(case["page_sizes"])),
                         "kind": rng.choice(["notjson", "transport", "errdoc", "nolinks", "no_timezone", "bad_zone"])}
    return case


def _e2e_first_url(case):
    """written from the API description, not from the client"""
    cond = 'connectionTime >= "%s" and connectionTime <= "%s"' % (_rfc(case["start"]), _rfc(case["end"]))
    return E2E_BASE + "sessions/" + case["site"] + "?where=" + cond + "&sort=connectionTime&max_results=100"


def _e2e_pages(case):
    """[(url, page spec in the format of C20's fake server)]"""
    docs = list(enumerate(case["docs"]))
    out = []
    url = _e2e_first_url(case)
    f = case.get("fault")
    pos = 0
    for i, n in enumerate(case["page_sizes"]):
        items = []
        for k, d in docs[pos:pos + n]:
            j = _doc_json(d, k)
            if f and f["page"] == i and f["kind"] == "no_timezone" and (k - pos) == 0:
                del j["timezone"]
            if f and f["page"] == i and f["kind"] == "bad_zone" and (k - pos) == 0:
                j["timezone"] = "Mars/Olympus"
            items.append([[key, j[key]] for key in sorted(j)])
        pos += n
        last = i == len(case["page_sizes"]) - 1
        href = None if last else "sessions/%s?page=%d&max_results=100" % (case["site"], i + 2)
        p = {"kind": "page", "items": items, "next": "last" if last else "next", "href": href}
        if f and f["page"] == i:
            if f["kind"] in ("notjson", "transport", "errdoc"):
                p = {"kind": f["kind"]}
            elif f["kind"] == "nolinks":
                p["next"] = "nolinks"
        out.append((url, p))
        if p.get("next") != "next":
            break
        url = E2E_BASE + href
    return out


def _e2e_err(e):
    n = type(e).__name__
    return {"ConnectionError": "Transport", "ZeroDivisionError": "Other:ZeroDivisionError",
            "RecursionError": "Other:RecursionError"}.get(n, n)


def _run_e2e(case):
    import requests
    from unittest import mock
    from props import C20
    from acnportal.acnsim.events import acndata_events
    pages = _e2e_pages(case)
    srv = {C20._ckey(u): p for u, p in pages}
    log = []

    def fake_get(url, *a, **kw):
        log.append({"url": url, "auth": list(kw.get("auth") or ())})
        if len(log) > 60:
            raise requests.exceptions.ConnectionError("cut-off")
        p = srv.get(C20._ckey(url))
        if p is None or p["kind"] == "errdoc":
            return C20._Resp({"_status": "ERR", "_error": {"code": 404, "message": "not found"}}, status=404)
        if p["kind"] == "notjson":
            return C20._Resp(notjson=True, status=502)
        if p["kind"] == "transport":
            raise requests.exceptions.ConnectionError("refused")
        return C20._Resp(C20._payload(p))

    start = datetime.fromtimestamp(case["start"], pytz.timezone(case["start_tz"]))
    end = datetime.fromtimestamp(case["end"], pytz.timezone(case["start_tz"]))
    kwargs = {}
    if case["max_len"] is not None:
        kwargs["max_len"] = case["max_len"]
    if case["bp"] is not None:
        kwargs["battery_params"] = _impl_bp(case["bp"])
    if case["ff"]:
        kwargs["force_feasible"] = True
    obs = {"err": None}
    with mock.patch.object(requests, "get", fake_get):
        try:
            q = acndata_events.generate_events("tok3n", case["site"], start, end, case["period"], case["V"], case["maxp"], **kwargs)
        except Exception as e:  # noqa
            obs = {"err": _e2e_err(e), "msg": str(e)[:120]}
    obs["gets"] = list(log)
    if obs["err"] is None:
        evs, nq = _obs_evs(q, case)
        obs.update({"evs": evs, "n_events": nq})
        # server order: the list get_evs returns (second, independent pass through the same server)
        with mock.patch.object(requests, "get", fake_get):
            try:
                obs["order"] = [ev.session_id for ev in acndata_events.get_evs(
                    "tok3n", case["site"], start, end, case["period"], case["V"], case["maxp"], **kwargs)]
            except Exception as e:  # noqa
                obs["order"] = "err:" + _e2e_err(e)
    return obs


def _e2e_model_request(case):
    from props import C20
    base = {"op": "e2e", "base": E2E_BASE, "site": case["site"], "start": case["start"], "end": case["end"],
            "period": f2b(case["period"]), "V": f2b(case["V"]), "maxp": f2b(case["maxp"]), "ff": bool(case["ff"]),
            "bp": _bp_wire(case["bp"]), "pilot": f2b(_pilot(case)), "nmax": NMAX, "max_len": case["max_len"], "fuel": 80}
    names = set(["UTC"])
    server = []
    for u, p in _e2e_pages(case):
        if p["kind"] != "page":
            server.append([u, {"kind": "fail", "err": {"notjson": "JSONDecodeError", "transport": "Transport", "errdoc": "KeyError"}[p["kind"]]}])
            continue
        items = []
        for d in p["items"]:
            dd = dict(d)
            if isinstance(dd.get("timezone"), str):
                names.add(dd["timezone"])
            items.append({"fields": [[k, ({"s": v} if isinstance(v, str) else {"o": True})] for k, v in d],
                          "kwh": f2b(dd["kWhDelivered"])})
        nx = {"t": "next", "href": p["href"]} if p["next"] == "next" else ({"t": "last"} if p["next"] == "last" else {"t": "broken"})
        server.append([u, {"kind": "page", "items": items, "next": nx}])
    base["server"] = server
    base["zones"] = C20.zones_wire(names)
    return base


def corpus():
    return [
        # F9 (fixed in 676292d): the closed-form branch returned an SoC where kWh is expected
        {"k": "fit", "E": 1.0, "T": 100, "V": 208, "P": 5},
        {"k": "fit", "E": 5.0, "T": 100, "V": 208, "P": 5},
        {"k": "fit", "E": 6.656 * 12 / 12, "T": 12, "V": 208, "P": 5},
        {"k": "fit", "E": 0.0, "T": 0, "V": 208, "P": 5},
        {"k": "fit", "E": 5.0, "T": 0, "V": 208, "P": 5},
        {"k": "fit", "E": 101.0, "T": 1000, "V": 208, "P": 5},
        # same period / boundary / DST day / capped / force feasible, all battery shapes
        {"k": "docs", "start": 1552204800, "start_tz": "America/Los_Angeles", "period": 5, "V": 208, "maxp": 6.656, "max_len": 12,
         "ff": True, "bp": {"type": "two", "capfn": "fit"},
         "docs": [{"c": 1552212000 - 1, "d": 1552212000 + 3, "kwh": 3.2, "sid": "a", "space": "CA-1", "tz": "America/Los_Angeles"},
                  {"c": 1552212000, "d": 1552212000 + 299, "kwh": 3.2, "sid": "b", "space": "CA-2", "tz": "America/Los_Angeles"},
                  {"c": 1552212000 + 7, "d": 1552212000 + 9 * 3600, "kwh": 1.0, "sid": "c", "space": "CA-3", "tz": "Europe/Berlin"},
                  {"c": 1552212000 + 600, "d": 1552212000 + 4200, "kwh": 30.0, "sid": "d", "space": "CA-1", "tz": "Asia/Kolkata"}]},
        {"k": "docs", "start": 1572739200, "start_tz": "Australia/Lord_Howe", "period": 7, "V": 240, "maxp": 7.2, "max_len": None,
         "ff": False, "bp": None,
         "docs": [{"c": 1572771600, "d": 1572771600 + 8 * 3600, "kwh": 12.5, "sid": "x", "space": "S1", "tz": "Pacific/Chatham"},
                  {"c": 1572771600 + 419, "d": 1572771600 + 420, "kwh": 0.4, "sid": "y", "space": "S2", "tz": "America/Los_Angeles"}]},
        {"k": "docs", "start": 0, "start_tz": "UTC", "period": 0.5, "V": 120, "maxp": 3.3, "max_len": 0, "ff": True,
         "bp": {"type": "two", "kwargs": {"transition_soc": 0.5, "noise_level": 0.5, "charge_calculation": "stepwise"}},
         "docs": [{"c": 29, "d": 3600, "kwh": 2.0, "sid": "e", "space": "S", "tz": "UTC"}]},
        {"k": "samples", "period": 5, "V": 208, "maxp": 6.656, "max_len": 8, "ff": True, "bp": None, "clip": None,
         "days": [[[9.0, 10.0, 40.0], [-1.0, 2.0, 3.0], [23.99, 0.01, 1.0]], [], [[0.0, 2.0, 50.0]]]},
        {"k": "samples", "period": 5, "V": 208, "maxp": 6.656, "max_len": None, "ff": False, "bp": {"type": "two", "capfn": "fit"},
         "clip": [0.0, 24.0, 0.0833, 48.0, 0.5, 150.0], "days": [[[8.5, 6.0, 1.5], [30.0, 0.01, 0.1]]]},
    ] + TZ.corpus()


def _fit_grid():
    """exhaustive small-scope grid for the capacity fit (thorough tier): every combination of stay, voltage,
    period and fraction of the linearly deliverable energy, from 0.1 % up to 100 %"""
    out = []
    for T in (1, 2, 3, 6, 12, 24, 64, 100, 288):
        for V in (120, 208, 240):
            for P in (1, 5, 15):
                lin = _maxp_fit(V) * T * (P / 60)
                for fr in (1e-3, 0.01, 0.05, 0.1, 0.2, 0.3, 0.45, 0.5, 0.6, 0.8, 0.999, 1.0):
                    out.append({"k": "fit", "E": float(lin * fr), "T": T, "V": V, "P": P})
    # small requests (< 20 % of the 8 kWh ladder battery) with short stays (2-24 periods)
    for T in (2, 3, 4, 6, 8, 12, 16, 24):
        for V in (208, 240):
            for P in (1, 5, 15):
                for E in (0.02, 0.1, 0.25, 0.5, 0.8, 1.0, 1.3, 1.59):
                    out.append({"k": "fit", "E": E, "T": T, "V": V, "P": P})
    return out


def generate(rng, n, tier):
    out = []
    if tier == "thorough":
        out.extend(_fit_grid())
        out.extend(TZ.grid(rng, _SELF()))
    for i in range(n):
        r = i % 22
        if r >= 20:
            out.append(TZ.gen_case(rng, _SELF()))
        elif r < 3:
            out.append(_gen_e2e_case(rng))
        elif r < 9:
            out.append(_gen_docs_case(rng))
        elif r < 14:
            out.append(_gen_samples_case(rng, exact=(r == 13)))
        else:
            out.append(_gen_fit_case(rng))
    return out


# ------------------------------------------------------------------ implementation

def _affine(co):
    a, b, c, d = co
    return lambda e, s, v, p: (a * e + b, c * e + d)


def _impl_bp(bp):
    from acnportal.acnsim.models.battery import Battery, Linear2StageBattery, batt_cap_fn
    if bp is None:
        return None
    out = {"type": Linear2StageBattery if bp["type"] == "two" else Battery}
    cf = bp.get("capfn")
    if cf == "fit":
        out["capacity_fn"] = batt_cap_fn
    elif cf is not None:
        out["capacity_fn"] = _affine(cf)
    if bp.get("kwargs") is not None:
        out["kwargs"] = dict(bp["kwargs"])
    return out


def _rfc(secs):
    """RFC 1123 string of an epoch instant, produced without acnportal's own http_date."""
    return formatdate(secs, usegmt=True)


def _doc_json(d, k):
    return {"_id": f"id{k}", "clusterID": "0039", "siteID": "0002", "sessionID": d["sid"], "spaceID": d["space"],
            "stationID": "2-39-" + d["space"], "connectionTime": _rfc(d["c"]), "disconnectTime": _rfc(d["d"]),
            "doneChargingTime": _rfc(d["d"]) if k % 2 else None, "kWhDelivered": d["kwh"], "timezone": d["tz"],
            "userID": None, "userInputs": None}


def _pilot(case):
    return 4.0 * 1000.0 * max(float(case["maxp"]), 1.0) / float(case["V"])


def _obs_evs(queue, case, stay_unit_ok=True):
    """Read the generated sessions out of the real EventQueue and charge each real battery at full rate."""
    evs = []
    entries = list(queue.queue)
    pilot = _pilot(case)
    with I.noise_source() as ns:
        ns.value = 0.0
        for ts, event in entries:
            ev = event.ev
            b = ev._battery
            cap, init = float(b._capacity), float(b._init_charge)
            o = {"ts": int(ts), "etype": event.event_type, "session": ev.session_id, "station": ev.station_id,
                 "arrival": int(ev.arrival), "departure": int(ev.departure), "est": int(ev.estimated_departure),
                 "arrival_is_int": isinstance(ev.arrival, (int, np.integer)) and isinstance(ev.departure, (int, np.integer)),
                 "requested": I.enc(float(ev.requested_energy)), "cap": I.enc(cap), "init": I.enc(init),
                 "maxp": float(b._max_power), "two": hasattr(b, "_transition_soc"),
                 "ts_soc": float(getattr(b, "_transition_soc", 0.0)), "noise": float(getattr(b, "_noise_level", 0.0)),
                 "delivered0": float(ev.energy_delivered), "full": None}
            n = o["departure"] - o["arrival"]
            if 0 <= n <= NMAX and cap > 0 and case["period"] > 0:
                try:
                    for _ in range(n):
                        ev.charge(pilot, case["V"], case["period"])
                    o["full"] = float(ev.energy_delivered)
                except Exception as e:  # noqa
                    o["full"] = "err:" + I.err_name(e)
            evs.append(o)
    evs.sort(key=lambda o: (o["arrival"], o["session"]))
    return evs, len(entries)


def _run_docs(case):
    from acnportal.acnsim.events import acndata_events
    from acnportal.acndata.utils import parse_dates
    raw = [_doc_json(d, k) for k, d in enumerate(case["docs"])]
    calls = []

    class FakeClient:
        def __init__(self, token, url=None):
            self.token = token

        def get_sessions_by_time(self, site, start=None, end=None, min_energy=None, timeseries=False, count=False):
            calls.append((site, start, end))

            def gen():
                for s in raw:
                    s = copy.deepcopy(s)
                    parse_dates(s)      # the real client's conversion to zone-aware datetimes
                    yield s
            return gen()

    start = datetime.fromtimestamp(case["start"], pytz.timezone(case["start_tz"]))
    end = datetime.fromtimestamp(case["start"] + 10 * 86400, pytz.timezone(case["start_tz"]))
    kwargs = {}
    if case["max_len"] is not None:
        kwargs["max_len"] = case["max_len"]
    if case["bp"] is not None:
        kwargs["battery_params"] = _impl_bp(case["bp"])
    if case["ff"]:
        kwargs["force_feasible"] = True
    orig = acndata_events.DataClient
    acndata_events.DataClient = FakeClient
    try:
        try:
            q = acndata_events.generate_events("tok", "caltech", start, end, case["period"], case["V"], case["maxp"], **kwargs)
        except Exception as e:  # noqa
            return {"err": I.err_name(e), "msg": str(e)[:120]}
    finally:
        acndata_events.DataClient = orig
    evs, nq = _obs_evs(q, case)
    return {"err": None, "evs": evs, "n_events": nq, "client_calls": len(calls)}


def _run_samples(case):
    from acnportal.acnsim.events import stochastic_events as SE
    days = [np.array(rows, dtype=float).reshape(-1, 3) for rows in case["days"]]
    it = iter([d for d in days if len(d) > 0])
    asked = []
    if case.get("clip") is not None:
        class FakeGMM:
            def sample(self, n):
                asked.append(n)
                return next(it).copy(), None
        gen = SE.GaussianMixtureEvents(*case["clip"], pretrained_model=FakeGMM())
    else:
        class Mocked(SE.StochasticEvents):
            def sample(self, n):
                asked.append(n)
                return next(it).copy()
        gen = Mocked()
    kwargs = {}
    if case["max_len"] is not None:
        kwargs["max_len"] = case["max_len"]
    if case["bp"] is not None:
        kwargs["battery_params"] = _impl_bp(case["bp"])
    if case["ff"]:
        kwargs["force_feasible"] = True
    try:
        with contextlib.redirect_stdout(io.StringIO()):
            q = gen.generate_events([len(d) for d in days], case["period"], case["V"], case["maxp"], **kwargs)
    except Exception as e:  # noqa
        return {"err": I.err_name(e), "msg": str(e)[:120]}
    evs, nq = _obs_evs(q, case)
    return {"err": None, "evs": evs, "n_events": nq, "asked": asked}


def _full_two_stage(cap, init, V, P, n):
    from acnportal.acnsim.models.battery import Linear2StageBattery
    b = Linear2StageBattery(cap, init, 32 * V / 1000)
    rates = [b.charge(32, V, P) for _ in range(n)]
    return float(b._current_charge - init), float(sum(rates) * V / 1000 * (P / 60))


def _run_fit(case):
    from acnportal.acnsim.models.battery import batt_cap_fn
    E, T, V, P = case["E"], case["T"], case["V"], case["P"]
    try:
        cap, init = batt_cap_fn(E, T, V, P)
    except Exception as e:  # noqa
        err = I.err_name(e)
        # what the largest battery of the ladder takes from empty in T periods (for the oracle)
        best = None
        if isinstance(T, int) and T > 0:
            best = _full_two_stage(100, 0, V, P, T)[0]
        return {"err": err, "msg": str(e)[:80], "best100": best}
    out = {"err": None, "cap": float(cap), "init": I.enc(float(init)), "full": None, "ledger": None, "ctor": None, "smaller": []}
    if isinstance(T, int) and 0 <= T <= 2000:
        try:
            out["full"], out["ledger"] = _full_two_stage(float(cap), float(init), V, P, T)
        except Exception as e:  # noqa
            out["ctor"] = I.err_name(e)
        if out["ctor"] is None and T > 0:
            # minimality: every smaller ladder capacity that could hold E cannot take it from empty
            for c in (8, 24, 40, 60, 85, 100):
                if c < cap and E <= c:
                    out["smaller"].append([c, _full_two_stage(c, 0, V, P, T)[0]])
    return out


def _SELF():
    import sys
    return sys.modules[__name__]


def run_impl(case):
    k = case["k"]
    if k == "tz":
        return TZ.run_impl(case, _SELF())
    if k == "e2e":
        return _run_e2e(case)
    if k == "docs":
        return _run_docs(case)
    if k == "samples":
        return _run_samples(case)
    return _run_fit(case)


# ------------------------------------------------------------------ model

def _bp_wire(bp):
    if bp is None:
        return None
    kw = bp.get("kwargs") or {}
    cf = bp.get("capfn")
    return {"type": bp["type"], "capfn": None if cf is None else ("fit" if cf == "fit" else [f2b(x) for x in cf]),
            "noise": f2b(kw.get("noise_level", 0)), "ts": f2b(kw.get("transition_soc", 0.8)),
            "calc": kw.get("charge_calculation", "continuous")}


def model_request(case):
    k = case["k"]
    if k == "tz":
        return TZ.model_request(case, _SELF())
    if k == "e2e":
        return _e2e_model_request(case)
    if k == "fit":
        T = case["T"]
        return {"op": "fit", "E": f2b(case["E"]), "T": f2b(T), "V": f2b(case["V"]), "P": f2b(case["P"]),
                "n": T if isinstance(T, int) and 0 <= T <= 2000 else 0}
    base = {"period": f2b(case["period"]), "V": f2b(case["V"]), "maxp": f2b(case["maxp"]), "ff": bool(case["ff"]),
            "bp": _bp_wire(case["bp"]), "pilot": f2b(_pilot(case)), "nmax": NMAX}
    if k == "docs":
        base.update({"op": "docs", "start": f2b(case["start"]), "max_len": case["max_len"],
                     "docs": [{"c": f2b(d["c"]), "d": f2b(d["d"]), "kwh": f2b(d["kwh"]), "sid": d["sid"], "space": d["space"]}
                              for d in case["docs"]]})
        return base
    days = []
    cl = case.get("clip")
    for rows in case["days"]:
        rr = []
        for a, d, e in rows:
            if cl is not None:   # numpy.clip on each column (trusted, applied here)
                a = float(np.clip(a, cl[0], cl[1])); d = float(np.clip(d, cl[2], cl[3])); e = float(np.clip(e, cl[4], cl[5]))
            rr.append([f2b(a), f2b(d), f2b(e)])
        days.append(rr)
    base.update({"op": "samples", "max_len": None if case["max_len"] is None else f2b(case["max_len"]), "days": days})
    return base


def _close_fit(a, b, cap):
    return close(a, b) or abs(a - b) <= 4 * FIT_TOL * max(cap, 1.0)


def compare(case, obs, model):
    if case["k"] == "tz":
        return TZ.compare(case, obs, model, _SELF())
    out = []
    if case["k"] == "e2e" and model.get("err") == "OutOfFuel":
        # the composed model reports the bisection's exhausted fuel through the client's error enum
        # (no page cycles are generated, so this is the only source of OutOfFuel)
        model = dict(model, err="Other:RecursionError")
    if obs["err"] != model["err"]:
        # Python's RecursionError limit vs model fuel is not a behaviour of interest; everything else is
        return [f"error class impl={obs['err']} ({obs.get('msg')}) model={model['err']}"]
    if case["k"] == "e2e":
        from props import C20
        iu = [C20._canon_url(g["url"]) for g in obs["gets"]]
        mu = [C20._canon_url(u) for u in model["urls"]]
        # the model reports no URL list when the call dies before the generator is consumed
        if (obs["err"] is None or model.get("n_before") is not None) and iu != mu:
            out.append(f"requested URLs impl={iu} model={mu}")
    if obs["err"] is not None:
        return out
    if case["k"] == "fit":
        if obs["cap"] != b2f(model["cap"]):
            out.append(f"fit capacity impl={obs['cap']} model={b2f(model['cap'])}")
            return out
        cap = obs["cap"]
        mi, ii = b2f(model["init"]), I.num(obs["init"])
        same_full = (obs["full"] is not None and model["full"] is not None and _close_fit(obs["full"], b2f(model["full"]), cap))
        if not (close(ii, mi) or (math.isfinite(ii) and abs(ii - mi) <= 4 * FIT_TOL * cap) or same_full):
            out.append(f"fit init impl={ii!r} model={mi!r}")
        if (obs["full"] is None) != (model["full"] is None):
            out.append(f"fit full-charge availability impl={obs['full']} model={model['full']}")
        elif obs["full"] is not None and not _close_fit(obs["full"], b2f(model["full"]), cap):
            out.append(f"fit delivered impl={obs['full']!r} model={b2f(model['full'])!r}")
        return out
    mevs = sorted(model["evs"], key=lambda e: (e["arrival"], e["session"]))
    if len(mevs) != len(obs["evs"]):
        return [f"number of sessions impl={len(obs['evs'])} model={len(mevs)}"]
    for a, m in zip(obs["evs"], mevs):
        w = a["session"]
        for key in ("session", "station", "arrival", "departure", "est", "two"):
            if a[key] != m[key]:
                out.append(f"{w}: {key} impl={a[key]} model={m[key]}")
        cap = max(abs(I.num(a["cap"])), 1.0) if math.isfinite(I.num(a["cap"])) else 1.0
        fit = _uses_fit(case["bp"])
        for key, mk in (("requested", "requested"), ("cap", "cap"), ("init", "init"), ("maxp", "maxp"), ("ts_soc", "ts"), ("noise", "noise")):
            x, y = I.num(a[key]), b2f(m[mk])
            if key in ("ts_soc", "noise") and not a["two"]:
                continue
            # (bisection may stop one step apart when numpy.exp and Lean's exp differ in the last ulp at the
            #  tolerance test; both answers then take the same energy — compared below)
            same_full = (fit and key == "init" and isinstance(a["full"], float) and m["full"] is not None
                         and abs(a["full"] - b2f(m["full"])) <= 4 * FIT_TOL * cap)
            if not (close(x, y) or (fit and key == "init" and abs(x - y) <= 4 * FIT_TOL * cap) or same_full):
                out.append(f"{w}: {key} impl={x!r} model={y!r}")
        if isinstance(a["full"], str):
            out.append(f"{w}: charging the real battery raised {a['full']}")
        elif (a["full"] is None) != (m["full"] is None):
            out.append(f"{w}: full-charge availability impl={a['full']} model={m['full']}")
        elif a["full"] is not None:
            y = b2f(m["full"])
            if not (close(a["full"], y) or (fit and abs(a["full"] - y) <= 4 * FIT_TOL * cap)):
                out.append(f"{w}: energy taken at full rate impl={a['full']!r} model={y!r}")
    ev_i = sorted((o["ts"], o["session"]) for o in obs["evs"])
    ev_m = sorted((e[0], e[1]) for e in model["events"])
    if ev_i != ev_m:
        out.append(f"plugin events impl={ev_i} model={ev_m}")
    return out


# ------------------------------------------------------------------ property oracle

def _floor_idx(secs, period):
    """exact floor(secs / (60·period)) from the integers of the case"""
    q = Fraction(secs) / (60 * Fraction(period))
    return math.floor(q)


def _exact_floor_float(x, pph_frac):
    """floor of x·pph in exact arithmetic, or None when the double product is not exact and the exact value lies
    within 1e-9 of an integer (razor edge)"""
    q = Fraction(x) * pph_frac
    fl = math.floor(q)
    edge = min(q - fl, fl + 1 - q)
    if edge != 0 and edge < Fraction(1, 10 ** 9):
        return None
    return fl


def _slack(*xs):
    return 1e-9 + 1e-9 * max([abs(float(x)) for x in xs] + [0.0])


def _check_battery(case, o, stay_for_fit, fails, where):
    """free capacity, constructor guard, what a full-rate charge over the stay delivers"""
    bp = case["bp"]
    cap, init, req = I.num(o["cap"]), I.num(o["init"]), I.num(o["requested"])
    fit = _uses_fit(bp)
    tol = FIT_TOL * cap if fit else 0.0
    if not (init <= cap):
        fails.append({"kind": "init_above_capacity", "detail": f"{where}: init={init} cap={cap}"})
    if bp is None or bp.get("capfn") is None or fit:
        if cap - init < req - _slack(cap, req) - tol:
            fails.append({"kind": "free_capacity_below_request", "detail": f"{where}: cap={cap!r} init={init!r} requested={req!r}"})
    if fit and init < 0:
        fails.append({"kind": "fit_negative_init", "detail": f"{where}: init={init}"})
    if o["delivered0"] != 0:
        fails.append({"kind": "fresh_ev_not_empty", "detail": f"{where}: energy_delivered={o['delivered0']}"})
    full = o["full"]
    if isinstance(full, str):
        fails.append({"kind": "charging_generated_battery_raised", "detail": f"{where}: {full}"})
        return
    if full is None:
        return
    V, P, maxp = case["V"], case["period"], case["maxp"]
    n = o["departure"] - o["arrival"]
    default_batt = bp is None or (bp["type"] == "ideal" and bp.get("capfn") is None)
    if default_batt:
        # ideal battery, capacity = request, empty: takes min(request, max_power·stay·period/60)
        want = min(req, maxp * n * (P / 60))
        if not close(full, want, 1e-8):
            fails.append({"kind": "default_battery_full_charge_wrong", "detail": f"{where}: took {full!r}, expected {want!r}"})
        if case["ff"] and case["k"] == "docs" and full < req - _slack(req) * 10:
            fails.append({"kind": "force_feasible_request_not_deliverable", "detail": f"{where}: took {full!r} < requested {req!r}"})
    if fit and o["two"] and close(maxp, 32 * V / 1000) and abs(o["ts_soc"] - 0.8) < 1e-12 and o["noise"] == 0 \
            and (bp.get("kwargs") or {}).get("charge_calculation", "continuous") == "continuous":
        if case["k"] == "docs":
            # the fit's promise: exactly the request (its stay is the session's stay in periods)
            if abs(full - req) > _slack(req) + 2 * tol:
                fails.append({"kind": "fit_delivery_not_exact", "detail": f"{where}: took {full!r}, requested {req!r} (cap {cap}, init {init!r}, stay {n})"})
        else:
            # stochastic path: the fit saw the stay in hours (DESIGN §8); with period ≤ 60 the real stay is at least as
            # long in periods whenever it is ≥ 1, so at least the request must fit
            if P <= 60 and n >= stay_for_fit and full < req - _slack(req) - 2 * tol:
                fails.append({"kind": "fit_battery_cannot_take_request", "detail": f"{where}: took {full!r} < requested {req!r}"})


def _oracle_docs(case, obs):
    fails = []
    P = case["period"]
    if P == 0:
        if obs["err"] != "Other:ZeroDivisionError":
            fails.append({"kind": "zero_period_not_rejected", "detail": str(obs.get("err"))})
        return fails
    if obs["err"] is not None:
        # allowed aborts: a capacity_fn / constructor ValueError (infeasible fit, init > capacity, bad transition_soc)
        bp = case["bp"]
        legit = obs["err"] == "ValueError" and bp is not None and (bp.get("capfn") is not None or "transition_soc" in (bp.get("kwargs") or {}))
        # default battery: Battery(request, 0) can only raise for a negative request, i.e. (malformed stream) a
        # document whose disconnectTime precedes its connectionTime together with force_feasible
        # (with a capacity_fn such a document hands it a negative request and a negative stay: any exception)
        if any(_floor_idx(d["d"], P) < _floor_idx(d["c"], P) for d in case["docs"]) and (
                (obs["err"] == "ValueError" and case["ff"]) or (bp is not None and bp.get("capfn") is not None)):
            legit = True
        if not legit:
            fails.append({"kind": "conversion_raised", "detail": f"{obs['err']}: {obs.get('msg')}"})
        return fails
    if obs["client_calls"] != 1:
        fails.append({"kind": "client_not_called_once", "detail": str(obs["client_calls"])})
    docs = {d["sid"]: d for d in case["docs"]}
    evs = obs["evs"]
    if len(evs) != len(case["docs"]) or obs["n_events"] != len(case["docs"]):
        fails.append({"kind": "session_count_wrong", "detail": f"{len(evs)} sessions / {obs['n_events']} events for {len(case['docs'])} documents"})
    sids = [o["session"] for o in evs]
    if len(set(sids)) != len(sids) or set(sids) != set(docs):
        fails.append({"kind": "session_ids_not_preserved", "detail": f"{sids}"})
        return fails
    off = _floor_idx(case["start"], P)
    for o in evs:
        d = docs[o["session"]]
        w = o["session"]
        if o["station"] != d["space"]:
            fails.append({"kind": "station_id_not_preserved", "detail": f"{w}: {o['station']} vs {d['space']}"})
        if o["etype"] != "Plugin" or o["ts"] != o["arrival"]:
            fails.append({"kind": "plugin_event_wrong", "detail": f"{w}: type {o['etype']} ts {o['ts']} arrival {o['arrival']}"})
        if not o["arrival_is_int"]:
            fails.append({"kind": "index_not_integer", "detail": w})
        ea = _floor_idx(d["c"], P) - off
        ed0 = _floor_idx(d["d"], P) - off
        if o["arrival"] != ea:
            fails.append({"kind": "arrival_not_floor_index", "detail": f"{w}: arrival {o['arrival']} expected {ea} (connect {d['c']}, start {case['start']}, period {P})"})
        ed = ed0
        L = case["max_len"]
        if L is not None and ed0 - ea > L:
            ed = ea + L
        if o["departure"] != ed:
            fails.append({"kind": "departure_not_floor_index", "detail": f"{w}: departure {o['departure']} expected {ed} (uncapped {ed0}, max_len {L})"})
        if d["d"] >= d["c"] and o["departure"] < o["arrival"]:
            fails.append({"kind": "order_not_preserved", "detail": f"{w}: arrival {o['arrival']} departure {o['departure']}"})
        if L is not None and o["departure"] - o["arrival"] > L:
            fails.append({"kind": "stay_exceeds_max_len", "detail": f"{w}: stay {o['departure'] - o['arrival']} > {L}"})
        if o["est"] != o["departure"]:
            fails.append({"kind": "estimated_departure_differs", "detail": w})
        req = I.num(o["requested"])
        stay = o["departure"] - o["arrival"]
        want = d["kwh"]
        if case["ff"]:
            want = min(d["kwh"], case["maxp"] * stay * (P / 60))
        if not close(req, want):
            fails.append({"kind": "requested_energy_wrong", "detail": f"{w}: requested {req!r} expected {want!r} (kWhDelivered {d['kwh']}, ff {case['ff']}, stay {stay})"})
        if d["kwh"] >= 0 and stay >= 0 and req < 0:
            fails.append({"kind": "requested_energy_negative", "detail": f"{w}: {req}"})
        _check_battery(case, o, stay, fails, w)
    ts = [o["ts"] for o in evs]
    if ts != sorted(ts):
        fails.append({"kind": "events_not_sorted", "detail": str(ts)})
    return fails


def _clipped_rows(case):
    """(row_idx, arrival_h, duration_h, energy) after the (trusted) clipping and the 24·day shift"""
    out = []
    idx = 0
    cl = case.get("clip")
    for dnum, rows in enumerate(case["days"]):
        for a, d, e in rows:
            if cl is not None:
                a = min(max(a, cl[0]), cl[1]); d = min(max(d, cl[2]), cl[3]); e = min(max(e, cl[4]), cl[5])
            out.append((idx, a + 24 * dnum, d, e))
            idx += 1
    return out


def _oracle_samples(case, obs):
    fails = []
    P = case["period"]
    if P == 0:
        if obs["err"] != "Other:ZeroDivisionError":
            fails.append({"kind": "zero_period_not_rejected", "detail": str(obs.get("err"))})
        return fails
    if obs["err"] is not None:
        bp = case["bp"]
        legit = obs["err"] == "ValueError" and bp is not None and (bp.get("capfn") is not None or "transition_soc" in (bp.get("kwargs") or {}))
        if not legit:
            fails.append({"kind": "conversion_raised", "detail": f"{obs['err']}: {obs.get('msg')}"})
        return fails
    if obs["asked"] != [len(r) for r in case["days"] if len(r) > 0]:
        fails.append({"kind": "sampler_calls_wrong", "detail": f"asked {obs['asked']}"})
    rows = _clipped_rows(case)
    kept = [(i, a, d, e) for (i, a, d, e) in rows if not (a < 0 or d <= 0 or e <= 0)]
    evs = {o["session"]: o for o in obs["evs"]}
    if len(evs) != len(obs["evs"]):
        fails.append({"kind": "session_ids_not_unique", "detail": str([o["session"] for o in obs["evs"]])})
    if set(evs) != {f"session_{i}" for (i, _, _, _) in kept} or obs["n_events"] != len(kept):
        fails.append({"kind": "session_count_wrong", "detail": f"kept {sorted(evs)} expected rows {[i for (i, _, _, _) in kept]}"})
        return fails
    pph = Fraction(60) / Fraction(P)
    L = case["max_len"]
    for i, a, d, e in kept:
        o = evs[f"session_{i}"]
        w = o["session"]
        if o["station"] != f"station_{i}":
            fails.append({"kind": "station_id_not_preserved", "detail": w})
        if o["etype"] != "Plugin" or o["ts"] != o["arrival"]:
            fails.append({"kind": "plugin_event_wrong", "detail": f"{w}: type {o['etype']} ts {o['ts']} arrival {o['arrival']}"})
        dur = d if L is None or not (d > L) else L     # the converter's own unit: hours (DESIGN §8)
        ea = _exact_floor_float(a, pph)
        ed = _exact_floor_float(a + dur, pph)
        if ea is not None and o["arrival"] != ea:
            fails.append({"kind": "arrival_not_floor_index", "detail": f"{w}: arrival {o['arrival']} expected {ea} ({a} h, period {P})"})
        if ed is not None and o["departure"] != ed:
            fails.append({"kind": "departure_not_floor_index", "detail": f"{w}: departure {o['departure']} expected {ed} ({a}+{dur} h, period {P})"})
        if o["departure"] < o["arrival"]:
            fails.append({"kind": "order_not_preserved", "detail": f"{w}: arrival {o['arrival']} departure {o['departure']}"})
        if L is not None and ea is not None and ed is not None and (o["departure"] - o["arrival"]) > math.floor(Fraction(L) * pph) + 1:
            fails.append({"kind": "stay_exceeds_max_len", "detail": f"{w}: stay {o['departure'] - o['arrival']} periods, cap {L} h"})
        want = e
        if case["ff"]:
            want = min(e, case["maxp"] * dur)
        req = I.num(o["requested"])
        if not close(req, want):
            fails.append({"kind": "requested_energy_wrong", "detail": f"{w}: requested {req!r} expected {want!r}"})
        if req < 0:
            fails.append({"kind": "requested_energy_negative", "detail": f"{w}: {req}"})
        if o["est"] != o["departure"]:
            fails.append({"kind": "estimated_departure_differs", "detail": w})
        _check_battery(case, o, math.ceil(dur), fails, w)
    return fails


def _oracle_fit(case, obs):
    fails = []
    E, T, V, P = case["E"], case["T"], case["V"], case["P"]
    lin = 32 * V / 1000 * T * (P / 60)
    if obs["err"] is not None:
        if obs["err"] != "ValueError":
            fails.append({"kind": "fit_raised", "detail": f"{obs['err']}: {obs.get('msg')}"})
        elif obs["best100"] is not None and E <= 100 and obs["best100"] > E + _slack(E) + 1e-7:
            fails.append({"kind": "fit_refused_feasible_request", "detail": f"E={E} T={T}: a 100 kWh battery takes {obs['best100']} from empty"})
        return fails
    cap, init = obs["cap"], I.num(obs["init"])
    tol = FIT_TOL * cap
    if T == 0 or E < 0:
        return fails          # outside the fit's domain (stay > 0, request ≥ 0)
    if cap not in (8, 24, 40, 60, 85, 100) or cap < E:
        fails.append({"kind": "fit_capacity_not_on_ladder", "detail": f"cap={cap} E={E}"})
    if not (0 <= init <= cap):
        fails.append({"kind": "init_above_capacity" if init > cap else "fit_negative_init", "detail": f"cap={cap} init={init!r}"})
        return fails
    if cap - init < E - _slack(E) - tol:
        fails.append({"kind": "free_capacity_below_request", "detail": f"cap={cap} init={init!r} E={E!r}"})
    if obs["ctor"] is not None:
        fails.append({"kind": "fit_battery_constructor_raised", "detail": obs["ctor"]})
        return fails
    if obs["full"] is not None:
        if abs(obs["full"] - E) > _slack(E) + 2 * tol:
            fails.append({"kind": "fit_delivery_not_exact", "detail": f"batt_cap_fn({E!r},{T},{V},{P}) = ({cap},{init!r}); full-rate charge for {T} periods takes {obs['full']!r}"})
        if abs(obs["ledger"] - obs["full"]) > _slack(E) * 10:
            fails.append({"kind": "fit_rate_ledger_differs", "detail": f"{obs['ledger']!r} vs {obs['full']!r}"})
        for c, took in obs["smaller"]:
            if took > E + _slack(E) + 1e-7:
                fails.append({"kind": "fit_capacity_not_minimal", "detail": f"E={E} T={T}: capacity {c} takes {took} from empty but {cap} was chosen"})
    return fails


def _oracle_e2e(case, obs):
    from props import C20
    fails = []
    pages = _e2e_pages(case)
    want_urls = [C20._canon_url(u) for u, _ in pages]
    got_urls = [C20._canon_url(g["url"]) for g in obs["gets"]]
    f = case.get("fault")
    if case["period"] == 0:
        if obs["err"] != "Other:ZeroDivisionError" or got_urls:
            fails.append({"kind": "zero_period_not_rejected", "detail": f"{obs.get('err')} after {len(got_urls)} requests"})
        return fails
    if case["site"] not in ("caltech", "jpl", "office001"):
        if obs["err"] != "ValueError" or got_urls:
            fails.append({"kind": "invalid_site_not_rejected_before_request", "detail": f"{obs.get('err')} after {len(got_urls)} requests"})
        return fails
    if any(g["auth"] != ["tok3n", ""] for g in obs["gets"]):
        fails.append({"kind": "token_not_sent", "detail": str(obs["gets"][:1])})
    if f is not None and f["page"] < len(pages) and not (f["kind"] in ("no_timezone", "bad_zone") and not pages[f["page"]][1].get("items")):
        want = {"notjson": "JSONDecodeError", "transport": "Transport", "errdoc": "KeyError", "nolinks": "KeyError",
                "no_timezone": "KeyError", "bad_zone": "UnknownTimeZoneError"}[f["kind"]]
        # an earlier document may legitimately abort the call first (capacity_fn / constructor ValueError)
        if obs["err"] is None:
            fails.append({"kind": "transport_fault_swallowed", "detail": f"fault {f} but the call returned a queue"})
        elif obs["err"] != want and obs["err"] not in ("ValueError", "Other:RecursionError"):
            fails.append({"kind": "transport_fault_wrong_error", "detail": f"fault {f}: {obs['err']} (expected {want})"})
        if got_urls != want_urls[:len(got_urls)] or len(got_urls) > f["page"] + 1:
            fails.append({"kind": "requests_not_following_links", "detail": f"requested {got_urls}"})
        return fails
    if obs["err"] is None:
        # one request per page of the chain, in chain order, none after the last page
        if got_urls != want_urls:
            fails.append({"kind": "requests_not_following_links", "detail": f"requested {got_urls} expected {want_urls}"})
        if obs.get("order") != [d["sid"] for d in case["docs"]]:
            fails.append({"kind": "sessions_not_in_server_order", "detail": f"{obs.get('order')}"})
    else:
        if got_urls != want_urls[:len(got_urls)]:
            fails.append({"kind": "requests_not_following_links", "detail": f"requested {got_urls} expected a prefix of {want_urls}"})
    fails.extend(_oracle_docs(case, dict(obs, client_calls=1)))
    return fails


def oracle(case, obs):
    if case["k"] == "tz":
        return TZ.oracle(case, obs, _SELF())
    if case["k"] == "e2e":
        return _oracle_e2e(case, obs)
    if case["k"] == "docs":
        return _oracle_docs(case, obs)
    if case["k"] == "samples":
        return _oracle_samples(case, obs)
    return _oracle_fit(case, obs)


# ------------------------------------------------------------------ bookkeeping

def _fit_branch(E, T, V, P, cap):
    m = 32 * V / 1000 / cap / (60 / P)
    with np.errstate(all="ignore"):
        s0 = 1 + np.float64(E / cap) / (np.exp(m * T / (0.8 - 1)) - 1)
    return "closed" if s0 >= 0.8 else "bisect"


def features(case, obs):
    k = case["k"]
    if k == "tz":
        return TZ.features(case, obs, _SELF())
    out = ["stream:" + k]
    if k == "e2e":
        out.append("e2e:pages:%d" % min(len(case["page_sizes"]), 4))
        if 0 in case["page_sizes"]:
            out.append("e2e:empty_page")
        out.append("e2e:fault:" + (case["fault"]["kind"] if case.get("fault") else "none"))
        out.append("e2e:requests:%d" % min(len(obs.get("gets", [])), 5))
        if obs.get("err") is None:
            out.extend(f.replace("docs:", "e2e:") for f in features(dict(case, k="docs"), obs) if f.startswith("docs:") and not f.startswith("docs:tz"))
        else:
            out.append("e2e:err:" + obs["err"])
        return out
    if obs.get("err") is not None:
        out.append(f"{k}:err:" + obs["err"])
        return out
    if k == "fit":
        out.append("fit:cap:%g" % obs["cap"])
        out.append("fit:branch:" + _fit_branch(case["E"], case["T"], case["V"], case["P"], obs["cap"]))
        if 2 <= case["T"] <= 24 and case["E"] < 1.6:
            out.append("fit:small_short:" + _fit_branch(case["E"], case["T"], case["V"], case["P"], obs["cap"]))
        lin = 32 * case["V"] / 1000 * case["T"] * (case["P"] / 60)
        if lin > 0:
            r = case["E"] / lin
            out.append("fit:E/lin:" + ("<0.1" if r < 0.1 else "<0.5" if r < 0.5 else "<1" if r < 1 else ">=1"))
        return out
    bp = case["bp"]
    out.append(f"{k}:bp:" + ("None" if bp is None else bp["type"] + ("+fit" if bp.get("capfn") == "fit" else "+capfn" if bp.get("capfn") else "") + ("+kwargs" if bp.get("kwargs") else "")))
    out.append(f"{k}:period:%g" % case["period"])
    out.append(f"{k}:ff:{case['ff']}")
    out.append(f"{k}:max_len:" + ("None" if case["max_len"] is None else "set"))
    if k == "docs":
        docs = {d["sid"]: d for d in case["docs"]}
        P = case["period"]
        for o in obs["evs"]:
            d = docs.get(o["session"])
            if d is None:
                continue
            st = o["departure"] - o["arrival"]
            out.append("docs:stay:" + ("neg" if st < 0 else "0" if st == 0 else "1" if st == 1 else "many"))
            psec = int(60 * P)
            if d["c"] % psec == 0:
                out.append("docs:connect_on_boundary")
            if case["max_len"] is not None and st == case["max_len"]:
                out.append("docs:capped")
            if case["ff"] and I.num(o["requested"]) < d["kwh"]:
                out.append("docs:ff_reduced")
                if case["max_len"] is not None and st == case["max_len"]:
                    out.append("docs:capped_and_ff_reduced")
            if _uses_fit(bp) and 2 <= st <= 24 and I.num(o["requested"]) < 1.6:
                out.append("docs:fit_small_short")
            fl = math.floor(Fraction(d["c"] - case["start"]) / (60 * Fraction(P)))
            if fl != o["arrival"]:
                out.append("docs:floor_of_difference_differs")
            if _uses_fit(bp) and math.isfinite(I.num(o["cap"])) and I.num(o["cap"]) > 0:
                out.append("docs:fit:" + _fit_branch(I.num(o["requested"]), st, case["V"], P, I.num(o["cap"])))
            out.append("docs:tz:" + d["tz"])
    else:
        n_in = sum(len(r) for r in case["days"])
        out.append("samples:skipped" if len(obs["evs"]) < n_in else "samples:all_kept")
        out.append("samples:clip:" + ("None" if case.get("clip") is None else "set"))
        for o in obs["evs"]:
            st = o["departure"] - o["arrival"]
            out.append("samples:stay:" + ("0" if st == 0 else "1" if st == 1 else "many"))
    return out


def nontrivial(case, obs):
    fs = features(case, obs)
    keys = ("tz:", "e2e:", "docs:stay:0", "docs:connect_on_boundary", "docs:capped", "docs:ff_reduced", "docs:fit:", "samples:skipped",
            "samples:stay:0", "fit:branch", ":err:", "docs:floor_of_difference_differs", "samples:bp:two+fit")
    return any(any(f.startswith(k) or k in f for k in keys) for f in fs)


def shrink(case, kind):
    """keep a single document / sample that still shows the failure"""
    def still(c):
        try:
            return any(f["kind"] == kind for f in oracle(c, run_impl(c)))
        except Exception:
            return False
    if case["k"] == "docs" and len(case["docs"]) > 1:
        for d in case["docs"]:
            c = dict(case, docs=[d])
            if still(c):
                return c
    if case["k"] == "samples":
        for di, rows in enumerate(case["days"]):
            for r in rows:
                c = dict(case, days=[[] for _ in range(di)] + [[r]])
                if still(c):
                    return c
    return case
